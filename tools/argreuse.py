"""C01 with long-lived argument slices: a caller keeps ONE loc, ONE size and ONE step slice, overwrites them in place and
slices the same root again (the earlier view is dropped first).  Each round must give exactly what a fresh slice with those
arguments gives: element i of slice(loc, dims, step) is element loc + i*step of the parent -- whatever the argument slices
held before.  Judged by the abstract specification of tools/arrays_gen.py, round by round; observables per round: the
view read by Get, by Unroll, through CopyFrom into a fresh array, and through Reshape to 1-D."""
import os
from vlib import HARNESS, GOENV, run_lines
import arrays_gen as ag


def arg_reuse(c):
    rng = c.rng
    quick = c.tier == 'quick'
    cases = []
    for _ in range(150 if quick else 3000):
        g = ag.HistoryGen(rng)
        g.short_size_p = 0.0
        be = rng.choice('gc')
        shape = g.rand_shape()
        g.sh.op_new(be, shape)
        root = g.sh.arrs[0]
        rounds = []
        for _ in range(rng.randint(2, 5)):
            loc, dims, step = g.rand_slice_args(root)
            if rng.random() < 0.5 and rounds:
                # the next request differs from the previous one in few places: the typical "advance the window" caller
                loc0, dims0, step0 = rounds[-1][:3]
                if (step0 is None) == (step is None):
                    loc = [l if rng.random() < 0.5 else l0 for l, l0 in zip(loc, loc0)]
                    try:
                        ag.Shadow().slice_view  # noqa
                        v = g.sh.slice_view(root, loc, dims, step)
                    except KeyError:
                        loc, dims, step = g.rand_slice_args(root)
            v = g.sh.slice_view(root, loc, dims, step)
            rounds.append((loc, dims, step, g.sh.values(v)))
        line = 'REUSE %s ROOT %s ; ' % (be, ag.ints(shape)) + ' ; '.join(
            'L %s D %s %s' % (ag.ints(l), ag.ints(d), 'N' if s is None else 'S ' + ag.ints(s)) for l, d, s, _ in rounds)
        cases.append((line, rounds))
        cases.append((line.replace('REUSE %s ' % be, 'REUSE %sm ' % be, 1), rounds))
    got = run_lines(os.path.join(HARNESS, 'bin', 'arrops'), [l for l, _ in cases], env=GOENV)
    nrounds = 0
    for i, ((line, rounds), g) in enumerate(zip(cases, got)):
        c.count(line, nontrivial=len(rounds) >= 2)
        parts = g.split(' ; ')
        bad = None
        if 'PANIC' in g or len(parts) != len(rounds):
            bad = 'implementation answered %s' % g[:200]
        else:
            for r, (part, (loc, dims, step, vals)) in enumerate(zip(parts, rounds)):
                nrounds += 1
                exp = ','.join(str(v) for v in vals)
                for tok in part.split():
                    tag, _, body = tok.partition(':')
                    if body != exp:
                        bad = 'round %d (loc %s dims %s step %s): %s gives [%s], a fresh slice with these arguments denotes [%s]' % (
                            r, loc, dims, step, {'g': 'Get', 'u': 'Unroll', 'c': 'CopyFrom into a fresh array', 'r': 'Reshape to 1-D'}[tag], body, exp)
                        break
                if bad:
                    break
        if bad:
            c.violation('argreuse_%d.json' % i, {'kind': 'result-depends-on-previous-contents-of-argument-slices', 'case_line': line,
                                                'difference': bad, 'replay': "echo '%s' | /verif/harness/bin/arrops" % line})
            if len(c.violations) > 5:
                break
    return {'argument_reuse_cases': len(cases), 'argument_reuse_rounds': nrounds}
