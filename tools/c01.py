#!/usr/bin/env python3
"""C01: slices are live strided views that compose; exact write footprints."""
import sys, os
sys.path.insert(0, os.path.dirname(os.path.abspath(__file__)))
import arrays_check
import argreuse
import bigarrays
arrays_check.run('C01', 'views',
                 'stream biased to chains of nested stepped slices and element/run writes read back through every other view',
                 ['Go runtime bounds checks and slice capacity rules are modelled (gslice len/cap), not verified',
                  'sub-array/whole-array fast-path writes are covered by the correspondence + abstract-spec oracle, not by a theorem (C01_bulk_write_partial)',
                  'values are small integers, exact in all 8 element types; the model runs once with V = Z'],
                 allowed=['NEW','SLICE','GET','SET','GETN','SETN','APPLY','APPLYSLICE','COPYFROM','GET1','SET1','APPLY1','SHAPE','LEN','CONTIG','UNROLL'], use_iops=False, oracle='spec',
                 # Contiguous() and Unroll() are used as read-only probes between the slices and the writes (a read must not
                 # change what later views do); their own answers are C02's clauses and are not judged here
                 unjudged=('CONTIG', 'UNROLL'), extra=lambda c: dict(argreuse.arg_reuse(c), **bigarrays.big_arrays(c, only=('COPYFROM', 'APPLYSLICE'))))
