#!/usr/bin/env python3
"""C06 check -- hot-start continuity: split runs reproduce the uninterrupted run.

1. theorems of coq/Properties/C06.v (split_spec per kernel, the generic Mealy / kernel_of_machine lemmas,
   the refutations and partial theorems for Sacramento, InstreamDissolvedNutrientDecay, StorageRouting, ...).
2. ORACLE on the implementation (metamorphic, through sim.Catalog and the generated wrappers, harness command
   SPLIT): for every stateful catalogue model, a 40-step series is run whole, 2-way split at EVERY point
   (39 cuts), 3-5-way split at random points (1-step segments included) and split with EMPTY segments (cut at 0, cut at
   the end, repeated cut points: a call over zero time steps must return the states unchanged), every call starting from the state
   array the previous call returned: same model object + same array; fresh object + copied array; or ARRAYS AS VIEWS,
   the way a driver that keeps all cells in one state table and one long record splits a run: the carried state array
   is every second row (strided) or a row block not starting at row 0 (offset) of a larger table, the inputs of a call
   are a time window of the one long input record and its outputs a time window of one long output record; whole =
   split must hold there too, the table outside the view must stay untouched and the two cells of the view agree.
   LONG runs (a counter / budget / run-length dependent quantity carried across one Run call shows only there): three
   stiff Storage reservoirs of 1825 daily steps (> 1e6 accepted sub-steps in one call, measured on the extracted kernel)
   and one 1000-step run of every other stateful model, whole vs split at the middle, at 1/3 + 2/3, at a 1-step
   segment and with an empty segment.
   Outputs at every time step and final states must be BIT-IDENTICAL, except
     StorageRouting: within 2*massBalanceLimit = 2e-3 m3 per cut on storage (each of the two runs solves its
       step to |mass balance| < massBalanceLimit = 1e-3 m3, so two accepted solutions are at most 2e-3 m3 apart),
       the same volume divided by DeltaT on outflow, + 1e-9 relative;
     Sacramento with side != 0: the two lower-zone free-water states are stored divided by (1+side) and multiplied
       back by the next call: one rounding per cut.  Accepted when within 1e-9 relative; otherwise a MEASURED
       envelope decides (the model has ill-conditioned points, e.g. perc ~ defr^rexp at defr ~ 0, that amplify
       one ulp far beyond any fixed tolerance): at every cut the rest of the split run is re-run on the
       IMPLEMENTATION with the carried lzfpc / lzfsc moved by -2..+2 ulp (math.nextafter; exactly the values a
       rounding of x/(1+side)*(1+side) can produce), and the whole run must lie, at every time step and in every
       final state, within [split - sum over cuts of the largest downward deviation, split + sum of the largest
       upward deviation] (for one cut: min..max over the 25 runs), widened by 1e-12 relative.  Such runs are counted
       as ill_conditioned_accepted with the measured amplification.  Differences outside the envelope are the
       unit-hydrograph buffer (known finding) when uh2+..+uh5 > 0 and a VIOLATION for a single ordinate.
   Known, unrepaired defects (known_findings.txt) are reported as KNOWN-FINDING only for that model + trigger and
   only when the faithful Coq kernel shows the same mismatch on the same case:
     key sacramento-uh-buffer  (Sacramento, uh2+uh3+uh4+uh5 > 0)
     key dnd-prev-volume       (InstreamDissolvedNutrientDecay, doDecay >= 0.5)
   every other mismatch is a VIOLATION with the case as replay file.
3. CORRESPONDENCE: the same split runs on the extracted Coq kernels (private OCaml driver with all kernel
   components), compared run by run with the implementation to the tolerance of the model's own check.

  tools/c06.py [--tier quick|thorough] ; tools/c06.py --replay out/C06/<file>.json
  C06_OWRUN=<binary>: use that owrun instead of building harness/bin/owrun-c06 from /repo (mutation testing)."""
import sys, os, json
sys.path.insert(0, os.path.dirname(os.path.abspath(__file__)))
from hslib import *

N = 40
LIMIT = 1e-3        # massBalanceLimit of storage_routing.go
KEY_SAC = 'sacramento-uh-buffer'
KEY_DND = 'dnd-prev-volume'
# how the carried state array (and the inputs / outputs of a call) reach Run(): see harness/cmd/owrun/hotstart.go
MODES = ['same', 'fresh', 'strided', 'offset']
CTX = {}


def cutsets(rng, n, nmulti):
    cs = [[c] for c in range(1, n)]
    for _ in range(nmulti):
        k = rng.randint(2, 4)                         # 3..5 segments
        pts = set(rng.sample(range(1, n), k))
        if rng.random() < 0.6:                        # force 1-step segments
            a = rng.randint(1, n - 2)
            pts |= {a, a + 1}
            if len(pts) > 4:
                pts = set(sorted(pts)[:2]) | {a, a + 1}
        cs.append(sorted(pts))
    # EMPTY segments ("every split point" includes them; run_app with an empty segment): a cut at 0, a cut at the
    # end, a repeated cut point in the middle, and mixtures -- a call over zero time steps must hand the states back
    a, b = rng.randint(1, n - 1), rng.randint(1, n - 1)
    cs += [[0], [n], [a, a], sorted([0, b, b, n]), sorted([a, a, a, b])]
    k = rng.randint(2, 4)
    pts = [rng.choice([0, n, rng.randint(0, n), rng.randint(1, n - 1)]) for _ in range(k)]
    pts.append(rng.choice(pts))
    cs.append(sorted(pts))
    return cs


def has_empty(cuts, n=None):
    """the cut set produces at least one segment of zero time steps"""
    b = [0] + list(cuts) + [N if n is None else n]
    return any(x == y for x, y in zip(b, b[1:]))


def split_line(cs, mode, cuts):
    return 'SPLIT %s MODE %s %s CUTSETS %d %s' % (
        cs['model'], mode, case_tokens(cs), len(cuts), ' '.join('%d %s' % (len(c), ' '.join(map(str, c))) for c in cuts))


def finding_key(cs):
    m, p = cs['model'], cs['params']
    if m == 'Sacramento' and sum(p[18:22]) > 0.0:
        return KEY_SAC
    if m == 'InstreamDissolvedNutrientDecay' and p[0] >= 0.5:
        return KEY_DND
    return None


def oracle_diff(cs, w, r, ncuts):
    """whole result w vs split result r -> (None | description, class) ; class in exact / tolerance"""
    m = cs['model']
    d = kresults_agree(w, r)
    if d is None:
        return None, 'exact'
    if m == 'StorageRouting' and w[0] == 'OK' and r[0] == 'OK':
        dt = cs['meta']['dt']
        tolS = 2 * LIMIT * ncuts
        for t, (a, b) in enumerate(zip(w[1][1], r[1][1])):
            if not feq(a, b, 1e-9, tolS):
                return 'storage t=%d whole=%r split=%r (tolerance %g m3)' % (t, a, b, tolS), 'fail'
        for t, (a, b) in enumerate(zip(w[1][0], r[1][0])):
            if not feq(a, b, 1e-9, tolS / dt):
                return 'outflow t=%d whole=%r split=%r (tolerance %g m3/s)' % (t, a, b, tolS / dt), 'fail'
        for j, (a, b) in enumerate(zip(w[2], r[2])):
            if not feq(a, b, 1e-9, tolS if j == 0 else tolS / dt):
                return 'state %d whole=%r split=%r' % (j, a, b), 'fail'
        return None, 'tolerance'
    if m == 'Sacramento' and cs['params'][11] != 0.0:
        # side != 0: the two lower-zone free-water states are stored divided by (1+side) and multiplied back by the
        # next call -- one rounding per cut ("to floating-point round-off")
        d2 = kresults_agree(w, r, rtol=1e-9, atol=1e-12)
        return (None, 'tolerance') if d2 is None else (d2, 'fail')
    return d, 'fail'


def _ulps(x, k):
    """x moved by k units in the last place (zero stays zero: 0/(1+side)*(1+side) is exactly 0)"""
    if x == 0.0 or x != x or math.isinf(x):
        return x
    for _ in range(abs(k)):
        x = math.nextafter(x, math.inf if k > 0 else -math.inf)
    return x


def sac_envelope(owrun, cs, cuts, w, r):
    """Sacramento, side != 0, whole result w and split result r (cut set cuts) differ by more than 1e-9:
    measure on the implementation what one rounding of the carried lzfpc / lzfsc (state slots 3, 4) can do.
    -> (None, info) when w lies inside the measured envelope around r, else (description, info)"""
    n = len(cs['inputs'][0])
    nout = len(r[1])
    up = [[0.0] * n for _ in range(nout)]
    dn = [[0.0] * n for _ in range(nout)]
    sup = [0.0] * len(r[2])
    sdn = [0.0] * len(r[2])
    nruns = 0
    for j, cj in enumerate(cuts):
        head = dict(cs, inputs=[row[:cj] for row in cs['inputs']])
        if j == 0:
            res = parse_kresult(run_filtered(owrun, [kline(head)], 'CRASH', env=GOENV)[0])
        else:
            rs = split_results(run_filtered(owrun, [split_line(head, 'same', [cuts[:j]])], 'CRASH', env=GOENV)[0])
            res = rs[1] if rs else ('CRASH', None, None)
        if res[0] != 'OK':
            return 'envelope: the run up to the cut at %d failed' % cj, {}
        carried = res[2]
        rest = [c - cj for c in cuts[j + 1:]]
        variants = [(0, 0)] + [(a, b) for a in (-2, -1, 0, 1, 2) for b in (-2, -1, 0, 1, 2) if (a, b) != (0, 0)]
        lines = []
        for a, b in variants:
            st = list(carried)
            st[3], st[4] = _ulps(st[3], a), _ulps(st[4], b)
            tail = dict(cs, states=st, inputs=[row[cj:] for row in cs['inputs']])
            lines.append(split_line(tail, 'same', [rest]) if rest else kline(tail))
        outs = run_filtered(owrun, lines, 'CRASH', env=GOENV)
        runs = []
        for l in outs:
            if rest:
                rs = split_results(l)
                runs.append(rs[1] if rs else ('CRASH', None, None))
            else:
                runs.append(parse_kresult(l))
        nruns += len(runs)
        base = runs[0]
        if base[0] != 'OK':
            return 'envelope: the unperturbed continuation from the cut at %d failed' % cj, {}
        cu = [[0.0] * (n - cj) for _ in range(nout)]
        cd = [[0.0] * (n - cj) for _ in range(nout)]
        su = [0.0] * len(base[2])
        sd = [0.0] * len(base[2])
        for pr in runs[1:]:
            if pr[0] != 'OK':
                continue
            for o in range(nout):
                for t, (x, y) in enumerate(zip(pr[1][o], base[1][o])):
                    dlt = x - y
                    if dlt > cu[o][t]:
                        cu[o][t] = dlt
                    elif -dlt > cd[o][t]:
                        cd[o][t] = -dlt
            for k, (x, y) in enumerate(zip(pr[2], base[2])):
                dlt = x - y
                if dlt > su[k]:
                    su[k] = dlt
                elif -dlt > sd[k]:
                    sd[k] = -dlt
        for o in range(nout):
            for t in range(n - cj):
                up[o][cj + t] += cu[o][t]
                dn[o][cj + t] += cd[o][t]
        for k in range(len(sup)):
            sup[k] += su[k]
            sdn[k] += sd[k]
    worst_rel, worst_env, bad = 0.0, 0.0, None
    def judge(what, a, b, lo, hi):
        nonlocal worst_rel, worst_env, bad
        if not (math.isfinite(a) and math.isfinite(b)):
            if not (a != a and b != b) and a != b and bad is None:
                bad = '%s whole=%r split=%r (not finite)' % (what, a, b)
            return
        sc = max(abs(a), abs(b))
        if sc > 0:
            worst_rel = max(worst_rel, abs(a - b) / sc)
            worst_env = max(worst_env, max(lo, hi) / sc)
        tol = 1e-12 * sc
        if not (b - lo - tol <= a <= b + hi + tol) and bad is None:
            bad = '%s whole=%r split=%r outside the measured envelope [split-%g, split+%g]' % (what, a, b, lo, hi)
    for o in range(nout):
        for t in range(n):
            judge('output %d t=%d' % (o, t), w[1][o][t], r[1][o][t], dn[o][t], up[o][t])
    for k in range(len(sup)):
        judge('state %d' % k, w[2][k], r[2][k], sdn[k], sup[k])
    info = {'perturbed_runs': nruns, 'max_rel_whole_vs_split': worst_rel, 'max_rel_envelope_halfwidth': worst_env,
            'amplification_of_one_ulp': worst_rel / 2.220446049250313e-16}
    return bad, info


def judge_split(owrun, cs, cuts, w, r):
    """the oracle for one split run -> (None | description, class, info); class: exact / tolerance / envelope / fail"""
    d, cls = oracle_diff(cs, w, r, len(cuts))
    if d is None or cs['model'] != 'Sacramento' or cs['params'][11] == 0.0 or w[0] != 'OK' or r[0] != 'OK':
        return d, cls, None
    d2, info = sac_envelope(owrun, cs, cuts, w, r)
    if d2 is None:
        return None, 'envelope', info
    return d + ' ; ' + d2, 'fail', info


def evaluate(c, cases, cuts, lines, mlines, mcuts, impl, mod, stats, tag):
    """judge one batch; returns the whole-run final states per case (None when the run failed)"""
    finals = []
    for i, (cs, ks, li, lm) in enumerate(zip(cases, cuts, impl, mod)):
        m = cs['model']
        st = stats.setdefault(m, {'cases': 0, 'split_runs': 0, 'bit_identical': 0, 'within_tolerance': 0,
                                  'known_finding_runs': 0, 'whole_run_fails_on_both_sides': 0, 'model_runs_compared': 0})
        st['cases'] += 1
        ri, rm = split_results(li), split_results(lm)
        desc = dict(brief(cs), split_line=lines[i])
        if ri is None or ri[0][0] != 'OK':
            # the uninterrupted run itself panics / kills the process: the model must predict that
            if rm is not None and rm[0][0] != 'OK':
                st['whole_run_fails_on_both_sides'] += 1
            else:
                c.corr_broken.append({'model': m, 'diff': 'whole run: impl %s, model %s' % (li[:80], lm[:80]), 'line': lines[i][:3000]})
            c.count((m, cs['params'], cs['states'], cs['inputs']), nontrivial=False)
            finals.append(None)
            continue
        w = ri[0]
        finals.append(w[2])
        nt = nontrivial(w)
        mode = lines[i].split(' ', 4)[3]
        st['cases_by_mode'] = st.get('cases_by_mode', {})
        st['cases_by_mode'][mode] = st['cases_by_mode'].get(mode, 0) + 1
        par = parent_part(li)
        if mode in ('strided', 'offset'):
            # arrays as views: the state table outside the view must be untouched, both cells of the view identical
            c.count((m, cs['params'], cs['states'], cs['inputs'], 'view-' + mode), nontrivial=nt)
            if par is None:
                c.violation('view_%s_%s_%d.json' % (tag, m, i), dict(desc, kind='view-mode-answer-without-PARENT-part', answer=li[-200:]))
            else:
                st['view_parent_checks'] = st.get('view_parent_checks', 0) + par[0]
                if par[1] > 0:
                    c.violation('view_%s_%s_%d.json' % (tag, m, i),
                                dict(desc, kind='state-table-or-second-cell-damaged-through-a-view', mode=mode, failed_checks=par[1],
                                     first_problem=par[2]))
        # ---- oracle: every split of the implementation against its own whole run
        for j, r in enumerate(ri[1:]):
            c.count((m, cs['params'], cs['states'], cs['inputs'], ks[j]), nontrivial=nt)
            st['split_runs'] += 1
            if has_empty(ks[j], len(cs['inputs'][0])):
                st['split_runs_with_empty_segments'] = st.get('split_runs_with_empty_segments', 0) + 1
            d, cls = oracle_diff(cs, w, r, len(ks[j]))
            info = None
            key = finding_key(cs) if d is not None else None
            if key is not None:
                # known finding only when the faithful model shows the same mismatch on this cut (when it was run there)
                jm = mcuts[i].index(ks[j]) if ks[j] in mcuts[i] else None
                if rm is not None and jm is not None and rm[0][0] == 'OK' and \
                        oracle_diff(cs, rm[0], rm[1 + jm], len(ks[j]))[0] is None:
                    key = None
                    # ... unless the finding's own stated trigger holds on this cut: the reach volume differs across a cut point.
                    # With volumes a few ulps apart (the near-MINIMUM_VOLUME values of the structured streams) the effect of the
                    # lost previous volume is one ulp in the implementation and can round away in the kernel run with OCaml's libm
                    vol = cs['inputs'][2]
                    if m == 'InstreamDissolvedNutrientDecay' and any(0 < k < len(vol) and vol[k - 1] != vol[k] for k in ks[j]):
                        key = KEY_DND
            if d is not None and key is None:
                # not (confirmed as) the known finding: Sacramento with side != 0 gets the measured envelope
                d, cls, info = judge_split(CTX['owrun'], cs, ks[j], w, r)
            if d is None:
                st['bit_identical' if cls == 'exact' else 'within_tolerance'] += 1
                if cls == 'envelope':
                    st['ill_conditioned_accepted'] = st.get('ill_conditioned_accepted', 0) + 1
                    st['ill_conditioned_max_amplification_of_one_ulp'] = max(
                        st.get('ill_conditioned_max_amplification_of_one_ulp', 0.0), info['amplification_of_one_ulp'])
                    st['ill_conditioned_max_rel_diff'] = max(st.get('ill_conditioned_max_rel_diff', 0.0),
                                                             info['max_rel_whole_vs_split'])
                    st['ill_conditioned_perturbed_runs'] = st.get('ill_conditioned_perturbed_runs', 0) + info['perturbed_runs']
                continue
            obj = dict(desc, kind='split-mismatch', cuts=ks[j], difference=d, whole_final_states=w[2],
                       split_final_states=r[2] if r[0] == 'OK' else None, envelope=info)
            if c.violation('split_%s_%s_%d_%d.json' % (tag, m, i, j), obj, key=key):
                pass
            else:
                st['known_finding_runs'] += 1
        # ---- correspondence: implementation vs extracted kernel, run by run
        if rm is None:
            c.corr_broken.append({'model': m, 'diff': 'model side: %s' % lm[:120], 'line': mlines[i][:3000]})
            continue
        pairs = [(ri[0], rm[0])] + [(ri[1 + ks.index(k)], rm[1 + jm]) for jm, k in enumerate(mcuts[i])]
        for a, b in pairs:
            st['model_runs_compared'] += 1
            d = agree(cs, a, b)
            if d:
                cinfo = {}
                d2 = rr_conditioned(CTX['drv'], cs, lambda pc: split_line(pc, 'same', mcuts[i]), split_results,
                                    [p[0] for p in pairs], [p[1] for p in pairs], info=cinfo)
                if d2 is None:
                    st['model_vs_code_ill_conditioned_accepted'] = st.get('model_vs_code_ill_conditioned_accepted', 0) + 1
                    st['model_vs_code_ill_conditioned_max_amplification'] = max(
                        st.get('model_vs_code_ill_conditioned_max_amplification', 0.0), cinfo.get('amplification', 0.0))
                else:
                    c.corr_broken.append({'model': m, 'diff': d, 'conditioned': d2, 'params': cs['params'], 'line': mlines[i][:3000]})
                break
        if i % 37 == 0:
            c.sample({'model': m, 'params': cs['params'][:6], 'initial_states': cs['states'][:6],
                      'inputs_head': [r[:4] for r in cs['inputs']], 'cut_sets': [ks[0], ks[len(ks) // 2], ks[-1]],
                      'whole_outputs_head': [r[:4] for r in w[1]], 'whole_final_states': w[2][:6]})
    return finals


def replay(path):
    d = json.load(open(path))
    owrun = os.environ.get('C06_OWRUN') or build_private_owrun('owrun-c06')
    res = run_filtered(owrun, [d['split_line']], 'CRASH', env=GOENV)[0]
    rs = split_results(res)
    print('model', d['model'], 'cuts', d.get('cuts'))
    if rs is None:
        print('implementation:', res[:200])
        sys.exit(1)
    cs = mkcase(d['model'], d['params'], d['states'], d['inputs'], **d.get('meta', {}))
    if d['model'] == 'StorageRouting':
        cs['meta']['dt'] = d['params'][5]
    # the cut sets are in the recorded line
    toks = d['split_line'].split()
    k = toks.index('CUTSETS')
    ncs, pos, allcuts = int(toks[k + 1]), k + 2, []
    for _ in range(ncs):
        m = int(toks[pos])
        allcuts.append([int(x) for x in toks[pos + 1:pos + 1 + m]])
        pos += 1 + m
    bad = known = bits = 0
    par = parent_part(res)
    if par is not None:
        print('arrays as views (%s): %d checks of the state table / second cell, %d failed %s' % (toks[3], par[0], par[1], par[2]))
        if par[1] > 0:
            bad += 1
    for j, r in enumerate(rs[1:]):
        if kresults_agree(rs[0], r):
            bits += 1
        dd, cls, info = judge_split(owrun, cs, allcuts[j], rs[0], r)
        if dd:
            if finding_key(cs):
                known += 1
            else:
                bad += 1
            if bad + known <= 5:
                print('cut set %s: %s%s' % (allcuts[j], dd.replace('impl=', 'whole=').replace('model=', 'split='),
                                            '   [known finding %s]' % finding_key(cs) if finding_key(cs) else ''))
        elif cls == 'envelope':
            print('cut set %s: accepted by the measured envelope (one ulp amplified %.3g times)' % (allcuts[j], info['amplification_of_one_ulp']))
    print('%d of %d split runs differ bitwise from the whole run; %d fail the oracle, %d more are the known finding'
          % (bits, len(rs) - 1, bad, known))
    sys.exit(1 if bad else 0)


def main():
    for i, a in enumerate(sys.argv):
        if a == '--replay' and i + 1 < len(sys.argv):
            replay(sys.argv[i + 1])
    c = Check('C06')
    quick = c.tier == 'quick'
    rng = c.rng
    c.prove()
    drv = build_driver(COMPONENTS)
    CTX['drv'] = drv
    try:
        owrun = os.environ.get('C06_OWRUN') or build_private_owrun('owrun-c06')
    except BuildError as e:
        log('BUILD BROKEN:', e.what)
        log(e.output[-2000:])
        c.violation('build_broken.json', {'kind': 'go-build-failed', 'what': e.what, 'output_tail': e.output[-3000:]}, no_input=True)
        c.cov['rule'] = 'the Go harness did not build against /repo'
        c.finish()
    CTX['owrun'] = owrun
    g = Gen(rng, N, owrun)
    per_model = 24 if quick else 200
    nmulti = 6 if quick else 12
    stats = {}

    def long_cuts(cs):
        n = len(cs['inputs'][0])
        a = rng.randint(n // 2, n - 2)
        b = rng.randint(1, n - 1)
        return [[n // 2], [n // 3, 2 * n // 3], [a, a + 1], sorted([0, b, b])]


    # the long stiff Storage runs are generated first: their (slow) run on the extracted kernel proceeds in the background
    import threading, time as _time
    lsteps = 1825 if quick else 2920
    lcases = long_storage_cases(rng, lsteps)
    lcuts = [long_cuts(cs) for cs in lcases]
    llines = [split_line(cs, rng.choice(MODES), ks) for cs, ks in zip(lcases, lcuts)]
    nmodel = 1 if quick else len(lcases)
    kc = {}

    def model_side():
        t0 = _time.time()
        kc['lines'] = run_lines(drv, ['STORAGE_KCOUNT ' + kline(cs).split(' ', 2)[2] for cs in lcases[:nmodel]],
                                crash_token='MODELCRASH', timeout=3600)
        kc['seconds'] = round(_time.time() - t0, 2)
    th = threading.Thread(target=model_side)
    th.start()


    def run_batch(cases, tag, cutfn=None, st=None):
        st = stats if st is None else st
        cuts = [cutsets(rng, N, nmulti) if cutfn is None else cutfn(cs) for cs in cases]
        # model side: every cut set, except for Storage (the extracted adaptive sub-stepping is ~100x slower than Go):
        # the whole run, 5 two-way cuts, 2 multi-way splits and 4 cut sets with empty segments
        mcuts = []
        for cs, ks in zip(cases, cuts):
            if cs['model'] == 'Storage' and quick and cutfn is None:
                two = [k for k in ks if len(k) == 1 and 0 < k[0] < N]
                multi = [k for k in ks if len(k) > 1 and not has_empty(k)]
                mcuts.append(rng.sample(two, 5) + multi[:2] + [k for k in ks if has_empty(k)][:4])
            else:
                mcuts.append(ks)
        modes = [rng.choice(MODES) for _ in cases]
        lines = [split_line(cs, md, ks) for cs, md, ks in zip(cases, modes, cuts)]
        mlines = [split_line(cs, md, ks) for cs, md, ks in zip(cases, modes, mcuts)]
        impl = run_filtered(owrun, lines, 'CRASH', env=GOENV)
        mod = run_filtered(drv, mlines, 'MODELCRASH')
        return evaluate(c, cases, cuts, lines, mlines, mcuts, impl, mod, st, tag)

    cases = []
    for m in STATEFUL:
        k = per_model
        if m == 'Storage':
            k = 10 if quick else 80
        elif m in ('Sacramento', 'InstreamDissolvedNutrientDecay', 'StorageRouting', 'InstreamFineSediment'):
            k = per_model * 2
        cases += g.cases(m, k)
    finals = run_batch(cases, 'cold')
    # warm starts: the same parameters, new forcing, from the final states the implementation itself returned
    warm = []
    for cs, fin in zip(cases, finals):
        if fin is None or cs['model'] not in ('GR4J', 'Sacramento', 'Simhyd', 'Surm', 'StorageRouting', 'Muskingum'):
            continue
        if rng.random() < 0.6:
            fresh = g.cases(cs['model'], 1)
            if fresh:
                warm.append(mkcase(cs['model'], cs['params'], fin, fresh[0]['inputs'], **dict(cs['meta'], warm=True)))
    if warm:
        run_batch(warm, 'warm')

    # ---- LONG runs.  A quantity carried across a whole Run call outside the state vector (a counter, a budget, anything
    # derived from the length of the call) only shows in calls far longer than 40 steps and, for Storage, only when the
    # reservoir is STIFF (every daily step refined to ~60 s sub-steps).
    # (1) Storage: long stiff reservoirs, whole vs split on the implementation, bit-identical; the whole run of the first
    # one also on the extracted kernel (bit-exact, with its cumulative number of accepted sub-steps; runs concurrently)
    t0 = _time.time()
    limpl = run_filtered(owrun, llines, 'CRASH', env=GOENV)
    long_storage = {'steps': lsteps, 'impl_seconds': round(_time.time() - t0, 2), 'cases': []}
    th.join()
    long_storage['model_seconds'] = kc.get('seconds')
    for i, (cs, ks, line, res) in enumerate(zip(lcases, lcuts, llines, limpl)):
        rs = split_results(res)
        rec = {'design': cs['meta']['design'], 'steps': lsteps, 'cut_sets': ks, 'split_runs': 0, 'bit_identical': 0}
        long_storage['cases'].append(rec)
        rm = None
        if i < nmodel:
            t = kc['lines'][i].split(' ', 3)
            if len(t) == 4 and t[0] == 'KC':
                rec['cumulative_accepted_substeps_model'], rec['max_substeps_in_one_step'] = int(t[1]), int(t[2])
                rm = parse_kresult(t[3])
            else:
                rm = parse_kresult(kc['lines'][i])
        desc = dict(brief(cs), split_line=line[:200] + ' ... (rebuild from params / states / inputs)', long=True)
        if rs is None or rs[0][0] != 'OK':
            rec['whole_run'] = res[:80]
            c.count(('long', cs['params'], cs['states'], lsteps), nontrivial=False)
            if rm is not None and rm[0] == 'OK':
                c.corr_broken.append({'model': 'Storage', 'diff': 'long whole run: impl %s, model OK' % res[:80], 'line': line[:500]})
            continue
        w = rs[0]
        if rm is not None:
            d = kresults_agree(w, rm)
            rec['model_vs_code'] = d or 'bit-exact (whole run, full length)'
            if d:
                c.corr_broken.append({'model': 'Storage', 'diff': 'long run: ' + d, 'line': line[:500]})
        for j, r in enumerate(rs[1:]):
            c.count(('long', cs['params'], cs['states'], cs['inputs'][2][:50], ks[j]), nontrivial=nontrivial(w))
            rec['split_runs'] += 1
            d = kresults_agree(w, r)
            if d is None:
                rec['bit_identical'] += 1
                continue
            c.violation('split_long_Storage_%d_%d.json' % (i, j),
                        dict(brief(cs), split_line=line, kind='split-mismatch-long-run', cuts=ks[j], steps=lsteps,
                             difference=d.replace('impl=', 'whole=').replace('model=', 'split='), design=cs['meta']['design']))

    # (2) one long run per other stateful model, whole vs split (middle, thirds, a 1-step segment, an empty segment), both sides
    LN = 1000 if quick else 3000
    long_stats = {}
    glong = Gen(rng, LN, owrun)
    lother = []
    for m in STATEFUL:
        if m != 'Storage':
            lother += glong.cases(m, 1 if quick else 3)
    Gen(rng, N, owrun)            # restore the series lengths patched into the borrowed generators
    run_batch(lother, 'long', cutfn=long_cuts, st=long_stats)

    c.cov['rule'] = ('per stateful catalogue model (17): parameter vectors, initial states and 40-step input series from the generators '
                     'of the model\'s own check (C10/C11/C12/C13; rainfall-runoff models start from their own InitialiseStates and, in a '
                     'second batch, from final states the implementation returned); each case is run whole, 2-way split at every one of '
                     'the 39 cut points, at %d random 3-5-way cut sets (1-step segments forced in 60 %% of them) and at 6 cut sets with EMPTY '
                     'segments (cut at 0, cut at the end, a repeated cut point, mixtures of these), each call starting from '
                     'the state array returned by the previous one (chosen per case: same object/array; fresh object/copied array; state '
                     'array = strided or offset row VIEW of a larger table with inputs/outputs as time windows of one long record, table '
                     'outside the view and second cell checked), '
                     'through sim.Catalog (harness command SPLIT) and through the extracted Coq kernels (OCaml driver command SPLIT); '
                     'one evaluation = one (case, cut set) split run compared with the whole run; non-trivial = the whole run returned and '
                     'has at least one non-zero output; distinct by (model, parameters, states, inputs, cut set); plus LONG runs: three stiff '
                     'Storage reservoirs (the long seasonal case of tools/c13.py, a spillway reservoir, a scaled/shifted variant; %d daily '
                     'steps, hundreds to thousands of accepted sub-steps per step, cumulative count measured on the extracted kernel) and '
                     'one %d-step run of every other stateful model, each compared whole vs split at the middle, at 1/3 + 2/3, at a 1-step '
                     'segment and with an empty segment' % (nmulti, lsteps, LN))
    known_run = sum(s['known_finding_runs'] for s in stats.values())
    c.finish(extra_cov={'per_model': stats, 'series_length': N, 'cut_sets_per_case': N - 1 + nmulti + 6, 'cut_sets_with_empty_segments_per_case': 6,
                        'split_runs_with_empty_segments': sum(s.get('split_runs_with_empty_segments', 0) for s in stats.values()),
                        'storage_routing_tolerance_m3_per_cut': 2 * LIMIT, 'state_array_modes': MODES,
                        'cases_by_mode': {md: sum(s.get('cases_by_mode', {}).get(md, 0) for s in stats.values()) for md in MODES},
                        'view_parent_checks': sum(s.get('view_parent_checks', 0) for s in stats.values()),
                        'long_storage_runs': long_storage, 'long_runs_per_model': long_stats, 'long_run_steps': LN,
                        'known_finding_split_runs': known_run, 'exhaustive': False,
                        'oracle': 'bit-identical outputs and final states (StorageRouting: 2*massBalanceLimit per cut; Sacramento '
                                  'with side != 0: 1e-9 relative, else the envelope measured on the implementation by moving the '
                                  'carried lzfpc/lzfsc by -2..+2 ulp at every cut: ill_conditioned_accepted)'},
             assumptions=['Sacramento with side != 0: the rounding of lzfpc/lzfsc at a cut is "floating-point round-off" in the sense of the '
                          'property even where the model amplifies it (perc ~ defr^rexp near a full lower zone); such runs are accepted only '
                          'inside the envelope measured on the implementation (+-2 ulp of the two carried states), never by a wider constant',
                          'theorems hold for every Arith instance unless they name RArith; the float witnesses use a stub libm that is '
                          'never called where it differs from the real functions',
                          'model-vs-code comparison uses the tolerance of the model\'s own check (bit-exact for Muskingum, Lag, Storage and '
                          'the exact C12 kernels; 1e-9 relative where pow/exp/tanh are involved; StorageRouting additionally the solver tolerance)',
                          'cases whose uninterrupted run panics on both sides (Storage tables drawn down to empty: process crash) are '
                          'counted, not judged',
                          'single cell; the generated wrappers are exercised, not modelled, here (C04)'])


if __name__ == '__main__':
    main()
