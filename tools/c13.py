#!/usr/bin/env python3
"""C13 check: theorems in coq/Properties/C13.v + bit-exact correspondence of
Kernels/Storage.v with models/storage/storage.go (through sim.Catalog["Storage"])
+ the water-balance / release-rule oracle evaluated on the IMPLEMENTATION's
outputs.

Failure classes reported with c.violation (replay = JSON with the K-line):
  balance           per-timestep  dV != (inflow-outflow)*dt + (rainVol-evapVol)*dt  with the reported series
  negative-volume   a reported volume < 0
  final-level-area  returned level/area states are not the table values at the final volume
  final-volume      returned currentVolume state differs from the last reported volume
  release-envelope  reported outflow outside [min minRelease, max(max maxRelease, 2*maxSpill)]
  release-demand    demand lies between the curves everywhere, no spill in the step, yet outflow != demand
  spill-below-fsv   outflow above every release curve (so it spilled) but the step ends well below full supply
  release-outside-curves  STRICT clause: the release rate of an accepted sub-step is outside [min minRelease, max maxRelease]
                    over the volumes actually traversed (closed interval start..actual end volume) beyond the code's own
                    release-rate tolerances.  When the faithful model reproduces the sub-step and the release IS within the
                    curves at the start and PREDICTED end volume (theorem C13_release_between_curves) this is the known
                    finding key=release-evaluated-at-predicted-end-volume; anything else is a plain VIOLATION
  release-below-min-curve  a step without inflow and rain reports less outflow than the minimum-release curve at (a lower
                    bound of) the lowest volume the scheme can have evaluated, beyond the code's tolerances
  crash-unpredicted the Go process panicked where the model predicts a normal result (or vice versa)
"""
import sys, os, re, json, math, subprocess
sys.path.insert(0, os.path.dirname(os.path.abspath(__file__)))
from vlib import *

RESULT_RE = re.compile(r'(OK|PANIC|NOMODEL|NOCMD)\b')


def run_impl_filtered(lines, timeout=900):
    """vlib.run_lines, but storage.go prints 'No volumes' / 'No points...' on stdout
    for the configuration-error early return: keep only result lines."""
    # C13_OWRUN: mutation testing against an owrun built from a scratch copy of the repository
    binary = os.environ.get('C13_OWRUN') or os.path.join(HARNESS, 'bin', 'owrun')
    results, notes = [], 0
    i, n = 0, len(lines)
    while i < n:
        chunk = lines[i:]
        p = subprocess.run([binary], input='\n'.join(chunk) + '\n', stdout=subprocess.PIPE,
                           stderr=subprocess.PIPE, text=True, timeout=timeout, env=GOENV)
        allout = [l for l in p.stdout.split('\n') if l != '']
        got = [l for l in allout if RESULT_RE.match(l)]
        notes += len(allout) - len(got)
        if len(got) >= len(chunk):
            results.extend(got[:len(chunk)])
            break
        results.extend(got)
        msg = ''
        for l in p.stderr.strip().split('\n'):
            if l.startswith('panic:') or l.startswith('fatal error:') or 'SIGSEGV' in l:
                msg = l.strip()
                break
        results.append('CRASH ' + msg[:160])
        i += len(got) + 1
    return results, notes


# ---------------------------------------------------------------- generators
def gen_tables(rng, n, style):
    """monotone LVA table and release curves with n points"""
    cap = 10 ** rng.uniform(3, 8)                       # full-supply volume
    dead = rng.choice([0.0, 0.0, 0.0, cap * rng.uniform(0.001, 0.05)])
    cuts = sorted(rng.uniform(0.02, 0.98) for _ in range(n - 2))
    volumes = [dead] + [dead + (cap - dead) * c for c in cuts] + [cap]
    # make strictly increasing even if two cuts collide
    for k in range(1, n):
        if volumes[k] <= volumes[k - 1]:
            volumes[k] = volumes[k - 1] * (1 + 1e-9) + 1e-6
    depth = rng.uniform(2, 80)
    levels = [depth * ((v - dead) / (cap - dead)) ** rng.uniform(0.3, 1.0) for v in volumes]
    levels[0] = rng.choice([0.0, 0.0, rng.uniform(0, 100)])
    for k in range(1, n):
        levels[k] = max(levels[k], levels[k - 1] + 1e-3)
    amax = cap / depth * rng.uniform(1, 3)
    a0 = rng.choice([0.0, 0.0, 0.0, amax * rng.uniform(0.0, 0.1)]) if style != 'wet-bottom' else amax * rng.uniform(0.05, 0.3)
    areas = [a0 + (amax - a0) * ((v - dead) / (cap - dead)) ** rng.uniform(0.3, 1.2) for v in volumes]
    areas[0] = a0
    for k in range(1, n):
        areas[k] = max(areas[k], areas[k - 1])
    scale = cap / 86400.0 * rng.choice([0.01, 0.1, 1.0, 5.0])
    if style == 'spillway':
        minrel = [0.0] * (n - 1) + [scale * rng.uniform(2, 50)]
    elif style == 'crest':
        # spillway crest INSIDE the table: minimum release 0 up to an interior row, positive and increasing above it
        j = rng.randrange(0, max(1, n - 2))               # last row with zero minimum release
        minrel, cur = [], 0.0
        for k in range(n):
            if k > j:
                cur += scale * rng.uniform(0.05, 3.0)
            minrel.append(cur)
    elif style == 'flat':
        m = scale * rng.choice([0.0, rng.uniform(0, 0.05)])
        minrel = [m] * n
    else:
        minrel = sorted(scale * rng.uniform(0, 0.3) * rng.random() for _ in range(n))
        minrel[0] = rng.choice([0.0, minrel[0]])
        if rng.random() < 0.5:
            minrel[-1] = max(minrel[-1], scale * rng.uniform(1, 20))
    maxrel = []
    cur = 0.0
    for k in range(n):
        cur = max(cur, minrel[k]) + scale * rng.uniform(0, 1.5) * (0.2 + k / n)
        maxrel.append(cur)
    if rng.random() < 0.4:
        maxrel[0] = minrel[0]                            # nothing can be released from the bottom
    if style == 'flat':
        mx = max(maxrel)
        maxrel = [mx] * n
    return levels, volumes, areas, minrel, maxrel


ROUND = [1.0, 2.0, 5.0, 10.0, 20.0, 25.0, 50.0, 100.0, 200.0, 500.0]


def structured_increments(rng, m, kind):
    """m positive increments (in units) with STRUCTURE: exact coincidences between increments, between partial
    sums and between end increments and the mean increment - what summaries of a table cannot tell apart"""
    if kind == 'regular' or m < 2:
        return [1.0] * m
    if kind == 'round-set':
        vals = rng.sample(ROUND, rng.randint(2, 4))
        return [rng.choice(vals) for _ in range(m)]
    if kind == 'one-off':
        inc = [2.0] * m
        inc[rng.randrange(1, m - 1) if m >= 3 else rng.randrange(m)] = rng.choice([1.0, 3.0, 4.0, 0.5, 10.0])
        return inc
    if kind == 'ends-mean':
        # first and last increment equal the mean increment, interior ones differ (interior knots of a regular
        # table moved): interior increments 2+-d in pairs, sum preserved exactly
        inc = [2.0] * m
        interior = list(range(1, m - 1))
        rng.shuffle(interior)
        for a, b in zip(interior[0::2], interior[1::2]):
            d = rng.choice([1.0, 0.5, 1.5, 1.0])
            inc[a] -= d; inc[b] += d
            if rng.random() < 0.4:
                break
        return inc
    if kind == 'geometric':
        r = rng.choice([2.0, 1.5, 3.0, 0.5])
        return [r ** k for k in range(m)]
    return [1.0] * m


STRUCT_KINDS = ['regular', 'round-set', 'round-set', 'one-off', 'ends-mean', 'ends-mean', 'geometric']


def structured_column(rng, n, unit, start=0.0, kind=None, zeros=0):
    """non-decreasing column of n values: [zeros] leading repeats of start, then structured increments * unit"""
    kind = kind or rng.choice(STRUCT_KINDS)
    inc = [0.0] * zeros + structured_increments(rng, n - 1 - zeros, kind)
    col, cur = [start], start
    for d in inc:
        cur += d * unit
        col.append(cur)
    return col, kind


def gen_structured_tables(rng, n):
    """tables built from structured increments in every column (round units, so the sums are exact in binary64)"""
    unit = rng.choice([1.0, 2.0, 5.0]) * 10 ** rng.randint(2, 6)
    dead = rng.choice([0.0, 0.0, unit, 10 * unit])
    volumes, vkind = structured_column(rng, n, unit, dead)
    levels, _ = structured_column(rng, n, rng.choice([0.1, 0.5, 1.0, 2.0]), rng.choice([0.0, 100.0]))
    areas, _ = structured_column(rng, n, rng.choice([1.0, 5.0]) * 10 ** rng.randint(1, 4), rng.choice([0.0, 0.0, 1000.0]),
                                 zeros=rng.choice([0, 0, 1]) if n > 3 else 0)
    cap = volumes[-1]
    q = cap / 86400.0
    runit = float('%.1g' % (q * rng.choice([0.01, 0.1, 1.0])))          # one significant digit
    minrel, _ = structured_column(rng, n, runit, 0.0, zeros=rng.randint(0, n - 2))
    extra, _ = structured_column(rng, n, runit, rng.choice([0.0, runit]))
    maxrel = [a + b for a, b in zip(minrel, extra)]
    return levels, volumes, areas, minrel, maxrel, vkind


def on_knots(rng, xs):
    """a value exactly on a table knot or exactly midway between two neighbouring knots"""
    k = rng.randrange(len(xs))
    if rng.random() < 0.5 or k == len(xs) - 1:
        return xs[k]
    return 0.5 * (xs[k] + xs[k + 1])


def gen_series(rng, regime, T, cap, dt, maxrel_top):
    q = cap / 86400.0                                    # flow that fills the reservoir in a day
    rain, pet, inflow, demand = [], [], [], []
    for t in range(T):
        if regime == 'fill':
            inflow.append(q * rng.uniform(0.2, 6)); demand.append(rng.choice([0.0, q * 0.01]))
            rain.append(rng.choice([0.0, rng.uniform(0, 150)])); pet.append(rng.uniform(0, 3))
        elif regime == 'drawdown':
            inflow.append(rng.choice([0.0, 0.0, q * 0.01])); demand.append(q * rng.uniform(0.3, 5))
            rain.append(0.0); pet.append(rng.choice([0.0, rng.uniform(0, 12)]))
        elif regime == 'steady':
            inflow.append(q * 0.1); demand.append(q * 0.1); rain.append(2.0); pet.append(2.0)
        elif regime == 'rain':
            inflow.append(0.0); demand.append(0.0); rain.append(rng.uniform(0, 300)); pet.append(rng.uniform(0, 2))
        elif regime == 'pulse':
            big = (t == T // 2)
            inflow.append(q * (20 if big else 0.01)); demand.append(q * rng.uniform(0, 0.2))
            rain.append(100.0 if big else 0.0); pet.append(rng.uniform(0, 8))
        elif regime == 'cycle':
            wet = (t // max(1, T // 4)) % 2 == 0
            inflow.append(q * (rng.uniform(1, 4) if wet else 0.0)); demand.append(q * (0.05 if wet else rng.uniform(1, 3)))
            rain.append(rng.uniform(0, 40) if wet else 0.0); pet.append(rng.uniform(0, 10))
        else:                                            # mixed
            inflow.append(q * 10 ** rng.uniform(-3, 1) * rng.choice([0, 1, 1]))
            demand.append(rng.choice([0.0, q * 10 ** rng.uniform(-3, 1), maxrel_top * rng.uniform(0, 2)]))
            rain.append(rng.choice([0.0, rng.uniform(0, 80)])); pet.append(rng.uniform(0, 12))
    return rain, pet, inflow, demand


def add_idle_spells(rng, rain, pet, inflow, demand):
    """with a fixed share (half of the cases): spells of 1-5 steps where ALL FOUR forcings are exactly 0.0
    at the start, in the middle and at the end of the series, and a few steps where exactly three of
    the four are 0 (the fourth keeps its value, or gets one if it was 0) -> number of fully idle steps"""
    T = len(rain)
    if T == 0 or rng.random() < 0.5:
        return 0
    series = (rain, pet, inflow, demand)
    idle = set()
    for where in ('start', 'middle', 'end'):
        if rng.random() < 0.75:
            k = min(T, rng.randint(1, 5))
            a = 0 if where == 'start' else (T - k if where == 'end' else rng.randint(0, T - k))
            idle.update(range(a, a + k))
    for t in idle:
        for x in series:
            x[t] = 0.0
    for _ in range(min(T, rng.randint(1, 3))):
        t = rng.randrange(T)
        if t in idle:
            continue
        keep = rng.randrange(4)
        for j, x in enumerate(series):
            if j != keep:
                x[t] = 0.0
        if series[keep][t] == 0.0:
            series[keep][t] = rng.choice([1.0, 5.0, 0.01]) * (1.0 if keep < 2 else max(inflow + demand + [1e-3]))
    return len(idle)


def make_case(rng, quick):
    structured = rng.random() < 0.25
    if structured:
        # STRUCTURED tables (a quarter of the cases), mostly 5..12 rows
        n = rng.choice([2, 3, 4, 5, 5, 6, 6, 7, 8, 9, 10, 12])
        levels, volumes, areas, minrel, maxrel, vkind = gen_structured_tables(rng, n)
        style = 'structured-' + vkind
    else:
        n = rng.choice([2, 2, 3, 3, 4, 5, 6])
        style = rng.choice(['spillway', 'spillway', 'general', 'general', 'flat', 'wet-bottom', 'crest', 'crest'])
        levels, volumes, areas, minrel, maxrel = gen_tables(rng, n, style)
    dt = rng.choice([86400.0, 86400.0, 86400.0, 3600.0, 43200.0, 600.0, 60.0, 6.0, 1.0, float(rng.randint(1, 86400)),
                     rng.uniform(1, 86400)])
    T = rng.choice([0, 1, 2, 3, 7, 12, 25] if quick else [0, 1, 2, 7, 25, 60, 200])
    if structured and rng.random() < 0.4:
        T = rng.choice([0, 0, 1, 2])            # at rest / short: the returned level and area are read near the initial volume
    regime = rng.choice(['fill', 'drawdown', 'steady', 'rain', 'pulse', 'cycle', 'mixed', 'mixed'])
    cap = volumes[-1]
    # flows are scaled so that q fills the reservoir in one day, or (half of the cases) in one time step
    flowcap = cap * (86400.0 / dt if rng.random() < 0.5 else 1.0)
    rain, pet, inflow, demand = gen_series(rng, regime, T, flowcap, dt, maxrel[-1])
    idle = add_idle_spells(rng, rain, pet, inflow, demand)
    v0 = rng.choice([0.0, volumes[0], cap, cap * 1.3, cap * rng.random(), cap * rng.random(), cap * 0.999, cap * 0.01,
                     cap * rng.uniform(0.5, 1.0)])
    if structured:
        # volumes and demands exactly ON table knots and exactly midway between them
        if rng.random() < 0.7:
            v0 = on_knots(rng, volumes)
        for t in range(T):
            if demand[t] != 0.0 and rng.random() < 0.4:
                demand[t] = on_knots(rng, rng.choice([minrel, maxrel]))
    tmc = [rng.choice([0.0, cap * 0.1])] * T
    return {'kind': 'valid', 'style': style, 'regime': regime, 'dt': dt, 'n': n, 'levels': levels, 'volumes': volumes,
            'areas': areas, 'minrel': minrel, 'maxrel': maxrel, 'v0': v0, 'rain': rain, 'pet': pet, 'inflow': inflow,
            'demand': demand, 'tmc': tmc, 'idle': idle}


def boundary_cases(rng):
    """hand-picked: exactly at nodes, fill to spill, draw down to empty, sub-minute steps"""
    out = []
    base = dict(kind='valid', style='hand', n=3, levels=[0., 10., 20.], volumes=[0., 1e6, 3e6], areas=[0., 1e5, 2e5],
                minrel=[0., 0., 50.], maxrel=[0., 20., 60.])
    def mk(regime, dt, v0, rain, pet, inflow, demand, **kw):
        c = dict(base); c.update(kw)
        T = len(rain)
        c.update(regime=regime, dt=dt, v0=v0, rain=rain, pet=pet, inflow=inflow, demand=demand, tmc=[0.0] * T)
        out.append(c)
    mk('hand-fill', 86400., 2.9e6, [0.] * 6, [0.] * 6, [30.] * 6, [0.] * 6)
    mk('hand-fill-rain', 86400., 2.5e6, [200.] * 5, [1.] * 5, [10.] * 5, [0.] * 5)
    mk('hand-drawdown', 86400., 1.2e6, [0.] * 8, [6.] * 8, [0.] * 8, [15.] * 8)
    mk('hand-nodes', 86400., 1e6, [0.] * 3, [0.] * 3, [5.] * 3, [5.] * 3)
    mk('hand-overfull', 3600., 4e6, [0.] * 4, [0.] * 4, [100.] * 4, [0.] * 4)
    mk('hand-minute', 60., 5e5, [1.] * 5, [0.5] * 5, [3.] * 5, [50.] * 5)
    mk('hand-6s', 6., 5e5, [1.] * 5, [0.5] * 5, [3.] * 5, [50.] * 5)
    mk('hand-1s', 1., 100., [0.] * 5, [0.] * 5, [0.] * 5, [50.] * 5)
    mk('hand-rain-only', 86400., 1e6, [100.] * 3, [0.] * 3, [0.] * 3, [0.] * 3)     # the pre-fix witness: +100 mm on 1e5 m2
    mk('hand-empty', 86400., 0., [0.] * 3, [0.] * 3, [0.] * 3, [10.] * 3)
    # flat outlet-capacity curve and a demand above the inflow: drawn down to empty, the code panics (agreed outcome)
    mk('hand-flat-drawdown-panics', 86400., 1e5, [0.] * 2, [0.] * 2, [0.] * 2, [5.] * 2, n=2, levels=[0., 10.],
       volumes=[0., 1e6], areas=[0., 1e5], minrel=[0., 0.], maxrel=[5., 5.])
    # the witness of C13_release_within_end_volumes_refuted (known finding release-evaluated-at-predicted-end-volume)
    mk('hand-release-predicted-end', 60., 0., [0.], [0.], [10.], [100.], n=3, levels=[0., 5., 6.], volumes=[0., 500., 600.],
       areas=[0., 0., 0.], minrel=[0., 0., 0.], maxrel=[0., 0., 8.])
    mk('hand-2pt', 86400., 5e4, [5.] * 6, [3.] * 6, [2.] * 6, [1.] * 6, n=2, levels=[0., 5.], volumes=[0., 1e5],
       areas=[0., 4e4], minrel=[0., 3.], maxrel=[0.5, 6.])
    mk('hand-6pt', 86400., 1e5, [5.] * 9, [3.] * 9, [40.] * 9, [1.] * 9, n=6, levels=[0., 1., 2., 3., 4., 5.],
       volumes=[0., 1e5, 2e5, 4e5, 8e5, 1.6e6], areas=[0., 1e4, 3e4, 5e4, 9e4, 2e5], minrel=[0., 0., 0., 1., 2., 30.],
       maxrel=[0., 5., 10., 15., 20., 40.])
    return out


def long_cases(years=8):
    """long, stiff, curve-limited runs: thousands of daily steps, hundreds of accepted sub-steps
    each, so that the cumulative sub-step count of ONE Run call goes far beyond anything the
    short cases reach (state carried across the whole call, e.g. counters, is exercised)"""
    out = []
    def series(n, phase=0, qscale=1.0):
        rain, pet, inflow, demand = [], [], [], []
        for t in range(n):
            doy = (t + phase) % 365
            season = 0.5 * (1 + math.sin(2 * math.pi * doy / 365))
            inflow.append(qscale * (1 + 14 * season ** 2 + (120 if 80 < doy < 90 else 0)))
            demand.append(qscale * 12 * (1 - season))
            pet.append(2 + 5 * (1 - season))
            rain.append(12 * season if t % 9 == 0 else 0.0)
        return rain, pet, inflow, demand
    n = years * 365
    rain, pet, inflow, demand = series(n)
    out.append(dict(kind='valid', long=True, style='irrigation-storage', regime='long-seasonal-%dy' % years, dt=86400., n=5,
                    levels=[0., 4., 9., 15., 20.], volumes=[0., 2e6, 1e7, 3e7, 5e7], areas=[0., 4e5, 1.2e6, 2.6e6, 3.5e6],
                    minrel=[0., 0., 0., 0., 150.], maxrel=[0., 3., 9., 16., 160.], v0=0., rain=rain, pet=pet, inflow=inflow,
                    demand=demand, tmc=[0.0] * n))
    return out


def malformed_cases(rng, k):
    """model-vs-code only: degenerate tables, negative flows (agreed panics), odd nLVA"""
    out = []
    for _ in range(k):
        c = make_case(rng, True)
        c['kind'] = 'malformed'
        what = rng.choice(['n1', 'n0', 'negvol', 'allzero', 'nonmono', 'neginflow', 'hugepet', 'negdemand', 'fracn',
                           'dupvol', 'crossed', 'wetbottom-dry', 'nan-input', 'inf-inflow', 'nan-table', 'zero-dt', 'neg-dt'])
        c['what'] = what
        n = c['n']
        if what == 'n1':
            for key in ('levels', 'volumes', 'areas', 'minrel', 'maxrel'):
                c[key] = c[key][-1:]
            c['n'] = 1
            c['v0'] = rng.choice([c['volumes'][0], c['volumes'][0] * 0.5, c['volumes'][0] * 2])
        elif what == 'n0':
            for key in ('levels', 'volumes', 'areas', 'minrel', 'maxrel'):
                c[key] = []
            c['n'] = 0
        elif what == 'negvol':
            top = c['volumes'][-1]
            c['volumes'] = [v - top * rng.choice([1.0, 1.5]) for v in c['volumes']]
        elif what == 'allzero':
            c['volumes'] = [0.0] * n
        elif what == 'nonmono':
            c['volumes'] = list(reversed(c['volumes'])) if rng.random() < 0.5 else rng.sample(c['volumes'], n)
        elif what == 'neginflow':
            c['inflow'] = [-abs(x) - c['volumes'][-1] / 86400.0 * rng.uniform(0.1, 3) for x in c['inflow']]
        elif what == 'hugepet':
            c['pet'] = [x * 1e4 + 1e4 for x in c['pet']]
        elif what == 'negdemand':
            c['demand'] = [-x - 1.0 for x in c['demand']]
        elif what == 'fracn':
            c['nfrac'] = rng.choice([0.25, 0.5, 0.99])
        elif what == 'dupvol':
            j = rng.randrange(1, n)
            c['volumes'][j] = c['volumes'][j - 1]
            c['v0'] = rng.choice([c['volumes'][j], c['v0']])
        elif what == 'crossed':
            c['minrel'], c['maxrel'] = c['maxrel'], c['minrel']
        elif what == 'nan-input':
            if c['rain']:
                key = rng.choice(['rain', 'pet', 'inflow', 'demand'])
                c[key][rng.randrange(len(c[key]))] = float('nan')
        elif what == 'inf-inflow':
            if c['inflow']:
                c['inflow'][rng.randrange(len(c['inflow']))] = float('inf')
        elif what == 'nan-table':
            key = rng.choice(['levels', 'volumes', 'areas', 'minrel', 'maxrel'])
            c[key][rng.randrange(n)] = float('nan')
        elif what == 'zero-dt':
            c['dt'] = 0.0
        elif what == 'neg-dt':
            c['dt'] = -3600.0
        elif what == 'wetbottom-dry':
            c['areas'] = [a + c['areas'][-1] * 0.2 for a in c['areas']]
            c['v0'] = c['volumes'][0]
            c['inflow'] = [0.0] * len(c['inflow'])
            c['pet'] = [5.0] * len(c['pet'])
            c['rain'] = [0.0] * len(c['rain'])
        out.append(c)
    return out


def case_line(c):
    T = len(c['rain'])
    params = [c['dt'], float(c['n']) + c.get('nfrac', 0.0)] + c['levels'] + c['volumes'] + c['areas'] + c['minrel'] + c['maxrel']
    return kcase('Storage', params, [c['v0'], -1.0, -2.0],
                 [c['rain'], c['pet'], c['inflow'], c['demand'], [0.0] * T, c['tmc']])


# ---------------------------------------------------------------- oracle
def capped_interp(c, vol, ys):
    xs = c['volumes']
    if vol < xs[0]:
        return ys[0]
    if vol > xs[-1]:
        return ys[-1]
    for j in range(1, len(xs)):
        if xs[j] >= vol:
            i = j - 1
            frac = (vol - xs[i]) / (xs[j] - xs[i])
            return ys[i] + frac * (ys[j] - ys[i])
    return None


def close(a, b, scale, rtol=1e-9, atol=1e-9):
    return abs(a - b) <= rtol * scale + atol


def parse_trace(line):
    t = line.split()
    if len(t) < 3 or t[0] != 'TRACE':
        return ('BAD', [])
    code, nsteps = t[1], int(t[2])
    steps, p = [], 3
    for _ in range(nsteps):
        k = int(t[p]); p += 1
        subs = []
        for _ in range(k):
            subs.append([h2f(x) for x in t[p:p + 7]]); p += 7
        steps.append(subs)
    return (code, steps)


def oracle(c, ri, trace):
    """the property on the implementation's outputs -> list of (class, detail)"""
    bad = []
    _, outs, sts = ri
    vol, outflow, rainv, evapv = outs
    dt = c['dt']
    T = len(c['rain'])
    prev = c['v0']
    minmin, maxmax = min(c['minrel']), max(c['maxrel'])
    maxspill = c['minrel'][-1]
    vmax = c['volumes'][-1]
    upper = max(maxmax, 2 * maxspill)
    dem_lo, dem_hi = max(c['minrel']), min(c['maxrel'])
    min_nondecr = c['minrel'][0] >= 0.0 and all(a <= b for a, b in zip(c['minrel'], c['minrel'][1:]))
    for t in range(T):
        v = vol[t]
        lhs = v - prev
        rhs = (c['inflow'][t] - outflow[t]) * dt + (rainv[t] - evapv[t]) * dt
        scale = max(abs(v), abs(prev), abs(c['inflow'][t] * dt), abs(outflow[t] * dt), abs(rainv[t] * dt), abs(evapv[t] * dt))
        if not close(lhs, rhs, scale, atol=1e-9 * (1 + scale)):
            bad.append(('balance', {'t': t, 'dV': lhs, 'reported': rhs, 'volume_before': prev, 'volume_after': v,
                                    'inflow': c['inflow'][t], 'outflow': outflow[t], 'rainfallVolume': rainv[t],
                                    'evaporationVolume': evapv[t], 'rainfall_mm': c['rain'][t], 'pet_mm': c['pet'][t]}))
            break
        if not (v >= 0.0):
            bad.append(('negative-volume', {'t': t, 'volume': v}))
            break
        tol = 1e-9 * max(abs(outflow[t]), upper, 1e-300) + 1e-12
        if outflow[t] < minmin - tol or outflow[t] > upper + tol:
            bad.append(('release-envelope', {'t': t, 'outflow': outflow[t], 'min_of_minRelease': minmin,
                                             'max_of_maxRelease': maxmax, 'maxSpill': maxspill}))
            break
        spilled_model = trace is not None and t < len(trace) and any(s[3] > 0.0 for s in trace[t])
        d = c['demand'][t]
        if dem_lo <= d <= dem_hi:
            if outflow[t] < d - tol:
                bad.append(('release-demand', {'t': t, 'outflow': outflow[t], 'demand': d, 'why': 'below demand'}))
                break
            if trace is not None and not spilled_model and not close(outflow[t], d, abs(d), atol=1e-12):
                bad.append(('release-demand', {'t': t, 'outflow': outflow[t], 'demand': d, 'why': 'no spill in the model trace'}))
                break
        # minimum release on a step without inflow and rain (demand, PET >= 0; minRelease >= 0 and non-decreasing in
        # volume).  Then the volume only falls, and every volume at which the scheme evaluates the curves (start and
        # PREDICTED end volume of an accepted sub-step) is >= L = 2*V_t - V_{t-1}: the predicted drop (est+e)*h is at
        # most twice the actual drop (avgOut+e)*h because avgOut >= est/2.  By C13_release_between_curves (lo =
        # minRelease(L)) the reported outflow is >= minRelease(L), up to the code's own release-rate tolerances.
        if (c['inflow'][t] == 0.0 and c['rain'][t] == 0.0 and c['pet'][t] >= 0.0 and d >= 0.0 and min_nondecr and
                min(c['areas']) >= 0.0 and v <= prev):
            need = capped_interp(c, 2 * v - prev, c['minrel'])
            need = 0.0 if need is None else need
            rtol = ALLOWED_ABS_ERROR_RELEASE_RATE + ESSENTIALLY_ZERO_RELEASE_RATE + ALLOWED_REL_ERROR_RELEASE_RATE * abs(need)
            if outflow[t] < need - rtol - tol:
                bad.append(('release-below-min-curve', {'t': t, 'outflow': outflow[t], 'volume_before': prev, 'volume_after': v,
                                                        'lowest_evaluation_volume_bound': 2 * v - prev,
                                                        'minRelease_there': need, 'minRelease_at_volume_after': capped_interp(c, v, c['minrel']),
                                                        'inflow': 0.0, 'rainfall_mm': 0.0, 'pet_mm': c['pet'][t], 'demand': d,
                                                        'tolerance': rtol + tol}))
                break
        if outflow[t] > maxmax + tol and maxmax >= 0:
            # it must have spilled; spilling stops at full supply and afterwards only releases/evaporation draw down
            floor = vmax - (maxmax + abs(evapv[t])) * dt
            if v < floor - 1e-9 * max(vmax, abs(v)) - 1e-9:
                bad.append(('spill-below-fsv', {'t': t, 'outflow': outflow[t], 'volume_after': v, 'full_supply': vmax,
                                                'max_of_maxRelease': maxmax}))
                break
        prev = v
    final = vol[-1] if T else c['v0']
    if not feq(sts[0], final):
        bad.append(('final-volume', {'state': sts[0], 'last_volume': final}))
    el, ea = capped_interp(c, final, c['levels']), capped_interp(c, final, c['areas'])
    if el is not None and ea is not None:
        if not close(sts[1], el, abs(el), rtol=1e-12, atol=1e-300) or not close(sts[2], ea, abs(ea), rtol=1e-12, atol=1e-300):
            bad.append(('final-level-area', {'final_volume': final, 'level': sts[1], 'expected_level': el,
                                             'area': sts[2], 'expected_area': ea}))
    return bad


ALLOWED_REL_ERROR_RELEASE_RATE = 1e-5
ALLOWED_ABS_ERROR_RELEASE_RATE = 1e-4
ESSENTIALLY_ZERO_RELEASE_RATE = 1e-4


def curve_range(c, a, b, ys):
    """min and max of the capped piecewise-linear curve over the closed interval [a,b]:
    attained at the interval ends or at interior table rows"""
    lo, hi = min(a, b), max(a, b)
    pts = [lo, hi] + [x for x in c['volumes'] if lo < x < hi]
    vals = [capped_interp(c, p, ys) for p in pts]
    return min(vals), max(vals)


def strict_release(c, trace):
    """STRICT reading of the release clause on the accepted sub-steps (model-side ghost trace of a
    case on which model and code agree bit-for-bit): each sub-step's release rate must lie between
    min minRelease and max maxRelease over the volumes actually traversed.
    -> list of (is_known_finding_class, detail), at most one per case"""
    for t, subs in enumerate(trace):
        for k, (h, out, area, spill, v0, vp, v1) in enumerate(subs):
            vmid = v1 + spill                                  # actual end volume before spilling
            a, b = min(v0, vmid, v1), max(v0, vmid, v1)
            lo, _ = curve_range(c, a, b, c['minrel'])
            _, hi = curve_range(c, a, b, c['maxrel'])
            tol = ALLOWED_ABS_ERROR_RELEASE_RATE + ESSENTIALLY_ZERO_RELEASE_RATE + \
                ALLOWED_REL_ERROR_RELEASE_RATE * max(abs(out), abs(lo), abs(hi))
            if lo - tol <= out <= hi + tol:
                continue
            # the proved envelope: curves at the start volume and at the PREDICTED end volume
            plo = min(capped_interp(c, v0, c['minrel']), capped_interp(c, vp, c['minrel']))
            phi = max(capped_interp(c, v0, c['maxrel']), capped_interp(c, vp, c['maxrel']))
            eps = 1e-12 * max(abs(out), abs(plo), abs(phi)) + 1e-300
            within_predicted = plo - eps <= out <= phi + eps
            return [(within_predicted, {'t': t, 'substep': k, 'h': h, 'release_rate': out, 'start_volume': v0,
                                        'predicted_end_volume': vp, 'actual_end_volume': vmid, 'volume_after_spill': v1,
                                        'min_minRelease_over_traversed': lo, 'max_maxRelease_over_traversed': hi,
                                        'envelope_at_start_and_predicted_end': [plo, phi], 'tolerance': tol,
                                        'demand': c['demand'][t], 'inflow': c['inflow'][t]})]
    return []


def describe(c):
    return {k: c[k] for k in ('kind', 'style', 'regime', 'dt', 'n', 'levels', 'volumes', 'areas', 'minrel', 'maxrel', 'v0',
                              'rain', 'pet', 'inflow', 'demand') if k in c}


def evaluate(c_check, cases, lines, want_samples=True):
    impl, notes = run_impl_filtered(lines)
    model = run_model(lines)
    traces = run_model(['STORAGE_TRACE ' + l.split(' ', 2)[2] for l in lines])
    stats = {'agreed_panics': 0, 'agreed_panics_on_valid_inputs': 0, 'config_error_returns': 0, 'impl_stdout_notes': notes,
             'timesteps': 0, 'substeps': 0, 'steps_with_halving': 0, 'steps_with_spill': 0, 'steps_ending_empty': 0,
             'cases_with_rain_and_area': 0, 'model_fuel_exhausted': 0,
             'idle_steps_all_four_forcings_zero': 0, 'idle_steps_with_positive_min_release': 0,
             'strict_release_failures': 0, 'strict_release_failures_within_predicted_envelope': 0, 'strict_release_first': None}
    first_valid_panic = None
    for i, (c, li, lm, lt) in enumerate(zip(cases, impl, model, traces)):
        ri, rm = parse_kresult(li), parse_kresult(lm)
        code, steps = parse_trace(lt)
        if code == 'FUEL':
            stats['model_fuel_exhausted'] += 1
            c_check.corr_broken.append({'case': describe(c), 'diff': 'model ran out of fuel (theorem storage_terminates says it cannot over R)',
                                        'line': lines[i]})
        diff = kresults_agree(ri, rm)
        nsub = sum(len(s) for s in steps)
        halving = sum(1 for s in steps if len(s) > 1)
        spills = sum(1 for s in steps if any(x[3] > 0.0 for x in s))
        empties = sum(1 for s in steps if s and s[-1][6] <= 1e-6 * max(1.0, c['volumes'][-1] if c['volumes'] else 1.0))
        stats['timesteps'] += len(steps); stats['substeps'] += nsub
        stats['steps_with_halving'] += halving; stats['steps_with_spill'] += spills; stats['steps_ending_empty'] += empties
        both_fail = ri[0] != 'OK' and rm[0] != 'OK'
        nontrivial = halving > 0 or spills > 0 or empties > 0 or both_fail
        c_check.count(lines[i], nontrivial=nontrivial)
        if diff:
            cls = 'crash-unpredicted' if ('outcome' in diff) else 'model-differs'
            c_check.corr_broken.append({'case': describe(c), 'diff': diff, 'class': cls, 'impl': li[:200], 'line': lines[i]})
            if ri[0] != 'OK' and c['kind'] == 'valid':
                c_check.violation('crash_%d.json' % i, {'kind': 'crash-unpredicted', 'impl': li, 'model': lm[:200],
                                                        'case': describe(c), 'case_line': lines[i]})
        if both_fail:
            stats['agreed_panics'] += 1
            if c['kind'] == 'valid':
                stats['agreed_panics_on_valid_inputs'] += 1
                if first_valid_panic is None:
                    first_valid_panic = {'impl': li, 'case': describe(c)}
            continue
        if ri[0] != 'OK':
            continue
        if code == 'CONFIG' and not diff:
            stats['config_error_returns'] += 1
            continue
        if c['kind'] != 'valid':
            continue
        if any(r > 0 for r in c['rain']) and max(c['areas']) > 0:
            stats['cases_with_rain_and_area'] += 1
        for t in range(len(c['rain'])):
            if c['rain'][t] == 0.0 and c['pet'][t] == 0.0 and c['inflow'][t] == 0.0 and c['demand'][t] == 0.0:
                stats['idle_steps_all_four_forcings_zero'] += 1
                vb = ri[1][0][t - 1] if t else c['v0']
                mr = capped_interp(c, vb, c['minrel'])
                if mr is not None and mr > 1e-3 and vb <= c['volumes'][-1]:
                    stats['idle_steps_with_positive_min_release'] += 1
        # the oracle always runs on the implementation's outputs; the model's sub-step trace is
        # only consulted (for "did this step spill") when model and code agree on this case
        for (cls, detail) in oracle(c, ri, steps if (code == 'OK' and not diff) else None):
            c_check.violation('oracle_%s_%d.json' % (cls, i), {'kind': cls, 'detail': detail, 'case': describe(c),
                                                               'case_line': lines[i]}, key=cls)
        if code == 'OK' and not diff:
            for (known_class, detail) in strict_release(c, steps):
                stats['strict_release_failures'] += 1
                if known_class:
                    stats['strict_release_failures_within_predicted_envelope'] += 1
                    if stats['strict_release_first'] is None:
                        stats['strict_release_first'] = {'regime': c['regime'], 'detail': detail}
                c_check.violation('oracle_release-outside-curves_%d.json' % i,
                                  {'kind': 'release-outside-curves', 'model_reproduces_substep': True,
                                   'within_curves_at_start_and_predicted_end': known_class, 'detail': detail,
                                   'case': describe(c), 'case_line': lines[i]},
                                  key='release-evaluated-at-predicted-end-volume' if known_class else None)
        if want_samples and i % 61 == 3:
            c_check.sample({'regime': c['regime'], 'dt': c['dt'], 'nLVA': c['n'], 'volumes': c['volumes'], 'v0': c['v0'],
                            'timesteps': len(c['rain']), 'accepted_substeps': nsub,
                            'volume_series_head': ri[1][0][:4], 'outflow_head': ri[1][1][:4],
                            'rainfallVolume_head': ri[1][2][:4], 'final_states': ri[2]})
    stats['first_agreed_panic_on_valid_input'] = first_valid_panic
    return stats


def evaluate_long(c_check, cases, lines):
    """long runs: oracle on the implementation's K-line outputs, correspondence on the K-line outputs
    (full length, bit-exact), cumulative accepted sub-step count from the model (no trace printed)"""
    import time as _t
    t0 = _t.time(); impl, _ = run_impl_filtered(lines); t_impl = _t.time() - t0
    t0 = _t.time(); km = run_model(['STORAGE_KCOUNT ' + l.split(' ', 2)[2] for l in lines], timeout=1800); t_model = _t.time() - t0
    res = []
    for i, (c, li, lk) in enumerate(zip(cases, impl, km)):
        t = lk.split(' ', 3)
        total, mx, lm = (int(t[1]), int(t[2]), t[3]) if len(t) == 4 and t[0] == 'KC' else (0, 0, lk)
        ri, rm = parse_kresult(li), parse_kresult(lm)
        diff = kresults_agree(ri, rm)
        c_check.count(lines[i], nontrivial=total > len(c['rain']))
        if diff:
            c_check.corr_broken.append({'case': {'regime': c['regime'], 'timesteps': len(c['rain'])}, 'diff': diff,
                                        'class': 'crash-unpredicted' if 'outcome' in diff else 'model-differs',
                                        'impl': li[:200], 'line': lines[i][:2000] + ' ...'})
        nviol = 0
        if ri[0] == 'OK':
            for (cls, detail) in oracle(c, ri, None):
                nviol += 1
                c_check.violation('oracle_%s_long%d.json' % (cls, i), {'kind': cls, 'detail': detail, 'case': describe(c),
                                                                      'case_line': lines[i]}, key=cls)
        elif rm[0] == 'OK':
            c_check.violation('crash_long%d.json' % i, {'kind': 'crash-unpredicted', 'impl': li, 'case': describe(c),
                                                       'case_line': lines[i]})
        res.append({'regime': c['regime'], 'timesteps': len(c['rain']), 'cumulative_accepted_substeps_model': total,
                    'max_substeps_in_one_step': mx, 'impl_outcome': ri[0], 'model_vs_code': diff or 'bit-exact (full length)',
                    'oracle_failures': nviol})
    return {'long_cases': res, 'long_cases_impl_seconds': round(t_impl, 2), 'long_cases_model_seconds': round(t_model, 2)}


def main():
    if '--replay' in sys.argv:
        path = sys.argv[sys.argv.index('--replay') + 1]
        obj = json.load(open(path))
        build_driver(['c13']); build_harness(['owrun'])
        line = obj.get('case_line') or (obj.get('mismatches') or [{}])[0].get('line')
        if not line:
            print('nothing to replay in', path); sys.exit(2)
        impl, _ = run_impl_filtered([line])
        mdl = run_model([line])
        print('impl :', impl[0][:400]); print('model:', mdl[0][:400])
        diff = kresults_agree(parse_kresult(impl[0]), parse_kresult(mdl[0]))
        print('model-vs-code:', diff or 'agree (bit-exact)')
        bad = []
        if 'case' in obj and parse_kresult(impl[0])[0] == 'OK' and obj['case'].get('kind') == 'valid':
            c = dict(obj['case']); c.setdefault('tmc', [0.0] * len(c['rain']))
            bad = oracle(c, parse_kresult(impl[0]), None)
            print('oracle:', bad or 'holds')
        sys.exit(1 if (diff or bad) else 0)
    c = Check('C13')
    c.prove()
    build_driver(['c13'])
    build_harness(['owrun'])
    rng = c.rng
    quick = c.tier == 'quick'
    cases = boundary_cases(rng)
    for _ in range(360 if quick else 6000):
        cases.append(make_case(rng, quick))
    cases += malformed_cases(rng, 60 if quick else 600)
    lines = [case_line(x) for x in cases]
    stats = evaluate(c, cases, lines)
    kinds = {}
    for x in cases:
        if str(x.get('style', '')).startswith('structured-'):
            kinds[x['style']] = kinds.get(x['style'], 0) + 1
    stats['structured_table_cases'] = kinds
    stats['structured_table_cases_5plus_rows'] = sum(1 for x in cases if str(x.get('style', '')).startswith('structured-') and x['n'] >= 5)
    longs = long_cases(5) if quick else long_cases(5) + long_cases(8)
    stats.update(evaluate_long(c, longs, [case_line(x) for x in longs]))
    if not quick and not c.proof_broken:
        # independent re-check of the compiled proofs with the stand-alone checker
        try:
            out = sh('timeout 2400 coqchk -silent -o -Q . OW OW.Properties.C13', cwd=COQ, timeout=2500)
            stats['coqchk'] = 'ok' if 'type-in-type: <none>' in out and 'unsafe (co)fixpoints: <none>' in out else 'unexpected output'
            if stats['coqchk'] != 'ok':
                c.violation('coqchk.json', {'kind': 'coqchk-unexpected-output', 'output_tail': out[-2000:]}, no_input=True)
        except BuildError as e:
            stats['coqchk'] = 'failed'
            c.violation('coqchk.json', {'kind': 'coqchk-failed', 'output_tail': e.output[-2000:]}, no_input=True)
    c.cov['rule'] = ('monotone level-volume-area tables and release curves with 2..6 points (styles: spillway step at full supply, '
                     'general increasing curves, flat curves, wet bottom), deltaT in {1,6,60,600,3600,43200,86400,random}, '
                     'series regimes fill-to-spill / drawdown-to-empty / steady / rain-only / pulse / wet-dry cycle / mixed, half of the series with idle spells (all four forcings exactly 0 for 1-5 steps at start / middle / end) and steps with exactly three forcings 0, tables also with the spillway crest on an interior row (minRelease > 0 inside the table), '
                     'initial volumes empty..over-full, plus hand-written boundary cases and a malformed stream (nLVA 0/1, '
                     'non-monotone / duplicate / negative volumes, negative inflow or demand, huge PET, crossed curves) compared '
                     'model-vs-code only; each case run through sim.Catalog["Storage"] and the extracted Coq model (bit-exact), '
                     'oracle on the Go outputs; non-trivial = distinct case where some time step needed more than one accepted '
                     'sub-step, or spilled, or ended empty, or both sides panic; plus long stiff seasonal runs (5 years of daily steps in the quick tier, also 8 years in '
                     'thorough: > 1e6 accepted sub-steps in ONE Run call, measured and recorded under long_cases) compared on the K-line outputs '
                     'over the full length and checked with the balance / non-negativity / level-area / envelope oracle on the Go outputs')
    c.finish(extra_cov=dict(stats, exhaustive=False, comparison='bit-exact (only + - * / min max abs comparisons are used)'),
             assumptions=['theorems are over exact real arithmetic (RArith); float round-off is only tested: oracle tolerance 1e-9 relative to the volumes involved',
                          'single-cell parameter column layout (DeltaT, nLVA, 5 tables of nLVA rows); per-cell table lengths in multi-cell runs are covered by C04',
                          'the configuration-error early return leaves the (freshly zeroed) output arrays untouched: modelled as zero series',
                          'release-demand and spill clauses use the extracted model\'s sub-step trace (bit-exact with the code on the reported series) to know whether a step spilled',
                          'a Go panic (testVol<0 at the minimum sub-step, Piecewise error) kills the process; agreed with the model\'s panic outcome, counted, not a violation ("the code panics rather than go negative")'])


if __name__ == '__main__':
    main()
