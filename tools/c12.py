#!/usr/bin/env python3
"""C12 check: constituent transport and trapping models conserve mass.

 * theorems in coq/Properties/C12.v (per-step budget identities over R lifted to
   every period by KernelProofs/Budget.v, flush only below the minimum volume,
   non-negativity, remobilisation bound, and the `_refuted` witnesses);
 * correspondence of the extracted Coq kernels (Kernels/LumpedConstituent.v,
   Decay.v, InstreamFineSediment.v, InstreamCoarseSediment.v,
   InstreamParticulateNutrient.v, InstreamDissolvedNutrient.v, SedimentTrapping.v,
   TrapAll.v, DissolvedDecay.v) with the nine Go models, run through sim.Catalog
   (bit-exact where only + - * / min max and comparisons occur; rtol 1e-9 where
   math.Pow / math.Exp occur); the decay-enabled paths of StorageDissolvedDecay and
   InstreamDissolvedNutrientDecay are compared only (C12 does not speak about them);
 * the mass-balance oracle evaluated on the IMPLEMENTATION's outputs: the state
   after every step is obtained by running the implementation on every prefix of
   the series, which gives a per-step residual
       r_t = stock_{t-1} + in_t*dt - stock_t - out_t*dt - sinks_t
   required to vanish (relative 1e-9) unless the working volume of the step is
   below MINIMUM_VOLUME, where it may only be a loss (r_t >= 0); plus the
   cumulative budget per run, non-negativity of downstream loads and stored
   masses, and remobilisation <= fine-sediment channel store;
 * output arrays that are NOT freshly zeroed: every case is run again (a) into an
   output array pre-filled with a sentinel (a finite one and NaN) and (b) as the
   SECOND run into the output array of another case of the same model and length
   with contrasting data (wet after dry and dry after wet).  Every element that the
   write footprint of the model (Kernels/C12Written.v, evaluated by the extracted
   model) marks as written in every execution must be bit-identical to the run into
   fresh arrays, and so must the final states; on a difference the budget oracle is
   evaluated on the stale outputs.  Elements the footprint marks 0 are the contract
   "outputs arrive zeroed" (listed in the evidence assumptions).
"""
import sys, os, math
sys.path.insert(0, os.path.dirname(os.path.abspath(__file__)))
from vlib import *

MINVOL = 0.01
RTOL = 1e-9
DEFAULT_DT = 86400.0

# ----------------------------------------------------------------------------- generators
def logu(rng, lo, hi):
    return math.exp(rng.uniform(math.log(lo), math.log(hi)))


def gen_hydro(rng, n, dt, regime=None):
    """(outflow m3/s, volume m3) series: non-negative, incl. zero-flow and near-empty steps"""
    regime = regime or rng.choice(['steady', 'dry', 'near-empty', 'intermittent', 'pulse', 'storm', 'pond', 'river',
                                   'threshold'])
    q, v = [], []
    base_q = logu(rng, 1e-3, 1e3)
    base_v = logu(rng, 1.0, 1e7)
    for t in range(n):
        if regime == 'steady':
            q.append(base_q * rng.uniform(0.5, 1.5)); v.append(base_v * rng.uniform(0.8, 1.2))
        elif regime == 'dry':
            q.append(0.0); v.append(0.0)
        elif regime == 'near-empty':
            q.append(rng.choice([0.0, 0.0, 1e-9, 5e-8, 1e-7, 1e-6]) if dt > 100 else rng.choice([0.0, 1e-4, 5e-3, 2e-2]))
            v.append(rng.choice([0.0, 1e-6, 0.005, 0.0099, 0.01, 0.0101, 0.02, 0.5]))
        elif regime == 'threshold':
            # working volume exactly at / just around MINIMUM_VOLUME with zero outflow
            q.append(0.0); v.append(rng.choice([0.01, 0.009999999999999998, 0.010000000000000002, 0.0, 0.02]))
        elif regime == 'intermittent':
            if rng.random() < 0.4:
                q.append(0.0); v.append(rng.choice([0.0, 0.0, 0.004, base_v]))
            else:
                q.append(base_q * rng.uniform(0.1, 2)); v.append(base_v * rng.uniform(0.1, 2))
        elif regime == 'pulse':
            on = n // 3 <= t <= n // 3 + max(1, n // 5)
            q.append(base_q * 20 if on else rng.choice([0.0, base_q * 0.01])); v.append(base_v if on else rng.choice([0.0, 0.003, base_v * 0.01]))
        elif regime == 'storm':
            q.append(logu(rng, 1e3, 1e5)); v.append(logu(rng, 1e6, 1e10))
        elif regime == 'pond':
            q.append(0.0); v.append(base_v * rng.uniform(0.5, 1.5))
        elif regime == 'river':
            q.append(base_q * rng.uniform(0.5, 1.5)); v.append(0.0)
    return q, v, regime


def gen_load(rng, n, hi=1e3):
    """non-negative load series (kg/s)"""
    kind = rng.choice(['zero', 'const', 'random', 'pulse', 'sparse', 'big'])
    base = logu(rng, 1e-6, hi)
    out = []
    for t in range(n):
        if kind == 'zero':
            out.append(0.0)
        elif kind == 'const':
            out.append(base)
        elif kind == 'random':
            out.append(logu(rng, 1e-6, hi))
        elif kind == 'pulse':
            out.append(base * 50 if t == n // 2 else 0.0)
        elif kind == 'sparse':
            out.append(base if rng.random() < 0.3 else 0.0)
        else:
            out.append(logu(rng, hi, hi * 1e3))
    return out


def gen_dt(rng):
    return rng.choice([86400.0, 86400.0, 3600.0, 600.0, 1.0, float(rng.randint(1, 86400)), rng.uniform(1, 86400)])


def gen_n(rng, quick, allow0=True):
    ns = [1, 2, 3, 7, 12, 25] if quick else [1, 2, 3, 7, 12, 40, 100]
    if allow0 and rng.random() < 0.03:
        return 0
    return rng.choice(ns)


def gen_stock(rng):
    return rng.choice([0.0, 0.0, logu(rng, 1e-3, 1e9), logu(rng, 1.0, 1e6)])



# structured ratios: a pow/exp of a RATIO of two parameters is exercised on exact integers (around the binary64
# exponent / mantissa limits 52, 53, 63, 64, 65, 1023, 1024, 1074, 1075), their reciprocals, exact powers of two,
# exactly 1, and very large / very small ratios -- not only on ratios of two independent continuous draws
RATIO_INTS = [1, 2, 3, 10, 52, 53, 63, 64, 65, 96, 128, 1023, 1024, 1074, 1075, 2000]
ROUND_DT = [1.0, 60.0, 3600.0, 86400.0]


def structured_ratio(rng, hi=None):
    kind = rng.choice(['int', 'int', 'recip', 'pow2', 'one', 'huge', 'tiny'])
    if kind == 'int':
        r = float(rng.choice(RATIO_INTS))
    elif kind == 'recip':
        r = 1.0 / rng.choice(RATIO_INTS)
    elif kind == 'pow2':
        r = 2.0 ** rng.choice([-40, -11, -10, -6, -1, 1, 5, 6, 7, 10, 11, 20])
    elif kind == 'one':
        r = 1.0
    elif kind == 'huge':
        r = rng.choice([86400.0 / 1.5, 1e5, 1e7, 1e9, float(rng.randint(2001, 10 ** 6))])
    else:
        r = rng.choice([1e-5, 1e-7, 1.0 / (100 * 365.25 * 86400), 1e-12])
    if hi is not None and r > hi:
        r = float(rng.choice([x for x in RATIO_INTS if x <= hi]))
    return r


def structured_step_and_constant(rng):
    """(DeltaT, time constant) with DeltaT / constant a structured ratio; exact whenever binary64 allows:
    round or arbitrary DeltaT with constant = DeltaT / r when that division is exact, otherwise a binary-friendly
    constant and DeltaT = r * constant"""
    r = structured_ratio(rng)
    dt = rng.choice(ROUND_DT + ROUND_DT + [float(rng.randint(1, 86400)), rng.uniform(1, 86400)])
    c = dt / r
    if c > 0 and not math.isinf(c) and dt / c == r:
        return dt, c
    c = rng.choice([0.25, 0.5, 1.0, 3.0, 7.0, 45.0])
    dt2 = r * c
    if 1.0 <= dt2 <= 86400.0 and dt2 / c == r:
        return dt2, c
    return dt, dt / r        # the nearest binary64 ratio


class Case:
    def __init__(self, model, params, states, inputs, dt, **meta):
        self.model, self.params, self.states, self.inputs, self.dt = model, params, states, inputs, dt
        self.meta = meta
        self.n = len(inputs[0]) if inputs else 0

    def line(self, upto=None):
        ins = self.inputs if upto is None else [r[:upto] for r in self.inputs]
        return kcase(self.model, self.params, self.states, ins)

    def brief(self):
        return {'model': self.model, 'params': self.params, 'states': self.states, 'inputs': self.inputs,
                'meta': {k: v for k, v in self.meta.items() if isinstance(v, (int, float, str, bool))}}


def gen_lumped(rng, quick):
    dt = gen_dt(rng); n = gen_n(rng, quick)
    q, v, reg = gen_hydro(rng, n, dt)
    point = rng.choice([0.0, 0.0, logu(rng, 1e-6, 10)])
    return Case('LumpedConstituentRouting', [rng.uniform(0, 1), point, dt], [gen_stock(rng)],
                [gen_load(rng, n), gen_load(rng, n), q, v], dt, regime=reg)


def gen_decay(rng, quick):
    dt = gen_dt(rng); n = gen_n(rng, quick)
    q, v, reg = gen_hydro(rng, n, dt)
    half = rng.choice([0.0, 0.0, -1.0, dt, logu(rng, 10, 1e8), logu(rng, 1e3, 1e7)])
    if rng.random() < 0.25:
        dt, half = structured_step_and_constant(rng)        # DeltaT / halfLife from the structured set
        q, v, reg = gen_hydro(rng, n, dt)
        reg = 'structured-ratio/' + reg
    inflow = [x * rng.uniform(0.5, 1.5) for x in q]
    return Case('ConstituentDecay', [rng.uniform(0, 1), half, dt], [gen_stock(rng)],
                [gen_load(rng, n), gen_load(rng, n), inflow, q, v], dt, regime=reg)


def fine_params(rng, dt, lowbank=None):
    if lowbank is None:
        lowbank = rng.random() < 0.15
    bff = rng.choice([0.0, 1e-8, 5e-9]) if lowbank else rng.choice([1.0000000000000002e-08, logu(rng, 1e-3, 1e3), logu(rng, 1, 200)])
    return [bff,
            rng.choice([0.0, logu(rng, 1e-6, 1e-2)]),          # fineSedSettVelocityFlood
            rng.choice([0.0, logu(rng, 1e2, 1e8)]),            # floodPlainArea
            logu(rng, 1, 200),                                 # linkWidth
            logu(rng, 100, 1e5),                               # linkLength
            logu(rng, 1e-5, 0.05),                             # linkSlope
            rng.uniform(0.5, 10),                              # bankHeight
            rng.choice([0.0, 1.0, rng.uniform(0, 1)]),         # propBankHeightForFineDep
            rng.uniform(1.0, 2.0),                             # sedBulkDensity
            rng.uniform(0.02, 0.12),                           # manningsN
            logu(rng, 1e-6, 1.0),                              # fineSedSettVelocity
            logu(rng, 1e-6, 1.0),                              # fineSedReMobVelocity
            dt]


def gen_fine(rng, quick, lowbank=None):
    dt = gen_dt(rng); n = gen_n(rng, quick)
    p = fine_params(rng, dt, lowbank)
    q, v, reg = gen_hydro(rng, n, dt)
    bff = p[0]
    if bff > 1e-8 and n and rng.random() < 0.35:
        # straddle bank-full: below, exactly at, above
        q = [rng.choice([bff * rng.uniform(0, 1), bff, bff * rng.uniform(1, 30), x]) for x in q]
    if bff > 1e-8 and n and rng.random() < 0.25:
        # flood-plain exponent (fineSedSettVelocityFlood * floodPlainArea) / (outflow - bankFullFlow) a structured ratio:
        # bank-full flow and flood flow exact powers of two, so the subtraction and the ratio are exact
        bff = p[0] = 2.0 ** rng.choice([0, 1, 3, 6])
        qf = 2.0 ** rng.choice([-4, -1, 0, 2, 5])
        p[2] = 1.0
        p[1] = structured_ratio(rng) * qf
        q = [rng.choice([bff + qf, bff + qf, bff, bff / 2, bff + 2 * qf]) for _ in range(n)]
        reg = 'structured-ratio/' + reg
    hi = rng.choice([1e-2, 10, 1e4, 1e6])
    chan = rng.choice([0.0, 0.0, logu(rng, 1, 1e10), logu(rng, 1e3, 1e8), -rng.uniform(0, 1)])
    if bff <= 1e-8:
        chan = abs(chan)     # the negative "proportion of maxStorage" encoding is only decoded on the bank-full > 1e-8 path
    return Case('InstreamFineSediment', p, [chan, gen_stock(rng)],
                [gen_load(rng, n, hi), gen_load(rng, n, hi), gen_load(rng, n, hi), v, q], dt, regime=reg)


def gen_coarse(rng, quick):
    dt = gen_dt(rng); n = gen_n(rng, quick)
    return Case('InstreamCoarseSediment', [dt], [gen_stock(rng), gen_stock(rng)],
                [gen_load(rng, n), gen_load(rng, n), gen_load(rng, n)], dt, regime='n/a')


def gen_particulate(rng, quick):
    dt = gen_dt(rng); n = gen_n(rng, quick)
    q, v, reg = gen_hydro(rng, n, dt)
    pnc = rng.choice([0.0, 1.0, rng.uniform(0, 1), logu(rng, 1e-5, 1e-1)])
    spf = rng.choice([0.0, 100.0, rng.uniform(0, 100)])
    fpf = [rng.choice([0.0, 0.0, rng.uniform(0, 1), 1.0, rng.uniform(0, 0.2)]) for _ in range(n)]
    sig_kind = rng.choice(['dep', 'remob', 'mixed', 'zero', 'large'])
    cdf = []
    for t in range(n):
        if sig_kind == 'dep':
            cdf.append(rng.uniform(0, 1))
        elif sig_kind == 'remob':
            cdf.append(-rng.uniform(0, 0.5))
        elif sig_kind == 'mixed':
            cdf.append(rng.uniform(-0.5, 1))
        elif sig_kind == 'zero':
            cdf.append(0.0)
        else:
            cdf.append(rng.uniform(0.5, 3))     # more than what is left after the floodplain
    latsed = [rng.choice([0.0, 0.0, logu(rng, 1e-3, 1e3)]) for _ in range(n)]
    return Case('InstreamParticulateNutrient', [pnc, spf, dt], [gen_stock(rng), gen_stock(rng)],
                [gen_load(rng, n), gen_load(rng, n), v, q, gen_load(rng, n), latsed, fpf, cdf], dt, regime=reg, sig=sig_kind)


def gen_trapping(rng, quick):
    dt = gen_dt(rng); n = gen_n(rng, quick)
    q, v, reg = gen_hydro(rng, n, dt)
    inflow = [rng.choice([0.0, x * rng.uniform(0.2, 3), logu(rng, 1e-3, 1e4)]) for x in q]
    length = rng.choice([0.0, logu(rng, 100, 1e5), logu(rng, 100, 1e5)])
    p = [dt, logu(rng, 1e4, 1e10), length, rng.choice([112.0, rng.uniform(50, 150)]),
         rng.choice([800.0, rng.uniform(100, 2000)]), rng.choice([3.28, 1.0, rng.uniform(0.5, 10)]),
         rng.choice([-0.2, -0.2, -rng.uniform(0.05, 1.0), rng.uniform(0.05, 0.5)])]
    if rng.random() < 0.25:
        # sedimentation index capacity^2 / (factor * length * inflow^2) an exact structured ratio, integer / half-integer powers
        p[5] = 1.0; p[2] = 4.0
        p[6] = rng.choice([-1.0, -2.0, -0.5, 0.5, 1.0, 2.0, -0.25, -0.2])
        qs = [2.0 ** rng.choice([-3, 0, 1, 4, 7]) for _ in range(n)]
        r = structured_ratio(rng)
        p[1] = math.sqrt(r * 4.0) * (qs[0] if qs else 1.0)      # index = r at the first step (exactly when sqrt is exact)
        inflow = qs
        reg = 'structured-ratio/' + reg
    return Case('StorageParticulateTrapping', p, [gen_stock(rng)], [gen_load(rng, n), inflow, q, v], dt, regime=reg)


def gen_trapping_degenerate(rng, quick):
    """catalogue-default-like parameters: zeros in capacity / discharge factor / power / subtractor, which make the
    sedimentation index 0/0 or x/0 and exercise math.Pow(NaN, 0) = 1, Pow(Inf, 0), Pow(0, y)"""
    cs = gen_trapping(rng, quick)
    p = cs.params
    for k in (1, 3, 4, 5, 6):
        if rng.random() < 0.5:
            p[k] = 0.0
    if rng.random() < 0.5:
        p[4] = 0.5
    cs.meta['regime'] = 'degenerate-params/' + str(cs.meta.get('regime'))
    return cs


def gen_trapall(rng, quick):
    n = gen_n(rng, quick)
    q, v, reg = gen_hydro(rng, n, DEFAULT_DT)
    return Case('StorageTrapAll', [], [gen_stock(rng)], [gen_load(rng, n), q, q, v], DEFAULT_DT, regime=reg)


def gen_dissolved(rng, quick, decay=False):
    dt = gen_dt(rng); n = gen_n(rng, quick)
    q, v, reg = gen_hydro(rng, n, dt)
    do = rng.choice([0.5, 1.0, 0.7]) if decay else rng.choice([0.0, 0.0, 0.49, 0.25])
    p = [dt, do, rng.uniform(1, 10), logu(rng, 1e-2, 1e3), rng.choice([0.0, -1.0, rng.uniform(0, 10)])]
    if decay and rng.random() < 0.25:
        p[4] = 5.0 * structured_ratio(rng)                   # medianFloodResidenceTime / 5 from the structured set
        reg = 'structured-ratio/' + reg
    return Case('StorageDissolvedDecay', p, [gen_stock(rng)], [gen_load(rng, n), [x * 1.1 for x in q], q, v], dt,
                regime=reg, decay=decay)


def gen_dnd(rng, quick, decay=False):
    dt = gen_dt(rng); n = gen_n(rng, quick)
    q, v, reg = gen_hydro(rng, n, dt)
    do = rng.choice([0.5, 1.0]) if decay else rng.choice([0.0, 0.0, 0.49])
    p = [do, rng.choice([0.0, logu(rng, 1, 1e6)]), rng.uniform(0.5, 10), logu(rng, 1, 200), logu(rng, 100, 1e5),
         rng.choice([0.0, logu(rng, 1e-6, 10)]), dt]
    if decay and rng.random() < 0.25:
        # 86400 / durationInSeconds and uptakeVelocity / waterDepth from the structured set (the depth is the link
        # height whenever the reach is full enough)
        dt, _ = structured_step_and_constant(rng)
        p[6] = dt
        p[2] = rng.choice([0.5, 1.0, 2.0, 4.0])
        p[5] = structured_ratio(rng) * p[2]
        q, v, reg = gen_hydro(rng, n, dt, regime=rng.choice(['steady', 'storm', 'pond', 'intermittent']))
        reg = 'structured-ratio/' + reg
        return Case('InstreamDissolvedNutrientDecay', p, [gen_stock(rng)],
                    [gen_load(rng, n), gen_load(rng, n), v, q, [rng.uniform(0, 1) for _ in range(n)]], dt, regime=reg, decay=decay)
    return Case('InstreamDissolvedNutrientDecay', p, [gen_stock(rng)],
                [gen_load(rng, n), gen_load(rng, n), v, q, [rng.uniform(0, 1) for _ in range(n)]], dt, regime=reg, decay=decay)


# ----------------------------------------------------------------------------- oracle
def isbad(x):
    return x != x or math.isinf(x)


def tol(*xs):
    return RTOL * max([abs(x) for x in xs] + [0.0]) + 1e-300


class Oracle:
    """Per-model description of the budget terms, evaluated on implementation output.
       stock(states) ; inflow(case,t) kg ; out(case,outs,t) kg ; sinks(case,outs,t) kg ;
       wvol(case,t) working volume deciding whether a flush is permitted (None: never)."""

    def __init__(self, c):
        self.c = c
        self.branches = {}

    def hit(self, model, name):
        k = model + ':' + name
        self.branches[k] = self.branches.get(k, 0) + 1


def fine_max_storage(p):
    return p[7] * p[6] * (p[3] * p[4]) * p[8] * 1000.0


def terms(case, outs, t):
    """-> (inflow_kg, out_kg, sinks_kg, working_volume_or_None) for step t, using the implementation's outputs."""
    m, I, p, dt = case.model, case.inputs, case.params, case.dt
    if m == 'LumpedConstituentRouting':
        return ((I[0][t] + I[1][t] + p[1]) * dt, outs[0][t] * dt, 0.0, I[2][t] * dt + I[3][t])
    if m == 'ConstituentDecay':
        return ((I[0][t] + I[1][t]) * dt, outs[1][t] * dt, outs[0][t] * dt, I[3][t] * dt + I[4][t])
    if m == 'InstreamFineSediment':
        return ((I[0][t] + I[1][t] + I[2][t]) * dt, outs[0][t] * dt, outs[1][t] * dt, I[4][t] * dt + I[3][t])
    if m == 'InstreamCoarseSediment':
        return ((I[0][t] + I[1][t] + I[2][t]) * dt, outs[0][t] * dt, 0.0, None)
    if m == 'InstreamParticulateNutrient':
        return ((I[0][t] + I[1][t] + outs[1][t]) * dt, outs[2][t] * dt, outs[3][t] * dt, I[3][t] * dt + I[2][t])
    if m == 'StorageParticulateTrapping':
        return (I[0][t] * dt, outs[1][t] * dt, outs[0][t], None)
    if m == 'StorageTrapAll':
        return (I[0][t] * dt, outs[1][t] * dt, outs[0][t], None)
    if m == 'StorageDissolvedDecay':
        return (I[0][t] * dt, outs[1][t] * dt, outs[0][t], I[2][t] * dt + I[3][t])
    if m == 'InstreamDissolvedNutrientDecay':
        psrc = p[1] / (365.25 * 86400)
        return ((I[0][t] + I[1][t] + psrc) * dt, outs[1][t] * dt, 0.0, I[3][t] * dt + I[2][t])
    raise KeyError(m)


DOWNSTREAM = {'LumpedConstituentRouting': [0], 'ConstituentDecay': [1], 'InstreamFineSediment': [0],
              'InstreamCoarseSediment': [0], 'InstreamParticulateNutrient': [2], 'StorageParticulateTrapping': [1],
              'StorageTrapAll': [1], 'StorageDissolvedDecay': [1], 'InstreamDissolvedNutrientDecay': [1]}
# which states are in-stream stored masses that must stay non-negative (all modelled stores)
NONNEG_STATES = {'LumpedConstituentRouting': [0], 'ConstituentDecay': [0], 'InstreamFineSediment': [0, 1],
                 'InstreamCoarseSediment': [0, 1], 'InstreamParticulateNutrient': [0], 'StorageParticulateTrapping': [0],
                 'StorageTrapAll': [0], 'StorageDissolvedDecay': [0], 'InstreamDissolvedNutrientDecay': [0]}


def initial_stock_states(case):
    """the states the time loop really starts from (fine sediment: a negative
    channelStoreFine is a proportion of maxStorage)"""
    s = list(case.states)
    if case.model == 'InstreamFineSediment' and case.params[0] > 1e-8 and s[0] < 0.0:
        s[0] = abs(s[0]) * fine_max_storage(case.params)
    return s


def oracle_case(c, orc, idx, case, ri, traj):
    """ri: parsed result of the full run; traj[t]: implementation states after t+1 steps (prefix runs).
    Returns True when the case satisfies the property (or only known findings fail)."""
    m, n, dt = case.model, case.n, case.dt
    name = 'oracle_%s_%d.json' % (m, idx)
    base = case.brief()
    base['case_line'] = case.line()
    if ri[0] != 'OK':
        c.violation(name, dict(base, kind='crash-on-valid-input', impl=ri[0]))
        return False
    outs, final = ri[1], ri[2]
    ok = True
    if n == 0 and (list(final) != initial_stock_states(case) or any(len(r) for r in outs)):
        # an empty period: nothing enters, nothing leaves, every stored mass is carried unchanged
        c.violation(name, dict(base, kind='empty-series-changes-state', final_states=final, outputs=outs))
        return False
    # ---- NaN / Inf anywhere in outputs or states
    flat = [x for r in outs for x in r] + list(final)
    if any(isbad(x) for x in flat):
        t0 = min([t for r in outs for t, x in enumerate(r) if isbad(x)] + [n - 1 if n else 0])
        orc.hit(m, 'nan')
        c.violation(name, dict(base, kind='not-a-number-in-outputs', first_step=t0, outputs=outs, final_states=final))
        return False
    prev = initial_stock_states(case)
    s0 = list(prev)
    cum_in = cum_out = cum_sink = cum_flush = 0.0
    resid_noflush = 0.0
    handled = 0.0
    fails = []
    for t in range(n):
        st = traj[t]
        if st is None:
            c.violation(name, dict(base, kind='crash-on-prefix', step=t))
            return False
        inflow, outk, sink, wv = terms(case, outs, t)
        stock_prev, stock_now = sum(prev), sum(st)
        r = stock_prev + inflow - stock_now - outk - sink
        tl = tol(stock_prev, inflow, stock_now, outk, sink) * 4
        flush_ok = wv is not None and wv < MINVOL
        handled = max(handled, abs(stock_prev), abs(inflow))
        # non-negativity (literal): a negative value whose magnitude is within round-off of the mass handled in
        # the step is recorded as 'roundoff-negative-*' (exact arithmetic gives >= 0, proved in Coq)
        # (a round-off negative store is carried into the following steps, so the scale is the largest mass handled so far)
        for k in NONNEG_STATES[m]:
            if st[k] < 0.0:
                fails.append(('roundoff-negative-stored-mass' if -st[k] <= tol(handled) else 'negative-stored-mass', t, st[k]))
        for k in DOWNSTREAM[m]:
            x = outs[k][t]
            if x < 0.0:
                fails.append(('roundoff-negative-downstream-load' if -x * dt <= tol(handled) else 'negative-downstream-load', t, x))
        if flush_ok:
            orc.hit(m, 'flush-permitted')
            if r < -max(tl, tol(handled)):      # (flushing a round-off negative store is not a creation of mass)
                fails.append(('mass-created-on-flush-step', t, r))
            cum_flush += max(r, 0.0)
        else:
            orc.hit(m, 'no-flush')
            resid_noflush += r
            if abs(r) > tl:
                fails.append(('budget-residual', t, r))
        cum_in += inflow; cum_out += outk; cum_sink += sink
        # model specific
        if m == 'InstreamFineSediment' and case.params[0] > 1e-8:
            net = outs[2][t]
            orc.hit(m, 'deposition' if net > 0 else ('remobilisation' if net < 0 else 'no-bed-exchange'))
            if outs[1][t] > 0:
                orc.hit(m, 'floodplain-deposit')
            if net < 0 and -net > prev[0] + tol(prev[0], net):
                fails.append(('remobilisation-exceeds-channel-store', t, net))
            if net < 0 and -net == prev[0] and prev[0] > 0:
                orc.hit(m, 'remobilised-whole-store')
            if abs((st[0] - prev[0]) - net) > tol(st[0], prev[0], net) * 4:
                fails.append(('reported-deposition-differs-from-store-change', t, net))
        if m == 'InstreamParticulateNutrient':
            orc.hit(m, 'signal>=0' if case.inputs[7][t] >= 0 else 'signal<0')
            if not flush_ok and abs((st[1] - prev[1]) - outs[0][t]) > tol(st[1], prev[1], outs[0][t]) * 4:
                fails.append(('reported-deposition-differs-from-store-change', t, outs[0][t]))
        if m == 'StorageParticulateTrapping':
            inc = case.inputs[0][t] * dt
            tr = outs[0][t]
            orc.hit(m, 'trap0' if tr == 0 else ('trap100' if tr == inc else 'trap-partial'))
            if tr < 0 or tr > inc + tol(inc):
                fails.append(('trapped-outside-incoming', t, tr))
        if m == 'StorageDissolvedDecay' and not case.meta.get('decay') and outs[0][t] != 0.0:
            fails.append(('decay-reported-with-decay-disabled', t, outs[0][t]))
        prev = st
    # cumulative budget of the run: everything not accounted for must be a permitted flush
    total = cum_in + sum(s0)
    if n and abs(resid_noflush) > RTOL * max(total, cum_out + cum_sink, 1e-300) * 4 and not fails:
        fails.append(('cumulative-budget', n - 1, resid_noflush))
    if n and list(traj[n - 1]) != list(final) and not all(feq(a, b) for a, b in zip(traj[n - 1], final)):
        fails.append(('prefix-run-state-differs-from-full-run', n - 1, 0.0))
    if not fails:
        return True
    # ---- classification into known failure classes
    key = None
    kinds = {f[0] for f in fails}
    if m == 'StorageTrapAll' and kinds <= {'budget-residual', 'cumulative-budget'}:
        # the numbers balance when the trapped output is read as a rate: sum trapped = s0 + sum inflow
        lhs = sum(s0) + sum(case.inputs[0])
        rhs = sum(outs[0]) + sum(final)
        if abs(lhs - rhs) <= tol(lhs, rhs) * 4 * max(n, 1):
            key = 'trap-all-rate-reported-as-mass'
    if kinds <= {'roundoff-negative-stored-mass', 'roundoff-negative-downstream-load'}:
        key = 'negative-at-roundoff-level'
    orc.hit(m, 'fail:' + str(key))
    c.violation(name, dict(base, kind=fails[0][0], step=fails[0][1], value=fails[0][2], all_failures=fails[:10],
                           outputs=outs, final_states=final, trajectory=traj), key=key)
    return key is not None and any(k['key'] == key for k in c.known)



# ----------------------------------------------------------------------------- re-used / unzeroed output arrays
SENTINELS = [7.0e9, float('nan')]


def spec_of(case):
    """the K-line of a case without the leading 'K' (model P.. S.. I..)"""
    return case.line()[2:]


def stale_lines(cases, impl_parsed):
    """-> (lines, index) : KS runs (sentinel pre-filled outputs) of every case and K2 runs (second run into the
    output array of a partner case of the same model and length).  Partners are chosen for contrast: within a
    (model, length) group the cases are ordered by the number of steps whose downstream load is zero in the fresh run
    and the driest is paired with the wettest, so both orders wet->dry and dry->wet occur."""
    lines, index = [], []
    groups = {}
    for i, cs in enumerate(cases):
        if cs.n == 0 or impl_parsed[i][0] != 'OK':
            continue
        for sv in SENTINELS:
            lines.append('KS %s %s' % (f2h(sv), spec_of(cs))); index.append(('sentinel', i, sv))
        groups.setdefault((cs.model, cs.n), []).append(i)
    for (m, n), idx in sorted(groups.items()):
        if len(idx) < 2:
            continue
        k = DOWNSTREAM[m][0]
        idx.sort(key=lambda i: (sum(1 for x in impl_parsed[i][1][k] if x == 0.0), i))
        L = len(idx)
        for j, b in enumerate(idx):
            a = idx[L - 1 - j]
            if a == b:
                a = idx[(j + 1) % L]
            lines.append('K2 %s %s' % (spec_of(cases[a]), spec_of(cases[b]))); index.append(('second-run', b, a))
    return lines, index


def check_stale(c, cases, impl_parsed, masks, trajs, lines, index, results, stats):
    """every footprint-1 element and every state of a run into a dirty output array must equal the fresh run"""
    for (kind, b, other), ln, res in zip(index, lines, results):
        cs, fresh, mask = cases[b], impl_parsed[b], masks[b]
        r = parse_kresult(res)
        stats['runs'] += 1
        name = 'stale_%s_%s_%d_%s.json' % (kind, cs.model, b, other if kind == 'second-run' else ('nan' if other != other else 'finite'))
        base = cs.brief()
        base['case_line'] = cs.line()
        base['dirty_run_line'] = ln
        if kind == 'second-run':
            base['previous_run'] = cases[other].brief()
        else:
            base['prefill'] = repr(other)
        if r[0] != 'OK' or mask is None:
            c.violation(name, dict(base, kind='crash-or-no-footprint-on-reused-output-array', impl=res[:200]))
            continue
        bad = []
        for k, (row, frow, mrow) in enumerate(zip(r[1], fresh[1], mask)):
            for t, (x, y, mk) in enumerate(zip(row, frow, mrow)):
                if mk == 1.0:
                    stats['written_elements'] += 1
                    if kind == 'second-run' and y == 0.0 and impl_parsed[other][1][k][t] != 0.0:
                        stats['contrast_elements'] += 1      # old value non-zero, new value zero: a skipped write shows here
                    if not feq(x, y):
                        bad.append((k, t, x, y))
                else:
                    stats['zeroed_contract_elements'] += 1
        sbad = [(j, x, y) for j, (x, y) in enumerate(zip(r[2], fresh[2])) if not feq(x, y)]
        if not bad and not sbad:
            continue
        # evaluate the mass balance on what the caller would read: stale values where they survived
        fails = None
        if not cs.meta.get('decay'):
            dirty = [[x if mk == 1.0 else y for x, y, mk in zip(row, frow, mrow)] for row, frow, mrow in zip(r[1], fresh[1], mask)]
            ctx = _ReplayCtx()
            traj = [trajs.get(b, {}).get(t) for t in range(1, cs.n + 1)]
            oracle_case(ctx, Oracle(ctx), b, cs, ('OK', dirty, r[2]), traj)
            fails = [dict(kind=v.get('kind'), step=v.get('step'), value=v.get('value')) for v in ctx.violations]
        c.violation(name, dict(base, kind='output-keeps-old-content-of-reused-output-array',
                               differing_elements=[dict(output=k, step=t, dirty=x, fresh=y) for k, t, x, y in bad[:12]],
                               differing_states=sbad, budget_oracle_on_stale_outputs=fails,
                               dirty_outputs=r[1], fresh_outputs=fresh[1], footprint=mask))


# ----------------------------------------------------------------------------- main
EXACT = {'LumpedConstituentRouting', 'InstreamCoarseSediment', 'InstreamParticulateNutrient', 'StorageTrapAll',
         'StorageDissolvedDecay'}


ILL = {}        # out-of-domain cases accepted by the measured-sensitivity allowance (condlib): count, amplification, runs


def agree(case, ri, rm):
    if case.model in EXACT and not case.meta.get('decay'):
        return kresults_agree(ri, rm)
    if ri[0] == 'OK' and rm[0] == 'OK':
        mag = max([abs(x) for r in ri[1] for x in r if not isbad(x)] + [abs(x) for x in ri[2] if not isbad(x)] + [0.0])
        atol = 1e-12 * mag + 1e-300
        if case.model == 'ConstituentDecay':
            # (1 - 2^(-dt/halflife)) * storedMass cancels when dt << halflife: one ulp of pow is an absolute
            # error of 1e-16 * storedMass in the decayed amount (reported divided by dt)
            mass = max([abs(x) for x in case.states] + [abs(x) for x in ri[2]]) + sum(case.inputs[0] + case.inputs[1]) * case.dt
            atol += 1e-14 * mass / min(case.dt, 1.0)
        return kresults_agree(ri, rm, rtol=1e-9, atol=atol)
    return kresults_agree(ri, rm)


def corpus_cases():
    """the witnesses of the repaired defects (must now pass) and of the theorems still named ..._refuted"""
    D = 86400.0
    cs = []
    # D13 (fixed): nil lateral series
    cs.append(Case('StorageDissolvedDecay', [D, 0.0, 1.0, 10.0, 0.0], [10.0], [[1.0, 1.0, 1.0], [1, 1, 1], [0, 0, 1], [0, 0, 100]], D, regime='corpus'))
    cs.append(Case('StorageDissolvedDecay', [D, 0.0, 1.0, 10.0, 0.0], [0.0], [[2.0], [1.0], [1.0], [1000.0]], D, regime='corpus'))
    # D14 (fixed 70f6256): bank-full flow 0 dropped reachLocalMass
    cs.append(Case('InstreamFineSediment', [0.0, 0, 0, 10, 1000, 0.001, 2, 0.5, 1.5, 0.04, 1e-3, 1e-3, D], [0.0, 0.0],
                   [[0.0], [0.0], [1.0], [1000.0], [1.0]], D, regime='corpus'))
    # (fixed d80779f) NaN: outflow == bankFullFlow with no floodplain
    cs.append(Case('InstreamFineSediment', [10.0, 0.0, 0.0, 5, 1000, 0.001, 2, 0.5, 1.5, 0.04, 1e-5, 1e-4, D], [0.0, 100.0],
                   [[0.01], [0.0], [0.0], [1000.0], [10.0]], D, regime='corpus'))
    cs.append(Case('InstreamFineSediment', [10.0, 0.0, 0.0, 5, 1000, 0.5, 2, 0.5, 1.5, 0.25, 0.125, 0.25, D], [0.0, 100.0],
                   [[0.5], [0.0], [0.0], [1000.0], [10.0]], D, regime='corpus'))       # = fine_at_bankfull_no_nan (Coq, float instance)
    # (fixed 7addb3e) NaN: empty reservoir without outflow
    cs.append(Case('StorageParticulateTrapping', [D, 1e6, 1000, 112, 800, 1.0, -0.2], [10.0], [[1.0, 1.0], [1, 1], [0, 1], [0, 100]], D, regime='corpus'))
    cs.append(Case('StorageParticulateTrapping', [D, 1e6, 0, 112, 800, 1.0, 0.5], [10.0], [[1.0], [1.0], [0.0], [0.0]], D, regime='corpus'))  # = trapping_empty_reservoir_keeps_mass (Coq, float instance)
    # round-off negative store (= decay_roundoff_negative_refuted)
    cs.append(Case('ConstituentDecay', [0.0, 0.0, D], [0.0], [[0.3], [0.0], [3.0], [3.0], [0.0]], D, regime='corpus'))
    # (fixed b73cc97) empty series: StorageTrapAll and InstreamDissolvedNutrientDecay indexed element 0 and killed the process;
    # now: no output, stored mass carried unchanged
    cs.append(Case('StorageTrapAll', [], [5.0], [[], [], [], []], DEFAULT_DT, regime='corpus-empty'))
    cs.append(Case('InstreamDissolvedNutrientDecay', [0.0, 100.0, 1, 1, 1, 1, D], [7.0], [[], [], [], [], []], D, regime='corpus-empty'))
    cs.append(Case('InstreamDissolvedNutrientDecay', [1.0, 100.0, 1, 1, 1, 1, D], [7.0], [[], [], [], [], []], D, regime='corpus-empty', decay=True))
    # trap-all: kg/s copied into kg
    cs.append(Case('StorageTrapAll', [], [5.0], [[1.0, 2.0], [0, 0], [0, 0], [0, 0]], DEFAULT_DT, regime='corpus'))
    return cs


def binaries(c=None):
    """(implementation runner, model driver).  Proofs: Check.prove() builds the .vo closure of Properties/C12.v
    only.  Model: a private driver holding only the c12 kernels.  Implementation: harness/bin/owrun built against
    /repo's working tree, unless C12_OWRUN names an owrun binary built elsewhere (used to test the check against a
    mutated PRIVATE copy of /repo without touching /repo)."""
    if c is not None:
        c.prove()
    model_bin = build_driver(['c12'])
    impl_bin = os.environ.get('C12_OWRUN')
    if not impl_bin:
        build_harness(['owrun'])
        impl_bin = os.path.join(HARNESS, 'bin', 'owrun')
    return impl_bin, model_bin


class _ReplayCtx:
    """what oracle_case needs from a Check, without touching out/ or evidence/"""
    def __init__(self):
        self.known = load_known('C12')
        self.known_hits = {}
        self.violations = []

    def violation(self, name, obj, key=None, no_input=False):
        for k in self.known:
            if key is not None and k['key'] == key:
                self.known_hits[k['id']] = k['text']
                return False
        self.violations.append(obj)
        return True


def replay(path):
    """re-run one recorded case on the implementation and on the model and re-evaluate the oracle"""
    import json
    obj = json.load(open(path))
    if 'model' not in obj or 'inputs' not in obj:
        print('replay file records a broken proof obligation / correspondence, not an input: %s' % obj.get('kind'))
        print(json.dumps(obj, indent=1)[:3000])
        sys.exit(1)
    impl_bin, model_bin = binaries()
    dt = obj['params'][{'LumpedConstituentRouting': 2, 'ConstituentDecay': 2, 'InstreamFineSediment': 12, 'InstreamCoarseSediment': 0,
                        'InstreamParticulateNutrient': 2, 'StorageParticulateTrapping': 0, 'StorageDissolvedDecay': 0,
                        'InstreamDissolvedNutrientDecay': 6}[obj['model']]] if obj['model'] != 'StorageTrapAll' else DEFAULT_DT
    cs = Case(obj['model'], obj['params'], obj['states'], obj['inputs'], dt, **obj.get('meta', {}))
    lines = [cs.line()] + [cs.line(upto=t) for t in range(1, cs.n + 1)]
    res = run_lines(impl_bin, lines, env=GOENV)
    lm = run_lines(model_bin, lines[:1], crash_token='MODELCRASH')[0]
    print('case :', lines[0]); print('impl :', res[0]); print('model:', lm)
    c = _ReplayCtx()
    ri, rm = parse_kresult(res[0]), parse_kresult(lm)
    diff = agree(cs, ri, rm)
    if diff:
        print('model and implementation differ:', diff)
    traj = [(lambda r: r[2] if r[0] == 'OK' else None)(parse_kresult(l)) for l in res[1:]]
    good = oracle_case(c, Oracle(c), 0, cs, ri, traj)
    for kid, text in sorted(c.known_hits.items()):
        print('KNOWN-FINDING: property=C12 %s: %s' % (kid, text))
    for v in c.violations:
        print('oracle failure:', v.get('kind'), 'step', v.get('step'), 'value', v.get('value'), v.get('impl', ''))
    print('oracle:', 'holds' if (good and not c.known_hits) else ('known finding' if good else 'VIOLATED'))
    stale_bad = False
    if obj.get('dirty_run_line'):
        # the recorded case was a run into an output array holding old data: repeat it and compare with the fresh run
        rd = parse_kresult(run_lines(impl_bin, [obj['dirty_run_line']], env=GOENV)[0])
        mk = parse_kresult(run_lines(model_bin, [kcase(cs.model + '#written', cs.params, cs.states, cs.inputs)], crash_token='MODELCRASH')[0])
        print('dirty:', obj['dirty_run_line'][:60], '... ->', rd[0])
        if rd[0] != 'OK' or mk[0] != 'OK' or ri[0] != 'OK':
            stale_bad = True
        else:
            for k, (row, frow, mrow) in enumerate(zip(rd[1], ri[1], mk[1])):
                for t, (x, y, m1) in enumerate(zip(row, frow, mrow)):
                    if m1 == 1.0 and not feq(x, y):
                        stale_bad = True
                        print('output %d step %d: %r in the re-used output array, %r in a fresh one' % (k, t, x, y))
            if not all(feq(x, y) for x, y in zip(rd[2], ri[2])):
                stale_bad = True
                print('final states differ:', rd[2], ri[2])
        print('re-used output array:', 'STALE CONTENT SURVIVES (VIOLATED)' if stale_bad else 'identical to the fresh run on every always-written element')
    sys.exit(0 if (good and not diff and not stale_bad) else 1)


def main():
    for i, a in enumerate(sys.argv):
        if a == '--replay' and i + 1 < len(sys.argv):
            replay(sys.argv[i + 1])
    c = Check('C12')
    try:
        impl_bin, model_bin = binaries(c)
    except BuildError as e:
        # the extracted model or the harness against /repo's working tree does not build: nothing can be compared
        log('BUILD BROKEN:', e.what); log(e.output[-2000:])
        c.violation('build_broken.json', {'kind': 'build-broken', 'what': e.what, 'output_tail': e.output[-3000:]}, no_input=True)
        c.finish(assumptions=['build of the model driver or of the Go harness failed; no case was run'])
    rng = c.rng
    quick = c.tier == 'quick'
    N = 400 if quick else 2500
    gens = [(gen_lumped, N), (gen_decay, N), (gen_fine, 2 * N), (gen_coarse, N // 3), (gen_particulate, N),
            (gen_trapping, N), (gen_trapall, N // 3), (gen_dissolved, N)]
    cases = corpus_cases()
    for g, k in gens:
        for _ in range(k):
            cases.append(g(rng, quick))
    # decay-enabled reservoir model and the dissolved-nutrient model: correspondence (+ oracle on the decay-disabled path)
    for _ in range(N // 4):
        cases.append(gen_dissolved(rng, quick, decay=True))
    have_dnd = 'InstreamDissolvedNutrientDecay' in open(os.path.join(OCAML, 'registry.d', 'c12.kernels')).read()
    if have_dnd:
        for _ in range(N // 2):
            cases.append(gen_dnd(rng, quick, decay=False))
        for _ in range(N // 2):
            cases.append(gen_dnd(rng, quick, decay=True))
    # Probe of the shared OCaml driver's libm: Coq's Float64 represents NaN by the SIGNALLING pattern
    # 0x7ff0000000000001, and C pow(sNaN, 0) is NaN while Go's math.Pow(NaN, 0) is 1.  If ocaml/driver.ml does not
    # quiet the NaN before calling pow, the degenerate-parameter stream would report a model artefact (not a
    # difference of algorithm), so it is skipped and the fact recorded in the evidence.
    probe = kcase('StorageParticulateTrapping', [86400.0, 0.0, 8.0, 0.0, 0.5, 0.0, 0.0], [0.0], [[1.0], [143.0], [1.0], [0.0]])
    pr = parse_kresult(run_lines(model_bin, [probe], crash_token='MODELCRASH')[0])
    driver_pow_snan_artefact = not (pr[0] == 'OK' and pr[1][0][0] == 0.0)
    if driver_pow_snan_artefact:
        log('NOTE: model driver evaluates pow(NaN, 0) as NaN (signalling NaN passed to libm); degenerate-parameter trapping stream skipped')
    else:
        for _ in range(N // 4):
            cases.append(gen_trapping_degenerate(rng, quick))
    lines = [cs.line() for cs in cases]
    impl = run_lines(impl_bin, lines, env=GOENV)
    model = run_lines(model_bin, lines, crash_token='MODELCRASH')
    # state trajectories of the implementation: prefix runs
    plines, pindex = [], []
    for i, cs in enumerate(cases):
        if cs.meta.get('decay'):
            continue
        for t in range(1, cs.n + 1):
            plines.append(cs.line(upto=t)); pindex.append((i, t))
    pres = run_lines(impl_bin, plines, env=GOENV)
    trajs = {}
    for (i, t), l in zip(pindex, pres):
        r = parse_kresult(l)
        trajs.setdefault(i, {})[t] = r[2] if r[0] == 'OK' else None
    orc = Oracle(c)
    nviol_before = 0
    per_model = {}
    for i, (cs, li, lm) in enumerate(zip(cases, impl, model)):
        ri, rm = parse_kresult(li), parse_kresult(lm)
        pm = per_model.setdefault(cs.model, {'cases': 0, 'steps': 0, 'mismatch': 0})
        pm['cases'] += 1; pm['steps'] += cs.n
        anyflow = cs.n > 0 and any(x > 0 for x in cs.inputs[0] + cs.inputs[1])
        c.count((cs.model, cs.params, cs.states, cs.inputs), nontrivial=anyflow)
        diff = agree(cs, ri, rm)
        if diff:
            # outside the kernels' domain only (a pole of a reported fraction): measured-sensitivity allowance, tools/condlib.py
            import condlib
            why = condlib.out_of_domain(cs.model, cs.params, cs.states, cs.inputs, rm)
            if why:
                pcs = condlib.perturbed(cs.params, cs.states, cs.inputs, key=cs.model)
                pr = [parse_kresult(x) for x in run_model([kcase(cs.model, p2, s2, i2) for (_, p2, s2, i2, _) in pcs])]
                if condlib.explained(ri, rm, pr, [w for (w, _, _, _, _) in pcs], info=ILL) is None:
                    ILL['accepted'] = ILL.get('accepted', 0) + 1
                    diff = None
        if diff:
            pm['mismatch'] += 1
            c.corr_broken.append({'model': cs.model, 'diff': diff, 'line': lines[i]})
            log('CORRESPONDENCE MISMATCH', cs.model, diff)
        if cs.meta.get('decay'):
            # decay-enabled variants: correspondence only (outside the statement of C12); record which loop branch ran
            if ri[0] == 'OK' and cs.model == 'InstreamDissolvedNutrientDecay':
                for t in range(cs.n):
                    orc.hit(cs.model, 'decay:travel-time>dt' if ri[1][0][t] != 0.0 or ri[1][3][t] != 0.0 else
                            ('decay:no-water-or-fast' if ri[1][1][t] == cs.states[0] + cs.inputs[0][t] + cs.inputs[1][t] else 'decay:travel-time<=dt'))
            if ri[0] == 'OK' and cs.model == 'StorageDissolvedDecay':
                for t in range(cs.n):
                    orc.hit(cs.model, 'decay:below-bankfull' if cs.inputs[2][t] < cs.params[3] else 'decay:flood')
            continue
        traj = [trajs.get(i, {}).get(t) for t in range(1, cs.n + 1)]
        good = oracle_case(c, orc, i, cs, ri, traj)
        if i % 173 == 0 and ri[0] == 'OK':
            c.sample({'model': cs.model, 'regime': cs.meta.get('regime'), 'steps': cs.n, 'dt': cs.dt,
                      'params': cs.params, 'initial_states': cs.states,
                      'inputs_first_8_steps': [r[:8] for r in cs.inputs],
                      'impl_outputs_first_8_steps': [r[:8] for r in ri[1]],
                      'impl_states_after_each_of_first_8_steps': traj[:8],
                      'final_states': ri[2], 'oracle_ok': good}, limit=6)
    # ---- output arrays holding old data (second run into the same array, sentinel pre-fill)
    impl_parsed = [parse_kresult(l) for l in impl]
    mlines = [kcase(cs.model + '#written', cs.params, cs.states, cs.inputs) for cs in cases]
    mres = [parse_kresult(l) for l in run_lines(model_bin, mlines, crash_token='MODELCRASH')]
    masks = [r[1] if r[0] == 'OK' else None for r in mres]
    slines, sindex = stale_lines(cases, impl_parsed)
    sres = run_lines(impl_bin, slines, env=GOENV)
    stale_stats = {'runs': 0, 'written_elements': 0, 'contrast_elements': 0, 'zeroed_contract_elements': 0,
                   'second_run_pairs': sum(1 for x in sindex if x[0] == 'second-run'),
                   'sentinel_runs': sum(1 for x in sindex if x[0] == 'sentinel')}
    check_stale(c, cases, impl_parsed, masks, trajs, slines, sindex, sres, stale_stats)
    c.cov['evaluations'] += stale_stats['runs']
    c.cov['rule'] = ('per model: non-negative load series (zero/constant/random/pulse/sparse/large) x hydrology regimes '
                     '(steady, dry, near-empty around MINIMUM_VOLUME, exactly-at-threshold, intermittent, pulse, storm, zero-flow pond, '
                     'zero-storage river) x time steps in [1,86400] x random initial stored masses x parameters over their documented / '
                     'physical ranges incl. both sides of every branch (bank-full 0 / >0 / outflow below, at, above bank-full; deposition, '
                     'remobilisation, neither; half-life on/off; deposition signal >=0 / <0; trapping 0, partial, 100 %; decay disabled); '
                     'a quarter of the cases of every kernel with a pow/exp of a RATIO of two parameters (DeltaT/halfLife, 86400/durationInSeconds '
                     'and uptakeVelocity/depth, medianFloodResidenceTime/5, settling area / flood flow, the sedimentation index) draw that ratio '
                     'from a structured set -- exact integers 1,2,3,10,52,53,63,64,65,96,128,1023,1024,1074,1075,2000 and their reciprocals, exact '
                     'powers of two, exactly 1, very large and very small ratios -- with round (1, 60, 3600, 86400) and arbitrary time steps '
                     '(regime prefix structured-ratio/); '
                     'each case is run through sim.Catalog and through the extracted Coq kernel (bit-exact, or rtol 1e-9 where pow/exp occur) '
                     'and the implementation is re-run on every prefix to observe the state after each step; every case is also '
                     'run into an output array pre-filled with a sentinel (finite, NaN) and as the second run into the output array of a '
                     'contrasting case of the same model and length (wet after dry, dry after wet), and compared bit-for-bit with the '
                     'fresh run on every element the model footprint marks as always written (these re-runs are counted in evaluations, '
                     'not in distinct_nontrivial); '
                     'non-trivial = at least one positive load in the first two input series')
    chk = None
    if not quick:
        # thorough tier: independent re-check of the compiled proofs of the whole dependency closure
        try:
            sh('timeout 2400 coqchk -silent -o -Q . OW OW.Properties.C12', cwd=COQ, timeout=2500)
            chk = 'coqchk -silent -o -Q . OW OW.Properties.C12 : passed'
        except BuildError as e:
            chk = 'coqchk FAILED'
            if not c.proof_broken:
                c.proof_broken = ('coqchk OW.Properties.C12', e.output[-3000:])
    not_reproduced = sorted(k['id'] for k in c.known if k['id'] not in c.known_hits)
    c.finish(extra_cov={'out_of_domain_cases_accepted_by_measured_sensitivity': dict(ILL), 'reused_output_arrays': stale_stats, 'driver_pow_snan_artefact_stream_skipped': driver_pow_snan_artefact, 'coqchk': chk, 'known_findings_not_reproduced_this_run': not_reproduced, 'per_model': per_model, 'branch_hits': dict(sorted(orc.branches.items())),
                        'prefix_runs': len(plines), 'exhaustive': False,
                        'oracle': 'per-step and cumulative mass budget (rtol 1e-9), loss only when working volume < 0.01, '
                                  'non-negative downstream loads and stores, remobilisation <= channel store'},
             assumptions=['theorems are over exact reals; float round-off is covered by the tested oracle with relative tolerance 1e-9',
                          'OCaml libm pow/exp stands in for Go math.Pow/math.Exp (tolerance 1e-9) in ConstituentDecay, InstreamFineSediment, '
                          'StorageParticulateTrapping, InstreamDissolvedNutrientDecay',
                          'StorageTrapAll has no time-step parameter: its budget is evaluated with the catalogue default step of 86400 s',
                          'sim.Catalog generated wrappers are exercised, not modelled (see C04)',
                          'contract "outputs arrive zeroed" (sim.InitialiseOutputs): the following output elements are NOT written by the '
                          'Go functions in every execution and are only correct in a zero-initialised output array (footprint 0 in '
                          'Kernels/C12Written.v; proved to be 0.0 in the model): ConstituentDecay.decayedLoad when halfLife <= 0; '
                          'InstreamFineSediment loadToFloodplain, loadToChannelDeposition, floodplainDepositionFraction, channelDepositionFraction '
                          'when bankFullFlow <= 1e-8; InstreamParticulateNutrient.loadDeposited on a step flushed below the minimum volume; '
                          'StorageTrapAll.outflowMass; StorageDissolvedDecay.decayedMass with decay disabled; '
                          'InstreamDissolvedNutrientDecay decayedLoad and loadToFloodplain (and, with decay enabled, decayedLoad / '
                          'loadFromPointSource except on the slow-travel branch). Every other output element of the nine models is required to be '
                          'independent of the previous content of the output array (tested by the reused-output-array stream)'])


if __name__ == '__main__':
    main()
