#!/usr/bin/env python3
"""C17 check: the JSON single-model runner (sim/single.go, io/json/json.go, cmd/ow-single).

 * theorems in coq/Properties/C17.v (Json/*Proofs.v);
 * structured request stream over ALL catalogued models: every request is executed by
   sim.RunSingleModelJSON in its own process (harness/cmd/jsonrun) and the property is
   evaluated on the implementation's output: exactly one valid JSON document, exit 0,
   log entries as specified, outputs/states bit-equal to a direct one-cell run through the
   model API (same harness, no model involved), NaN/+Inf/-Inf strings;
 * correspondence: the extracted Coq model (run_single, json_safe_array) on the same
   requests / views (kernels from the OCaml registry where one is registered);
 * JsonSafeArray on generated views (reshaped / sliced / stepped, 1-4 dims, all shifts);
 * malformed stream (fuzzing, labelled so): truncated, mutated and random byte strings.
"""
import sys, os, base64, json, math
sys.path.insert(0, os.path.dirname(os.path.abspath(__file__)))
from vlib import *

JSONRUN = os.path.join(HARNESS, 'bin', 'jsonrun')
OWSINGLE = os.path.join(HARNESS, 'bin', 'ow-single')


def b64(b):
    return base64.b64encode(b if isinstance(b, bytes) else b.encode()).decode() or '-'   # '-' = empty request


def fields(line):
    """'R exit=.. docs=.. raw=.. panic=.. doc=<json>' -> dict"""
    head, _, doc = line.partition(' doc=')
    f = dict(x.split('=', 1) for x in head.split(' ')[1:])
    f['doc'] = json.loads(doc) if doc else None
    return f


def leaf(h):
    x = h2f(h)
    if x != x:
        return 's:NaN'
    if x == math.inf:
        return 's:+Inf'
    if x == -math.inf:
        return 's:-Inf'
    return 'n:' + h


def parse_direct(line):
    """OK O nout len hex.. S n hex.. INIT n hex.. -> (outs rows of hex, final states hex, init hex) | None"""
    t = line.split()
    if not t or t[0] != 'OK':
        return None
    nout, ln = int(t[2]), int(t[3])
    p = 4
    outs = [t[p + i * ln:p + (i + 1) * ln] for i in range(nout)]
    p += nout * ln
    ns = int(t[p + 1])
    sts = t[p + 2:p + 2 + ns]
    p += 2 + ns
    ni = int(t[p + 1])
    init = t[p + 2:p + 2 + ni]
    return outs, sts, init


# ------------------------------------------------------------------ crash classes
# A crash of the runner on a well-formed request naming a catalogued model is a failure
# of the property.  Classes are identified by model + trigger; a crash outside every
# listed trigger gets the key crash:<Model>:unclassified (never a known finding).
NAN_GUARDS = ('panic: outflow is nan', 'panic: NAN!', 'panic: delta is NaN', 'panic: nan')


def date_invalid(P, L, ins, pmsg):
    m = P.get('startMonth', 0.0)
    return L > 0 and not (1 <= int(m) <= 12)


TRIGGERS = {
    'DateGenerator': [('invalid-start-month', date_invalid)],
    'GR4J': [('x4-out-of-range', lambda P, L, ins, pmsg: P.get('X4', 0.0) <= 0.0 or P.get('X4', 0.0) >= 2.0 ** 31)],
    'RatingCurvePartition': [('table-never-dimensioned', lambda P, L, ins, pmsg: L > 0)],
    'Storage': [('table-never-dimensioned', lambda P, L, ins, pmsg: True)],
    'Lag': [('lag-out-of-range', lambda P, L, ins, pmsg: P.get('timeLag', 0.0) < 0.0 or P.get('timeLag', 0.0) >= 2.0 ** 31)],
    'StorageRouting': [('nan-guard-panic', lambda P, L, ins, pmsg: pmsg.strip() in NAN_GUARDS)],
}


def crash_key(model, P, L, ins, split, direct, nnames, pmsg):
    """key of a crash / missing document for a request naming catalogued model [model]"""
    if direct is not None and split and len(direct[1]) < nnames:
        return 'split-states-short:%s' % model
    for name, pred in TRIGGERS.get(model, []):
        try:
            if pred(P, L, ins, pmsg):
                return 'crash:%s:%s' % (model, name)
        except Exception:
            pass
    return 'crash:%s:unclassified' % model


# ------------------------------------------------------------------ generators
class Gen:
    def __init__(self, rng, desc):
        self.rng = rng
        self.desc = desc
        self.by_name = {m['Name']: m for m in desc}

    def pvalue(self, model, p, wild=False):
        rng = self.rng
        lo, hi = h2f(p['Lo']), h2f(p['Hi'])
        name = p['Name']
        if wild:
            return rng.choice([-1.0, 0.0, -rng.uniform(0, 100), rng.uniform(0, 1e6), 1e308, -1e308, 1e-300,
                               float(rng.randint(-5, 50)), rng.uniform(lo, hi) if lo < hi else 3.5])
        if model == 'DateGenerator':
            return float({'startDate': rng.randint(1, 28), 'startMonth': rng.randint(1, 12),
                          'startYear': rng.randint(1890, 2110)}[name])
        if name == 'timeLag':
            return float(rng.randint(1, 4))
        if model == 'StorageRouting' and name in ('InflowBias', 'RoutingConstant', 'RoutingPower'):
            # no range is declared for these; stay inside the documented meaning (bias in [0,1), k > 0, m around 1)
            return {'InflowBias': rng.choice([0.0, rng.uniform(0, 0.9)]), 'RoutingConstant': rng.uniform(0.1, 100.0),
                    'RoutingPower': rng.choice([1.0, rng.uniform(0.5, 1.5)])}[name]
        if name in ('nPts', 'nLVA'):
            return float(rng.choice([0, 1]))
        if lo < hi:
            return rng.choice([lo, hi, rng.uniform(lo, hi), rng.uniform(lo, hi), rng.uniform(lo, hi)])
        return rng.choice([0.0, 1.0, 0.5, rng.uniform(0, 10), rng.uniform(0, 100), h2f(p['Default'])])

    def series(self, L, regime=None):
        rng = self.rng
        regime = regime or rng.choice(['dry', 'wet', 'mixed', 'pulse', 'ints'])
        if regime == 'dry':
            return [0.0] * L
        if regime == 'wet':
            return [rng.uniform(0, 50) for _ in range(L)]
        if regime == 'pulse':
            k = rng.randrange(L) if L else 0
            return [rng.uniform(10, 200) if i == k else 0.0 for i in range(L)]
        if regime == 'ints':
            return [float(rng.randint(0, 9)) for _ in range(L)]
        return [rng.choice([0.0, rng.uniform(0, 5), rng.uniform(0, 50)]) for _ in range(L)]

    def structured(self, m, wild=False, force=None):
        """-> case dict with the request document (text) and its decoded form"""
        rng = self.rng
        ps = m['Parameters'] or []
        kind = force or rng.choice(['full', 'full', 'subset', 'subset', 'superset', 'shuffled', 'dups',
                                    'shorter', 'longer', 'noinputs', 'nullvalues', 'empty', 'someinputs'])
        # parameters: (name, value) list as written in the document (first match wins)
        if kind == 'full' or rng.random() < 0.4:
            plist = [(p['Name'], self.pvalue(m['Name'], p, wild)) for p in ps]
        else:
            plist = [(p['Name'], self.pvalue(m['Name'], p, wild)) for p in ps if rng.random() < 0.6]
        # keep models whose defaults are a crash trigger inside their domain unless exploring it
        if not wild:
            have = {n for n, _ in plist}
            for p in ps:
                if (m['Name'] in ('DateGenerator', 'StorageRouting') or p['Name'] in ('X4', 'timeLag')) and p['Name'] not in have:
                    plist.append((p['Name'], self.pvalue(m['Name'], p)))
        if kind in ('superset', 'dups') or rng.random() < 0.15:
            plist.append(('zz_unknown_%d' % rng.randint(0, 9), rng.uniform(-5, 5)))
        if kind == 'dups' and plist:
            n, v = rng.choice(plist)
            plist.append((n, v + 1.0))          # later duplicate: ignored by Find
        if kind in ('shuffled', 'superset', 'dups') or rng.random() < 0.3:
            # shuffling must keep the first occurrence of a duplicated name first
            firsts = {}
            for n, v in plist:
                firsts.setdefault(n, v)
            rng.shuffle(plist)
            seen = set()
            fixed = []
            for n, v in plist:
                if n not in seen:
                    fixed.append((n, firsts[n]))
                    seen.add(n)
                else:
                    fixed.append((n, v + 7.0))
            plist = fixed
        L = rng.choice([0, 1, 2, 7, 40] if not self.quick else [0, 1, 2, 7, 7, 40])
        if kind == 'empty':
            L = 0
        elif L == 0 and rng.random() < 0.7:
            L = 3
        ilist = []                                # (name, values | None)
        names = list(m['Inputs'])
        for n in names:
            if kind in ('subset', 'someinputs') and rng.random() < 0.4:
                continue
            ilist.append([n, self.series(L)])
        if kind == 'noinputs':
            ilist = []
        if kind == 'nullvalues' and ilist:
            for it in ilist:
                if rng.random() < 0.5:
                    it[1] = None
        if kind == 'shorter' and ilist:
            it = rng.choice(ilist)
            it[1] = self.series(max(0, L - rng.randint(1, 2)))
        if kind == 'longer' and ilist:
            it = rng.choice(ilist)
            it[1] = self.series(L + rng.randint(1, 3))
        if kind in ('superset', 'dups') or rng.random() < 0.1:
            ilist.append(['zz_extra_input', self.series(rng.choice([L, L + 2]))])
        if kind == 'dups' and ilist:
            n, v = rng.choice(ilist)
            ilist.append([n, self.series(L + 1)])    # later duplicate: ignored
        if kind in ('shuffled', 'superset') or rng.random() < 0.3:
            firsts = {}
            for n, v in ilist:
                firsts.setdefault(n, v)
            rng.shuffle(ilist)
            seen = set()
            for it in ilist:
                if it[0] not in seen:
                    seen.add(it[0])
                    it[1] = firsts[it[0]]
        slist = []
        if rng.random() < 0.25:
            slist = [(s, rng.uniform(0, 10)) for s in m['States']]
        return self.finish(m['Name'], plist, ilist, slist, kind, wild)

    def member(self, m, mode, L, split):
        """one request of a session.  mode: 'supplied' (every parameter given, different from its default and from 0
        where the range allows), 'omitted' (defaults), 'zero' (exactly 0, or the lower range end when 0 is outside
        the declared range), 'end' (upper range end), 'mixed' (per parameter one of these).  Parameters whose default /
        zero value is a known crash trigger of the model itself (DateGenerator date, GR4J X4, Lag timeLag,
        StorageRouting shape parameters) always stay inside their domain."""
        rng = self.rng
        plist = []
        modes = []
        for p in (m['Parameters'] or []):
            lo, hi, dflt = h2f(p['Lo']), h2f(p['Hi']), h2f(p['Default'])
            if m['Name'] in ('DateGenerator', 'StorageRouting') or p['Name'] in ('X4', 'timeLag'):
                plist.append((p['Name'], self.pvalue(m['Name'], p)))
                continue
            md = mode if mode != 'mixed' else rng.choice(['supplied', 'omitted', 'zero', 'end'])
            modes.append(md)
            if md == 'omitted':
                continue
            if md == 'supplied':
                v = dflt
                for _ in range(8):
                    v = self.pvalue(m['Name'], p)
                    if v != dflt and v != 0.0:
                        break
                if v == dflt or v == 0.0:
                    v = (lo + hi) / 2 if lo < hi and (lo + hi) / 2 not in (dflt, 0.0) else dflt + 1.5
            elif md == 'zero':
                v = 0.0 if (lo <= 0.0 <= hi or not lo < hi) else lo
            else:
                v = hi if lo < hi else 1.0
            plist.append((p['Name'], v))
        ilist = []
        for n in m['Inputs']:
            if mode == 'mixed' and len(m['Inputs']) > 1 and rng.random() < 0.1:
                continue
            ilist.append([n, self.series(L, rng.choice(['wet', 'wet', 'ints', 'mixed']))])
        rng.shuffle(ilist)
        cs = self.finish(m['Name'], plist, ilist, [], 'session')
        cs['split'] = split
        cs['modes'] = modes
        return cs

    def large(self, m, size, kind='large'):
        """a request for model m whose JSON text is EXACTLY [size] bytes: all inputs supplied as long series of
        full-precision values (as many time steps as fit), in-range parameters, and the remainder made up with
        insignificant spaces after the opening brace.  Returns the case with its decoded form."""
        import bisect, itertools
        rng = self.rng
        ps = m['Parameters'] or []
        plist = [(p['Name'], self.pvalue(m['Name'], p)) for p in ps]
        names = list(m['Inputs'])
        rng.shuffle(names)
        head = '{"Name": %s, "Parameters": %s, "Inputs": [' % (
            json.dumps(m['Name']), json.dumps([{'Name': n, 'Value': v} for n, v in plist]))
        frames = ['{"Name": %s, "Values": [' % json.dumps(n) for n in names]
        base = len(head) + sum(len(f) + 2 for f in frames) + 2 * (len(names) - 1) + 2
        nmax = max(1, (size - base) // (len(names) * 16) + 2)
        vals = [[rng.choice([rng.uniform(0, 50), rng.uniform(0, 5), rng.random()]) for _ in range(nmax)] for _ in names]
        reprs = [[repr(x) for x in v] for v in vals]
        step_cost = [sum(len(r[t]) + 2 for r in reprs) for t in range(nmax)]
        cum = list(itertools.accumulate(step_cost))
        # total(n) = base + cum[n-1] - 2*len(names)   (no separator after the last value of each series)
        n = bisect.bisect_right(cum, size - base + 2 * len(names))
        if n == 0:
            n, pad = 1, 0
        body = ', '.join(f + ', '.join(r[:n]) + ']}' for f, r in zip(frames, reprs))
        text = head + body + ']}'
        pad = max(0, size - len(text))
        text = '{' + ' ' * pad + text[1:]
        return {'model': m['Name'], 'kind': kind, 'wild': False, 'params': plist,
                'inputs': [[nm, v[:n]] for nm, v in zip(names, vals)], 'states': [], 'text': text,
                'split': rng.choice([0, 1]), 'large': True, 'steps': n}

    def finish(self, name, plist, ilist, slist, kind, wild=False):
        rng = self.rng
        doc = {}
        if name is not None:
            doc['Name'] = name
        inp = []
        for n, v in ilist:
            if v is None:
                inp.append({'Name': n, 'Values': None} if rng.random() < 0.5 else {'Name': n})
            else:
                inp.append({'Name': n, 'Values': v})
        doc['Inputs'] = inp
        if slist or rng.random() < 0.5:
            doc['States'] = [{'Name': n, 'Value': v} for n, v in slist]
        doc['Parameters'] = [{'Name': n, 'Value': v} for n, v in plist]
        keys = list(doc)
        rng.shuffle(keys)
        text = json.dumps({k: doc[k] for k in keys})
        return {'model': name, 'kind': kind, 'wild': wild, 'params': plist, 'inputs': ilist, 'states': slist,
                'text': text, 'split': rng.choice([0, 1])}


def find_first(pairs, name):
    for n, v in pairs:
        if n == name:
            return True, v
    return False, None


def expectation(case, by_name):
    """spec-level reading of a decoded request (the property text), independent of the model"""
    name = case['model']
    if name is None or name == '':
        return {'cls': 'noname'}
    m = by_name.get(name)
    if m is None:
        return {'cls': 'unknown'}
    ps = m['Parameters'] or []
    col, plog = [], []
    for p in ps:
        ok, v = find_first(case['params'], p['Name'])
        if ok:
            col.append(float(v))
        else:
            col.append(h2f(p['Default']))
            plog.append(['default', p['Name'], '%f' % h2f(p['Default'])])
    found, ilog = [], []
    for n in m['Inputs']:
        ok, v = find_first(case['inputs'], n)
        if ok and v is not None:
            found.append((n, v))
        else:
            ilog.append(['missing', n])
    e = {'m': m, 'col': col, 'plog': plog, 'ilog': ilog, 'found': found,
         'P': {p['Name']: c for p, c in zip(ps, col)}}
    if not found:
        e['cls'] = 'noinputs'
        return e
    L = len(found[0][1])
    for n, v in found[1:]:
        if len(v) != L:
            e['cls'] = 'length'
            e['bad'] = ['length', n, str(len(v)), str(L)]
            return e
    e['cls'] = 'run'
    e['L'] = L
    fm = dict(found)
    e['rows'] = [fm.get(n, [0.0] * L) for n in m['Inputs']]
    return e


def direct_line(e, dims=1):
    m = e['m']
    return 'DIRECT %d %s P %d %s I %d %d %s' % (dims, m['Name'], len(e['col']), ' '.join(f2h(x) for x in e['col']),
                                                len(e['rows']), e['L'], ' '.join(f2h(x) for r in e['rows'] for x in r))


def inits_line(e):
    m = e['m']
    return 'INITS %s P %d %s' % (m['Name'], len(e['col']), ' '.join(f2h(x) for x in e['col']))


def rs_line(case, e, by_name, init_line, decoded=True):
    """the model-side command for this request (catalog = the named model only)"""
    m = by_name.get(case['model'] or '')
    parts = ['RS', str(case['split']), '1' if decoded else '0', 'CAT']
    if m is None:
        parts.append('NONE')
    else:
        ps = m['Parameters'] or []
        parts += ['=' + m['Name'], 'NP', str(len(ps))]
        for p in ps:
            parts += ['=' + p['Name'], p['Default']]
        for tag, names in (('NI', m['Inputs']), ('NS', m['States']), ('NO', m['Outputs'])):
            parts += [tag, str(len(names))] + ['=' + n for n in names]
        if init_line and init_line.startswith('OK'):
            t = init_line.split()
            parts += ['INIT', t[2]] + t[3:3 + int(t[2])]
        else:
            parts += ['INIT', 'NONE']
    parts += ['REQ', '=' + (case['model'] or ''), 'NI', str(len(case['inputs']))]
    for n, v in case['inputs']:
        if v is None:
            parts += ['=' + n, 'N']
        else:
            parts += ['=' + n, str(len(v))] + [f2h(x) for x in v]
    parts += ['NS', str(len(case['states']))]
    for n, v in case['states']:
        parts += ['=' + n, f2h(v)]
    parts += ['NP', str(len(case['params']))]
    for n, v in case['params']:
        parts += ['=' + n, f2h(v)]
    return ' '.join(parts)


# ------------------------------------------------------------------ model-side output -> canonical doc
def parse_jv(s, i=0):
    """'[n..,[..]]' / '{=k:v,..}' / 'n<hex>' / 's<text>' / 'null' -> python value in the harness' canonical form"""
    c = s[i]
    if c == '[':
        i += 1
        out = []
        if s[i] == ']':
            return out, i + 1
        while True:
            v, i = parse_jv(s, i)
            out.append(v)
            if s[i] == ',':
                i += 1
            else:
                return out, i + 1
    if c == '{':
        i += 1
        out = {}
        if s[i] == '}':
            return out, i + 1
        while True:
            j = s.index(':', i)
            k = s[i + 1:j]
            v, i = parse_jv(s, j + 1)
            out[k] = v
            if s[i] == ',':
                i += 1
            else:
                return out, i + 1
    j = i
    while j < len(s) and s[j] not in ',]}':
        j += 1
    tok = s[i:j]
    if tok == 'null':
        return None, j
    if tok[0] == 'n':
        return 'n:' + tok[1:], j
    return 's:' + tok[1:], j


def parse_model_log(toks):
    n = int(toks[1])
    out = []
    for t in toks[2:2 + n]:
        k, _, rest = t.partition(':=')
        if k in ('blank', 'decode', 'noname', 'noinputs'):
            out.append([k])
        elif k == 'default':
            nm, _, h = rest.rpartition(':')
            out.append(['default', nm, '%f' % h2f(h)])
        elif k in ('missing', 'unknown'):
            out.append([k, rest])
        elif k == 'length':
            nm, g, ex = rest.rsplit(':', 2)
            out.append(['length', nm, g, ex])
    return out, toks[2 + n:]


def values_agree(a, b, rtol, atol):
    """canonical value trees equal (numbers within tolerance; strings and structure exactly)"""
    if isinstance(a, list) and isinstance(b, list):
        return len(a) == len(b) and all(values_agree(x, y, rtol, atol) for x, y in zip(a, b))
    if isinstance(a, dict) and isinstance(b, dict):
        return a.keys() == b.keys() and all(values_agree(a[k], b[k], rtol, atol) for k in a)
    if isinstance(a, str) and isinstance(b, str):
        if a.startswith('n:') and b.startswith('n:'):
            return feq(h2f(a[2:]), h2f(b[2:]), rtol, atol)
        return a == b
    return a is None and b is None


# ------------------------------------------------------------------ JSA cases
def gen_jsa(rng, quick):
    """views: ARange(n) reshaped to 1-4 dims, 0-2 slices with steps, all shift dims (+ out of range)"""
    cases = []
    count = 260 if quick else 4000
    while len(cases) < count:
        nd = rng.choice([1, 2, 2, 3, 3, 4])
        dims = [rng.choice([1, 2, 3, 4, 5]) for _ in range(nd)]
        if rng.random() < 0.05:
            dims[rng.randrange(nd)] = 0
        n = 1
        for d in dims:
            n *= d
        nf = []
        for _ in range(rng.choice([0, 0, 1, 3])):
            if n:
                nf.append((rng.randrange(n), rng.choice([1, 2, 3, 4])))
        cur = list(dims)
        chain = []
        for _ in range(rng.choice([0, 1, 1, 2])):
            loc, sd, st = [], [], []
            for ax in range(nd):
                ext = cur[ax]
                if ext == 0:
                    loc.append(0); sd.append(0); st.append(1)
                    continue
                step = rng.choice([1, 1, 2, 3])
                lo = rng.randrange(ext)
                maxn = (ext - lo + step - 1) // step
                k = rng.randint(1, maxn)
                loc.append(lo); sd.append(k); st.append(step)
            chain.append((loc, sd, st))
            cur = sd
        shifts = list(range(nd)) + ([nd] if rng.random() < 0.1 else []) + ([-1] if rng.random() < 0.05 else [])
        for sh in shifts:
            line = 'JSA %d NF %d %s R %d %s C %d %s SH %d' % (
                n, len(nf), ' '.join('%d %d' % x for x in nf), nd, ' '.join(map(str, dims)), len(chain),
                ' '.join(' '.join(map(str, a + b + c)) for a, b, c in chain), sh)
            cases.append({'line': ' '.join(line.split()), 'dims': cur, 'shift': sh, 'nd': nd, 'chain': len(chain),
                          'stepped': any(s != 1 for c in chain for s in c[2])})
    return cases


def nest_expected(dims, elems, pos=0):
    """nested canonical string of a row-major element list"""
    if not dims:
        return leaf(elems[pos]).replace(':', '', 1), 1
    parts = []
    size = 1
    for d in dims[1:]:
        size *= d
    for i in range(dims[0]):
        s, _ = nest_expected(dims[1:], elems, pos + i * size)
        parts.append(s)
    return '[' + ','.join(parts) + ']', size * dims[0]


# ------------------------------------------------------------------ main
def main():
    c = Check('C17')
    c.prove()
    try:
        # private driver: this component plus every component that registers kernels (the models' one-cell kernels are
        # looked up by Go catalogue name at run time); if one of those does not build, run without kernels (the model
        # comparison of runnable requests is then skipped and counted)
        kcomps = sorted({os.path.basename(f)[:-len('.kernels')] for f in glob.glob(os.path.join(OCAML, 'registry.d', '*.kernels'))})
        try:
            build_driver(components=kcomps + ['c17'])
            driver_components = kcomps + ['c17']
        except BuildError as e1:
            log('kernel components do not build, using the C17 model alone:', e1.what)
            build_driver(components=['c17'])
            driver_components = ['c17']
        build_harness(['jsonrun'])
    except BuildError as e:
        # the extracted model or the harness against /repo's working tree does not build: nothing can be compared
        log('BUILD BROKEN:', e.what)
        log(e.output[-2000:])
        c.violation('build_broken.json', {'kind': 'build-broken', 'what': e.what, 'output_tail': e.output[-3000:]}, no_input=True)
        c.finish(assumptions=['build of the model driver or of the Go harness failed; no case was run'])
    try:
        with vlib_lock():
            sh(['go', 'build', '-o', OWSINGLE, 'github.com/flowmatters/openwater-core/cmd/ow-single'],
               cwd=HARNESS, env=GOENV, timeout=1800)
        have_owsingle = True
    except BuildError as e:
        log('ow-single did not build:', e.output[-400:])
        have_owsingle = False
    env = dict(GOENV, JSONRUN_OWSINGLE=OWSINGLE)
    rng = c.rng
    quick = c.tier == 'quick'
    coqchk = 'not run (quick tier)'
    if not quick and not c.proof_broken:
        try:
            o = sh('timeout 2400 coqchk -silent -o -Q . OW OW.Properties.C17', cwd=COQ, timeout=2500)
            coqchk = 'ok: ' + ' '.join(x.strip() for x in o.split('\n') if x.strip().startswith('* Axioms'))
        except BuildError as e:
            coqchk = 'FAILED'
            c.proof_broken = ('coqchk OW.Properties.C17', e.output[-3000:])

    def impl(lines):
        return run_lines(JSONRUN, lines, env=env, timeout=3000)

    desc = json.loads(impl(['DESCRIBE'])[0])
    by_name = {m['Name']: m for m in desc}
    dup_names = [m['Name'] for m in desc
                 if len(set(m['Outputs'])) != len(m['Outputs']) or len(set(m['States'])) != len(m['States'])]
    g = Gen(rng, desc)
    g.quick = quick

    # ---------------------------------------------------------------- structured stream
    cases = []
    per_model = 10 if quick else 150
    for m in desc:
        cases.append(g.structured(m, force='full'))
        for _ in range(per_model):
            cases.append(g.structured(m))
    # unknown / empty / absent model name
    for nm in ('NoSuchModel', '', None, 'gr4j', 'Sum.'):
        for _ in range(2 if quick else 10):
            base = g.structured(rng.choice(desc))
            cs = g.finish(nm, base['params'], base['inputs'], base['states'], 'badname')
            cases.append(cs)
    # the two requests that crashed the runner before the fix 3390dc3 (kept as a fixed corpus)
    for split in (0, 1):
        for ins in ([], [['zz_other', [1.0]]], [['i1', [1.0, 2.0]], ['i2', [1.0, 2.0, 3.0]]],
                    [['i1', [1.0, 2.0, 3.0]], ['i2', [1.0]]], [['i2', [5.0]], ['i1', []]]):
            cs = g.finish('Sum', [], ins, [], 'corpus')
            cs['split'] = split
            cases.append(cs)
    # non-finite results (all three classes) through overflow
    for split in (0, 1):
        cs = g.finish('EmcDwc', [('EMC', 1e308), ('DWC', -1e308)],
                      [['quickflow', [10.0, 0.0, 1.0]], ['baseflow', [10.0, 1.0, 0.0]]], [], 'nonfinite')
        cs['split'] = split
        cases.append(cs)
        cs = g.finish('ApplyScalingFactor', [('scale', 1e308)], [['input', [10.0, -10.0, 0.0, 1e-308]]], [], 'nonfinite')
        cs['split'] = split
        cases.append(cs)
        cs = g.finish('Sum', [], [['i1', [1e308, -1e308, 1.0]], ['i2', [1e308, -1e308, -1.0]]], [], 'nonfinite')
        cs['split'] = split
        cases.append(cs)
    # small separate out-of-range stream (wild parameter values)
    for m in desc:
        for _ in range(2 if quick else 25):
            cases.append(g.structured(m, wild=True, force=rng.choice(['full', 'subset'])))
    # large-request stream: the property holds for ANY series length, so requests whose text is just below / at /
    # just above 64 KiB, 1 MiB, 4 MiB (thorough: more sizes up to 16 MiB+) -- long full-precision series for
    # models with 1, 2, 5 and 8 inputs -- are answered and compared with the direct run like every other request;
    # also with trailing whitespace and with a second document after the request (Decode reads one value)
    KiB, MiB = 1 << 10, 1 << 20
    big_models = [by_name[n] for n in ('ApplyScalingFactor', 'EmcDwc', 'Muskingum', 'ConstituentDecay',
                                       'InstreamParticulateNutrient') if n in by_name]
    rng.shuffle(big_models)
    plan = [(64 * KiB, -1, 'plain'), (64 * KiB, +1, 'plain'), (MiB, -1, 'plain'), (MiB, 0, 'plain'), (MiB, +1, 'plain'),
            (MiB, -1, 'trailing-ws'), (MiB, +1, 'second-doc'), (4 * MiB, -1, 'plain'), (4 * MiB, +1, 'plain')]
    if not quick:
        plan += [(128 * KiB, +1, 'plain'), (256 * KiB, -1, 'second-doc'), (512 * KiB, +1, 'trailing-ws'), (2 * MiB, +1, 'plain'),
                 (3 * MiB, 0, 'plain'), (4 * MiB, +1, 'second-doc'), (8 * MiB, -1, 'plain'), (8 * MiB, +1, 'trailing-ws'),
                 (16 * MiB, -1, 'plain'), (16 * MiB, +1, 'plain'), (rng.randint(5 * MiB, 20 * MiB), 0, 'plain')]
    small_doc = '{"Name": "Sum", "Inputs": [{"Name": "i1", "Values": [1, 2]}, {"Name": "i2", "Values": [3, 4]}]}'
    large_cases = []
    for k, (target, side, variant) in enumerate(plan):
        if not big_models:
            break
        size = target + side * rng.randint(1, 48)
        cs = g.large(big_models[k % len(big_models)], size, 'large-' + variant)
        cs['doc_bytes'] = len(cs['text'])
        if variant == 'trailing-ws':
            # the document ends before the boundary, the stream goes on past it
            cs['text'] += ''.join(rng.choice(' \n\t\r') for _ in range(rng.randint(60, 400)))
        elif variant == 'second-doc':
            cs['text'] += '\n' + small_doc + '\n'
        cs['stream_bytes'] = len(cs['text'])
        cases.append(cs)
        large_cases.append(cs)
    if have_owsingle:
        for cs in cases:
            if cs['split'] == 1 and rng.random() < 0.2:
                cs['via'] = 'ow-single'
    # one reader handed to RunSingleModelJSON twice: every call must write exactly one document, the first one the
    # answer to the first request (what the second call sees is whatever the first decoder left unread)
    reuse_cases = []
    for _ in range(4 if quick else 40):
        base = g.structured(by_name[rng.choice(['Sum', 'EmcDwc', 'ApplyScalingFactor', 'FixedPartition'])], force='full')
        base['text'] += rng.choice(['\n', ' ', '']) + rng.choice([small_doc, base['text'], '{"Name": "Nope"}', 'garbage', ''])
        base['via'] = 'reuse-reader'
        base['kind'] = 'reuse-reader'
        cases.append(base)
        reuse_cases.append(base)
    if big_models:
        cs = g.large(big_models[-1], 64 * KiB + rng.randint(1, 500), 'reuse-reader')
        cs['doc_bytes'] = len(cs['text'])
        cs['text'] += '\n' + small_doc
        cs['stream_bytes'] = len(cs['text'])
        cs['via'] = 'reuse-reader'
        cases.append(cs)
        reuse_cases.append(cs)
        large_cases.append(cs)

    # session stream: k = 2..6 requests served by ONE process, one call of RunSingleModelJSON per request (a
    # long-lived service).  Every member is also an ordinary case (fresh process, direct run, model), and its answer
    # inside the session must be byte-identical to the answer it gets alone: nothing may carry over between calls.
    pool = [m for m in desc if not m['Dimensions']]
    by_nout = {}
    for m in pool:
        by_nout.setdefault(len(m['Outputs']), []).append(m)
    sessions = []
    def new_session(members, kind, split):
        for cs in members:
            cs['split'] = split
        sessions.append({'members': members, 'kind': kind, 'split': split})
        cases.extend(members)
    for rep in range(1 if quick else 6):
        for m in pool:
            # the same model again and again: everything supplied, then defaults, then exactly 0 / range ends, then mixtures;
            # the same series length first (same array sizes), then other lengths
            k = rng.randint(2, 6)
            split = rng.choice([0, 1])
            L = rng.choice([1, 2, 3, 7, 40])
            order = ['supplied', 'omitted', 'zero'] if rng.random() < 0.7 else ['supplied', 'zero', 'omitted']
            seq = (order + ['mixed'] * 3)[:k] if k > 2 else ['supplied', rng.choice(['omitted', 'zero'])]
            members = []
            for j, md in enumerate(seq):
                Lj = L if j < 3 or rng.random() < 0.5 else rng.choice([1, 2, 3, 7, 40])
                members.append(g.member(m, md, Lj, split))
            new_session(members, 'same-model', split)
    for _ in range(14 if quick else 150):
        # different models interleaved, preferably with equally many outputs and equal lengths (equal array sizes),
        # ordinary configurations first, degenerate ones (0 / defaults) after them; sometimes an error request in between
        group = rng.choice([v for v in by_nout.values() if len(v) >= 2]) if rng.random() < 0.7 else pool
        ms = rng.sample(group, min(len(group), rng.randint(2, 3)))
        k = rng.randint(2, 6)
        split = rng.choice([0, 1])
        L = rng.choice([1, 2, 3, 7])
        members = []
        seen = set()
        for j in range(k):
            m = ms[j % len(ms)] if rng.random() < 0.8 else rng.choice(ms)
            md = 'supplied' if m['Name'] not in seen else rng.choice(['omitted', 'zero', 'mixed', 'end', 'supplied'])
            seen.add(m['Name'])
            Lj = L if rng.random() < 0.75 else rng.choice([1, 2, 3, 7, 40])
            cs = g.member(m, md, Lj, split)
            if rng.random() < 0.12:
                bad = rng.choice(['noname', 'noinputs', 'length'])
                if bad == 'noname':
                    cs = g.finish(rng.choice(['', 'NoSuchModel']), cs['params'], cs['inputs'], [], 'session')
                    cs['modes'] = []
                elif bad == 'noinputs':
                    cs = g.finish(m['Name'], cs['params'], [], [], 'session')
                    cs['modes'] = []
                elif len(cs['inputs']) > 1:
                    cs['inputs'][-1][1] = g.series(Lj + 1)
                    cs = g.finish(m['Name'], cs['params'], cs['inputs'], [], 'session')
                    cs['modes'] = []
            members.append(cs)
        new_session(members, 'mixed-models', split)

    exps = [expectation(cs, by_name) for cs in cases]
    lines = []
    index = []
    for cs, e in zip(cases, exps):
        mode = {'ow-single': 2, 'reuse-reader': 3 + cs['split']}.get(cs.get('via'), cs['split'])
        index.append(len(lines))
        lines.append('RUN %d %s' % (mode, b64(cs['text'])))
        if e['cls'] == 'run':
            lines.append(direct_line(e, 1))
        if 'col' in e:
            lines.append(inits_line(e))
    out = impl(lines)
    sess_out = impl(['SESSION %d %d %s' % (ss['split'], len(ss['members']), ' '.join(b64(cs['text']) for cs in ss['members']))
                     for ss in sessions])
    # model side
    mlines = []
    for cs, e, ix in zip(cases, exps, index):
        il = None
        if 'col' in e:
            il = out[ix + (2 if e['cls'] == 'run' else 1)]
        if e['cls'] == 'run' and e['m']['Dimensions']:
            # tabular parameters: the runner never calls InitialiseDimensions, so the kernel it runs is not the
            # registered (dimensioned) one; only the property oracle applies (known finding table-never-dimensioned)
            cs['model_skipped'] = True
            mlines.append('JSV 0000000000000000')
        elif cs.get('large') and sum(len(v) for _, v in cs['inputs'] if v) > 20000:
            # the extracted model works on unary naturals / non-tail-recursive lists: requests of this size are judged
            # by the property oracle (bit-exact direct run of the implementation) only
            cs['model_skipped'] = 'large'
            mlines.append('JSV 0000000000000000')
        elif cs['wild'] and any(abs(v) > 1e4 for _, v in cs['params']):
            # extracted kernels iterate over nat-sized buffers (Lag, GR4J unit hydrographs): keep the model run bounded
            cs['model_skipped'] = True
            mlines.append('JSV 0000000000000000')
        else:
            mlines.append(rs_line(cs, e, by_name, il))
    log('structured: %d requests run on the implementation; running the model' % len(cases))
    with open(os.path.join(OUT, 'C17', 'model_lines.txt'), 'w') as fh:
        fh.write('\n'.join(mlines) + '\n')
    mout = run_model(mlines, timeout=3000)
    log('model done')

    stats = {}
    debug = {'crashes': []}
    kernel_mismatch = []
    registry_models, nokernel_models = set(), set()
    model_compared = model_skipped = model_skipped_wild = model_skipped_large = 0
    nonfinite_leaves = {'s:NaN': 0, 's:+Inf': 0, 's:-Inf': 0}

    def bump(k):
        stats[k] = stats.get(k, 0) + 1

    def count_nf(v):
        if isinstance(v, list):
            for x in v:
                count_nf(x)
        elif isinstance(v, dict):
            for x in v.values():
                count_nf(x)
        elif v in nonfinite_leaves:
            nonfinite_leaves[v] += 1

    for i, (cs, e, ix, ml) in enumerate(zip(cases, exps, index, mout)):
        f = fields(out[ix]) if out[ix].startswith('R ') else {'exit': 'harness', 'docs': '0', 'raw': '', 'panic': '', 'doc': None}
        direct = parse_direct(out[ix + 1]) if e['cls'] == 'run' else None
        cs['alone'] = f
        name = cs['model']
        replay = {'request': cs['text'], 'split_outputs': bool(cs['split']), 'via': cs.get('via', 'jsonrun child'),
                  'how': 'echo <request> | ow-single   (split) or sim.RunSingleModelJSON(r, w, false)',
                  'impl': {k: f[k] for k in ('exit', 'docs')}, 'panic': base64.b64decode(f['panic']).decode('utf8', 'replace'),
                  'stdout': base64.b64decode(f['raw']).decode('utf8', 'replace')[:2000]}
        nontrivial = cs['kind'] != 'full' or e['cls'] != 'run' or bool(e.get('plog'))
        c.count(cs['text'], nontrivial=nontrivial)
        bump('class:' + e['cls'])
        bump('kind:' + cs['kind'])
        want_docs = 2 if cs.get('via') == 'reuse-reader' else 1      # one document per call of RunSingleModelJSON
        answered = f['exit'] == '0' and f['docs'] == str(want_docs)
        doc = f['doc']
        ok = True
        if cs.get('large'):
            replay['request_bytes'] = len(cs['text'])
        # -- independent validity check of the raw bytes (strict parser, no NaN/Infinity literals)
        if answered:
            try:
                def bad(x):
                    raise ValueError('non-JSON constant ' + x)
                rawtxt = base64.b64decode(f['raw']).decode('utf8')
                dec = json.JSONDecoder(parse_constant=bad)
                pos, ndoc = 0, 0
                while True:
                    while pos < len(rawtxt) and rawtxt[pos] in ' \t\r\n':
                        pos += 1
                    if pos >= len(rawtxt):
                        break
                    _, pos = dec.raw_decode(rawtxt, pos)
                    ndoc += 1
                if ndoc != want_docs:
                    raise ValueError('%d documents, expected %d' % (ndoc, want_docs))
            except Exception as ex:
                answered = False
                replay['invalid_json'] = str(ex)
        if not answered:
            ok = False
            if e['cls'] in ('run', 'noinputs', 'length'):
                key = crash_key(name, e['P'], e.get('L', 0), e.get('rows'), cs['split'], direct, len(e['m']['States']), replay['panic'])
            else:
                key = 'crash:request-class-%s' % e['cls']
            if e['cls'] == 'noinputs' and key.endswith(':unclassified'):
                key = 'crash:no-inputs-supplied'
            elif e['cls'] == 'length' and key.endswith(':unclassified'):
                key = 'crash:unequal-input-lengths'
            replay['kind'] = 'no-single-valid-document-or-crash'
            replay['key'] = key
            replay['direct_run'] = 'ok' if direct else ('n/a' if e['cls'] != 'run' else 'also panics')
            bump('crash:' + key)
            debug['crashes'].append({'key': key, 'panic': replay['panic'], 'request': cs['text'][:600], 'exit': f['exit'],
                                     'docs': f['docs'], 'wild': cs['wild'], 'direct': replay['direct_run']})
            c.violation('crash_%d.json' % i, replay, key=key)
        elif not doc or not doc.get('shape_ok'):
            ok = False
            replay['kind'] = 'document-shape'
            c.violation('shape_%d.json' % i, replay)
        else:
            exp_log = None
            if e['cls'] == 'noname':
                exp_log = [['noname']]
            elif e['cls'] == 'unknown':
                exp_log = [['unknown', name]]
            elif e['cls'] == 'noinputs':
                exp_log = [['noinputs']]
            elif e['cls'] == 'length':
                exp_log = [e['bad']]
            else:
                exp_log = [['blank']] + e['plog'] + e['ilog']
            if doc['log'] != exp_log:
                ok = False
                replay.update(kind='log-entries', expected_log=exp_log, got_log=doc['log'])
                c.violation('log_%d.json' % i, replay)
            elif e['cls'] != 'run':
                if doc['outputs'] is not None or doc['states'] is not None:
                    ok = False
                    replay.update(kind='error-response-with-results')
                    c.violation('errres_%d.json' % i, replay)
            else:
                m = e['m']
                if direct is None and m['Dimensions']:
                    # tabular parameters cannot be expressed by name/value pairs: for nPts/nLVA >= 2 the dimensioned
                    # direct run (FindDimensions on the 1-value-per-name column) is itself undefined; nothing to compare
                    bump('direct-run-undefined-for-table-parameters')
                elif direct is None:
                    # the runner answered but the direct run panics: compare nothing, report
                    ok = False
                    replay.update(kind='direct-run-panics-but-runner-answers', direct=out[ix + 1][:200])
                    c.violation('direct_%d.json' % i, replay, key='direct-panics:%s' % name)
                else:
                    outs, sts, _ = direct
                    if cs['split']:
                        eo = {n: [leaf(h) for h in r] for n, r in zip(m['Outputs'], outs)}
                        es = {n: leaf(h) for n, h in zip(m['States'], sts)}
                    else:
                        eo = [[leaf(h) for h in r] for r in outs]
                        es = [leaf(h) for h in sts]
                    count_nf(doc['outputs'])
                    count_nf(doc['states'])
                    if doc['outputs'] != eo or doc['states'] != es:
                        ok = False
                        key = None
                        if m['Dimensions']:
                            key = 'crash:%s:table-never-dimensioned' % name
                        replay.update(kind='results-differ-from-direct-run',
                                      expected={'outputs': eo, 'states': es}, got={'outputs': doc['outputs'], 'states': doc['states']})
                        c.violation('results_%d.json' % i, replay, key=key)
                    elif cs['split'] and len(sts) > len(m['States']):
                        # the named-state map silently drops the rest of the state vector
                        bump('states-truncated:' + name)
                        replay.update(kind='split-states-truncated', direct_states=len(sts), reported=len(m['States']))
                        c.violation('truncated_%d.json' % i, replay, key='states-truncated:%s' % name)
        bump('oracle-ok' if ok else 'oracle-fail')
        # -- correspondence with the extracted model
        t = ml.split()
        if cs.get('model_skipped') == 'large':
            model_skipped_large += 1
            continue
        if cs.get('model_skipped'):
            model_skipped_wild += 1
            continue
        if not t or t[0] == 'NOKERNEL':
            model_skipped += 1
            nokernel_models.add(name)
            continue
        if name in by_name and e['cls'] == 'run':
            registry_models.add(name)
        model_compared += 1
        diff = None
        if t[0] == 'CRASH':
            mdoc = t[1] == 'DOC'
            if f['exit'] == '0':
                diff = 'model predicts a crash, implementation answered'
            elif mdoc != (f['docs'] == '1'):
                diff = 'model crash doc=%s, implementation docs=%s' % (mdoc, f['docs'])
        elif t[0] == 'RESP':
            if not answered or not doc or not doc.get('shape_ok'):
                diff = 'model responds, implementation exit=%s docs=%s' % (f['exit'], f['docs'])
            else:
                mlog, rest = parse_model_log(t[1:])
                mo, _ = parse_jv(rest[1])
                ms, _ = parse_jv(rest[3])
                if mlog != doc['log']:
                    diff = 'log model=%r impl=%r' % (mlog, doc['log'])
                elif not values_agree(mo, doc['outputs'], 1e-9, 1e-12):
                    diff = 'outputs model=%s impl=%s' % (str(mo)[:300], str(doc['outputs'])[:300])
                elif not values_agree(ms, doc['states'], 1e-9, 1e-12):
                    diff = 'states model=%s impl=%s' % (str(ms)[:300], str(doc['states'])[:300])
        else:
            diff = 'model side: ' + ml[:200]
        if diff and e['cls'] == 'run' and direct is not None and (diff.startswith('outputs') or diff.startswith('states')):
            # is it the runner model, or the registered kernel of another component?  Run the kernel alone on the
            # same parameter column / initial states / input rows and compare it with the direct run.
            kl = kcase(name, e['col'], [h2f(h) for h in direct[2]], e['rows'])
            kr = parse_kresult(run_model([kl])[0])
            dr = ('OK', [[h2f(h) for h in r] for r in direct[0]], [h2f(h) for h in direct[1]])
            kd = kresults_agree(dr, kr, 1e-9, 1e-12)
            if kd:
                kernel_mismatch.append({'model': name, 'kernel_vs_direct_run': kd, 'request': cs['text'][:400]})
                diff = None
        if diff:
            c.corr_broken.append({'request': cs['text'], 'split': cs['split'], 'diff': diff})
        if i % 211 == 0:
            c.sample({'request': cs['text'][:400], 'split_outputs': bool(cs['split']), 'class': e['cls'],
                      'document': base64.b64decode(f['raw']).decode('utf8', 'replace')[:300]})

    # ---------------------------------------------------------------- sessions: several requests, one process
    sess_members = sess_compared = sess_skipped = 0
    sess_k = {}
    sess_modes = {}
    for si, (ss, so) in enumerate(zip(sessions, sess_out)):
        parts = so.split('\t')
        members = ss['members']
        c.count('session:' + '|'.join(cs['text'] for cs in members), nontrivial=True)
        bump('session:' + ss['kind'])
        sess_k[len(members)] = sess_k.get(len(members), 0) + 1
        if parts[0] != 'S' or len(parts) != len(members) + 1:
            c.violation('session_%d.json' % si, {'kind': 'session-harness-failure', 'output': so[:500],
                                                 'requests': [cs['text'] for cs in members]})
            continue
        for j, (cs, rl) in enumerate(zip(members, parts[1:])):
            sess_members += 1
            for md in cs.get('modes', []):
                sess_modes[md] = sess_modes.get(md, 0) + 1
            fs = fields(rl)
            al = cs['alone']
            if fs['exit'] == '-98':
                sess_skipped += 1          # the process died on an earlier member
                continue
            if not (al['exit'] == '0' and al['docs'] == '1'):
                # the request kills a fresh process too (a known finding of its own): nothing to compare from here on
                sess_skipped += 1
                break
            sess_compared += 1
            if fs['exit'] != '0' or fs['docs'] != '1' or fs['raw'] != al['raw']:
                c.violation('session_%d_%d.json' % (si, j), {
                    'kind': 'answer-in-session-differs-from-answer-alone', 'split_outputs': bool(ss['split']),
                    'how': 'one process; for each request in order: sim.RunSingleModelJSON(bytes.NewReader(request), &buf, split)',
                    'requests_in_order': [x['text'] for x in members], 'differing_request_index': j,
                    'answer_alone_fresh_process': base64.b64decode(al['raw']).decode('utf8', 'replace')[:3000],
                    'answer_in_session': base64.b64decode(fs['raw']).decode('utf8', 'replace')[:3000],
                    'session_exit': fs['exit'], 'session_docs': fs['docs'],
                    'panic': base64.b64decode(fs['panic']).decode('utf8', 'replace')})
                break
        if si % 17 == 0:
            c.sample({'session_of': [cs['model'] for cs in members], 'split_outputs': bool(ss['split']),
                      'first_request': members[0]['text'][:200], 'second_request': members[1]['text'][:200]})

    # ---------------------------------------------------------------- JsonSafeArray / JsonSafeValue
    jcases = gen_jsa(rng, quick)
    jout = impl([j['line'] for j in jcases])
    jm_lines = []
    for j, o in zip(jcases, jout):
        if o.startswith('OK'):
            t = o.split()
            v = t.index('V')
            d = t.index('D')
            en = t.index('E')
            j['nested'] = t[1]
            j['elems'] = t[en + 2:]
            jm_lines.append('JSA D %s V %s SH %d' % (' '.join(t[d + 1:en]), ' '.join(t[v + 1:d]), j['shift']))
        else:
            # the implementation panicked: rebuild the view description without the shift
            j['nested'] = None
            jm_lines.append(None)
    # for panicking cases ask the harness for the view with shift 0 (always legal when nd >= 1)
    redo = [k for k, l in enumerate(jm_lines) if l is None]
    if redo:
        r2 = impl([jcases[k]['line'].rsplit(' ', 1)[0] + ' 0' for k in redo])
        for k, o in zip(redo, r2):
            if o.startswith('OK'):
                t = o.split()
                v, d, en = t.index('V'), t.index('D'), t.index('E')
                jm_lines[k] = 'JSA D %s V %s SH %d' % (' '.join(t[d + 1:en]), ' '.join(t[v + 1:d]), jcases[k]['shift'])
            else:
                jm_lines[k] = 'JSV 0000000000000000'
    jmout = run_model(jm_lines)
    jsa_panics = 0
    for k, (j, o, mo) in enumerate(zip(jcases, jout, jmout)):
        c.count(j['line'], nontrivial=(j['nd'] >= 2))
        bump('jsa')
        in_range = 0 <= j['shift'] < j['nd']
        if j['nested'] is None:
            jsa_panics += 1
            # element (0,..,0,i_d,..) must exist: an empty leading axis puts the call outside the property's domain
            if in_range and all(d > 0 for d in j['dims'][:j['shift']]):
                c.violation('jsa_%d.json' % k, {'kind': 'JsonSafeArray-panics', 'case': j['line']})
            if not mo.startswith('PANIC') and not mo.startswith('OK s') and not mo.startswith('OK n'):
                c.corr_broken.append({'jsa': j['line'], 'diff': 'impl panics, model ' + mo[:100]})
            continue
        if in_range:
            dims = j['dims']
            # elements (0,..,0,i_d,..): the row-major block starting at 0 over dims[shift:]
            exp, _ = nest_expected(dims[j['shift']:], j['elems'], 0) if all(d > 0 for d in dims[:j['shift']]) else (None, 0)
            if exp is not None and exp != j['nested']:
                c.violation('jsa_%d.json' % k, {'kind': 'JsonSafeArray-nesting', 'case': j['line'], 'dims': dims,
                                                'shift': j['shift'], 'expected': exp, 'got': j['nested']})
        if mo != 'OK ' + j['nested']:
            c.corr_broken.append({'jsa': j['line'], 'diff': 'impl %s model %s' % (j['nested'][:200], mo[:200])})
    # JsonSafeValue on special values
    specials = [0.0, -0.0, 1.5, -2.25, 5e-324, 1.7976931348623157e308, math.inf, -math.inf, math.nan,
                h2f('7ff8000000000001'), h2f('fff8000000000000'), h2f('7ff0000000000001')]
    sv = impl(['JSV ' + f2h(x) for x in specials])
    svm = run_model(['JSV ' + f2h(x) for x in specials])
    for x, a, b in zip(specials, sv, svm):
        c.count('jsv' + f2h(x), nontrivial=True)
        if a != 'OK ' + leaf(f2h(x)).replace(':', '', 1):
            c.violation('jsv.json', {'kind': 'JsonSafeValue', 'bits': f2h(x), 'got': a})
        if a != b:
            c.corr_broken.append({'jsv': f2h(x), 'impl': a, 'model': b})

    # ---------------------------------------------------------------- malformed stream (fuzzing)
    safe = ['Sum', 'Input', 'ApplyScalingFactor', 'DeliveryRatio', 'FixedPartition', 'EmcDwc', 'Gate', 'VariablePartition']
    fuzz = []
    nf = 120 if quick else 3000
    seeds = [g.structured(by_name[rng.choice(safe)], force='full')['text'].encode() for _ in range(12)]
    for _ in range(nf):
        kind = rng.choice(['truncate', 'mutate', 'mutate', 'random', 'structure', 'number'])
        s = bytearray(rng.choice(seeds))
        if kind == 'truncate':
            s = s[:rng.randrange(len(s))]
        elif kind == 'mutate':
            for _ in range(rng.randint(1, 4)):
                p = rng.randrange(len(s))
                op = rng.random()
                if op < 0.4:
                    s[p] = rng.randrange(256)
                elif op < 0.7:
                    del s[p]
                else:
                    s.insert(p, rng.choice(b'{}[]",:0123456789eE-+.\\ntrufalse\x00\xff'))
        elif kind == 'random':
            s = bytearray(rng.randrange(256) for _ in range(rng.randint(0, 60)))
        elif kind == 'structure':
            s = bytearray(rng.choice([b'', b'null', b'[]', b'{}', b'1', b'"x"', b'true', b'{"Name":5}', b'{"Name":null}',
                                      b'{"Name":"Sum","Inputs":{}}', b'{"Name":"Sum","Inputs":[1]}',
                                      b'{"Name":"Sum","Inputs":[{"Name":"i1","Values":"x"}]}',
                                      b'{"Name":"Sum","Inputs":[{"Name":"i1","Values":[1,null]}]}',
                                      b'{"Name":"Sum","Inputs":[{"Name":"i1","Values":[[1]]}]}',
                                      b'{"Name":"Sum","Parameters":[{"Name":"a","Value":"1"}],"Inputs":[]}',
                                      b'{"Name":"Sum"} trailing', b'{"Name":"Sum"}{"Name":"Sum"}', b'\xef\xbb\xbf{}',
                                      b'{"name":"Sum","inputs":[{"name":"i1","values":[1]},{"NAME":"i2","VALUES":[2]}]}',
                                      b'{"Name":"\\ud800","Inputs":[]}', b'{"Name":"Sum\\u0000","Inputs":[]}',
                                      b'[' * 5000, b'{"Name":' * 300]))
        else:
            s = bytearray(bytes(s).replace(b'1', rng.choice([b'1e999', b'-1e999', b'NaN', b'Infinity', b'0x10', b'01', b'1.', b'.5', b'1e', b'--1']), 1))
        fuzz.append(bytes(s))
    fl = ['RUN %d %s' % (rng.choice([0, 1]), b64(s)) for s in fuzz]
    fo = impl(fl)
    fuzz_decode_errors = fuzz_other = 0
    for k, (s, o) in enumerate(zip(fuzz, fo)):
        c.count(b64(s), nontrivial=True)
        bump('fuzz')
        f = fields(o) if o.startswith('R ') else {'exit': 'harness', 'docs': '0', 'raw': '', 'panic': '', 'doc': None}
        good = f['exit'] == '0' and f['docs'] == '1' and f['doc'] and f['doc'].get('shape_ok')
        if good:
            lg = f['doc']['log']
            if lg and len(lg) == 1 and lg[0][0] == 'other':
                fuzz_decode_errors += 1
            else:
                fuzz_other += 1
            if f['doc']['outputs'] is None and not (lg and len(lg) == 1 and lg[0][0] != 'blank'):
                good = False
        if not good:
            c.violation('fuzz_%d.json' % k, {'kind': 'malformed-request-not-answered', 'request_base64': b64(s),
                                             'request_repr': repr(s)[:500], 'exit': f['exit'], 'docs': f['docs'],
                                             'panic': base64.b64decode(f['panic']).decode('utf8', 'replace'),
                                             'stdout': base64.b64decode(f['raw']).decode('utf8', 'replace')[:1000]},
                        key='crash:malformed')
    # decode failure on the model side is one definitional case
    dm = run_model([rs_line({'model': 'Sum', 'split': 0, 'inputs': [], 'states': [], 'params': []}, {}, by_name, None, decoded=False)])
    if not dm[0].startswith('RESP L 1 decode O null S null'):
        c.corr_broken.append({'decode-failure': dm[0]})

    debug['corr'] = c.corr_broken
    with open(os.path.join(OUT, 'C17', 'debug.json'), 'w') as fh:
        json.dump(debug, fh, indent=1)
    c.cov['rule'] = (
        'structured: for each of the %d catalogued models (names and descriptions read from the running binary) requests with '
        'full / random subsets / supersets / shuffled / duplicated parameters and inputs, series lengths 0,1,2,7,40 with one '
        'series shorter or longer, null or absent Values, no inputs, supplied states, unknown / empty / absent model name, '
        'overflow-driven NaN/+Inf/-Inf results, plus a small out-of-range parameter stream, plus a large-request stream (request texts of '
        'exactly chosen sizes just below / at / above 64 KiB, 1 MiB, 4 MiB -- thorough: further sizes up to 16 MiB+ -- made of long '
        'full-precision series for models with 1, 2, 5 and 8 inputs, also followed by trailing whitespace or a second document; '
        'those above 20000 values are judged by the bit-exact direct run only, not by the extracted model), plus one stream handed '
        'to RunSingleModelJSON twice (one document per call required), plus a session stream (2..6 requests served by ONE process through '
        'one RunSingleModelJSON call each: the same model repeatedly with all parameters supplied / omitted / exactly 0 or at a range end / '
        'mixed, and different models with equally many outputs interleaved, equal and different series lengths, error requests in '
        'between; every answer must be byte-identical to the answer the same request gets alone in a fresh process, which is itself '
        'checked against the direct run and the model); each executed by '
        'sim.RunSingleModelJSON in its own process (a share through the real ow-single binary) with both splitOutputs settings and '
        'checked against the property (one valid document, exit 0, log entries, bit-equal to a direct run, non-finite strings) and '
        'against the extracted Coq run_single; JSA: owjs.JsonSafeArray on ARange views reshaped to 1-4 dims with 0-2 '
        'stepped slices for every shift dimension (and some out of range), checked against the elements read with Get and '
        'against the extracted json_safe_array on the reflected Start/Dims/OffsetStep/Impl; malformed: truncated, mutated, '
        'random and hand-written byte strings (this part is fuzzing for "does not crash"). distinct = distinct request '
        'text / view command; non-trivial = not the plain full request (something missing, extra, reordered, duplicated, '
        'unequal, error class or defaults used), JSA views of rank >= 2, every malformed string' % len(desc))
    c.finish(extra_cov={'exhaustive': False, 'breakdown': dict(sorted(stats.items())),
                        'model_run_single_compared': model_compared,
                        'registered_kernel_differs_from_direct_run_other_component': kernel_mismatch[:10],
                        'registered_kernel_differs_count': len(kernel_mismatch), 'model_run_single_skipped_no_kernel': model_skipped, 'model_run_single_skipped_huge_parameter': model_skipped_wild,
                        'large_request_cases': len(large_cases), 'large_request_stream_bytes': sorted(cs['stream_bytes'] for cs in large_cases),
                        'large_request_max_bytes': max([cs['stream_bytes'] for cs in large_cases] or [0]),
                        'large_request_models': sorted({cs['model'] for cs in large_cases}),
                        'large_request_variants': sorted({cs['kind'] for cs in large_cases}),
                        'large_requests_judged_by_direct_run_only_model_skipped': model_skipped_large,
                        'reader_reuse_cases_two_calls_one_stream': len(reuse_cases),
                        'sessions_one_process_several_requests': len(sessions), 'session_requests': sess_members,
                        'session_answers_compared_with_fresh_process': sess_compared, 'session_answers_not_compared_process_died': sess_skipped,
                        'session_sizes_k': {str(k): v for k, v in sorted(sess_k.items())},
                        'session_kinds': {k[8:]: v for k, v in stats.items() if k.startswith('session:')},
                        'session_parameter_modes': sess_modes,
                        'models_with_registered_kernel': sorted(x for x in registry_models if x),
                        'models_without_registered_kernel': sorted(x for x in nokernel_models if x),
                        'nonfinite_leaves_seen': nonfinite_leaves, 'jsa_cases': len(jcases), 'jsa_impl_panics_out_of_range_shift': jsa_panics,
                        'malformed_cases_fuzzing': len(fuzz), 'malformed_answered_with_decode_error': fuzz_decode_errors,
                        'malformed_answered_otherwise': fuzz_other, 'descriptions_with_duplicate_names': dup_names,
                        'ow_single_binary_used': have_owsingle, 'coqchk': coqchk, 'model_driver_components': driver_components},
             assumptions=['encoding/json (decoding of the request, encoding of the value tree) is trusted; requests are generated '
                          'together with their decoded form',
                          'the one-cell kernel, InitialiseStates and the generated Run wrapper are parameters of the Coq model '
                          '(kernels: C10-C16 components; wrapper: C04); the check instantiates them with the registered extracted '
                          'kernels and with the state vector InitialiseStates(1) returns in the implementation',
                          'the strided view (Start, Dims, OffsetStep, Impl) abstracts the Go array record (C01); Unroll is modelled '
                          'by its element-by-element definition (C02)',
                          'model-vs-implementation numbers compared to 1e-9 relative (libm in kernels); implementation-vs-direct-run bit-exact'])


class vlib_lock:
    def __enter__(self):
        import fcntl
        os.makedirs(OUT, exist_ok=True)
        self.f = open(os.path.join(OUT, '.buildlock'), 'w')
        fcntl.flock(self.f, fcntl.LOCK_EX)

    def __exit__(self, *a):
        import fcntl
        fcntl.flock(self.f, fcntl.LOCK_UN)
        self.f.close()


if __name__ == '__main__':
    main()
