"""C01/C02 at size: ApplySlice / CopyFrom / Scale / AddTo / ApplyFunc / Unroll / Reshape / Maximum / Minimum on float64 arrays of
2^15 .. 2^17 elements (odd extents, around the powers of two), over back-end x layout combinations and under GOMAXPROCS 1, 2, 3
and 7.  A fast path that only switches on above a size threshold, or that divides the work by the number of processors, is
invisible to the small histories.  Oracle: the element-by-element definition evaluated here on procedural values; buffers are
compared through SHA-256 digests of their bit patterns."""
import hashlib, os, struct
from vlib import HARNESS, GOENV, run_lines

LAYOUTS = ['full', 'gap', 'step', 'rows']


def offsets(name, r, c):
    if name == '3var':          # one variable of a [r, 3, c] block: a 1-wide axis in the middle of the view's shape
        return 3 * r * c, [i * 3 * c + c + j for i in range(r) for j in range(c)]
    if name.startswith('3'):    # the 2-D layouts as [r, 1, c] views
        name = name[1:]
    if name == 'full':
        return r * c, [i * c + j for i in range(r) for j in range(c)]
    if name == 'gap':
        return r * (c + 2), [i * (c + 2) + 1 + j for i in range(r) for j in range(c)]
    if name == 'step':
        return r * 2 * c, [i * 2 * c + 2 * j for i in range(r) for j in range(c)]
    return 2 * r * c, [2 * i * c + j for i in range(r) for j in range(c)]


def dig(v):
    return hashlib.sha256(struct.pack('<%dd' % len(v), *v)).hexdigest()[:32]


def big_arrays(c, only=None):
    rng = c.rng
    quick = c.tier == 'quick'
    ops = ['COPYFROM', 'APPLYSLICE', 'SCALE', 'ADDTO', 'APPLYFUNC', 'UNROLL', 'RESHAPE', 'MAX', 'MIN']
    cases = []
    # designed cases: every operation at a size above 2^16 with processor counts that do not divide it, on the layout pairs
    # that select each code path (both contiguous -> flat fast paths; non-contiguous destination or source -> index loops / gathers)
    # every element count below is coprime to 2, 3 and 7 (a remainder is left whatever the processor count)
    designed = [('COPYFROM', 3, 'gap', 'full', 5, 13109), ('COPYFROM', 2, 'full', 'step', 1, 65537), ('APPLYSLICE', 7, 'rows', 'gap', 257, 257),
                ('APPLYSLICE', 3, 'step', 'rows', 11, 9091), ('SCALE', 3, 'full', 'full', 1, 65537), ('ADDTO', 7, 'full', 'full', 5, 13109),
                ('ADDTO', 2, 'full', 'full', 1, 100003), ('APPLYFUNC', 3, 'full', 'full', 13, 7699), ('SCALE', 2, 'gap', 'full', 5, 6553),
                ('UNROLL', 3, 'full', 'step', 25, 2633), ('RESHAPE', 7, 'full', 'gap', 5, 6553), ('MAX', 3, 'full', 'rows', 11, 9091),
                ('MIN', 2, 'full', 'full', 1, 100003)]
    # three-dimensional views [r, 1, c]: one variable of every cell of a [cells, variables, timesteps] block (what a model run
    # hands to the bulk operations), against the other layouts with the unit axis in place
    designed += [('COPYFROM', 3, '3var', '3full', 37, 353), ('COPYFROM', 2, '3full', '3var', 101, 131), ('APPLYSLICE', 3, '3var', '3gap', 11, 1201),
                 ('ADDTO', 3, '3var', '3var', 37, 353), ('SCALE', 2, '3var', '3step', 5, 2633), ('UNROLL', 3, '3full', '3var', 37, 353),
                 ('RESHAPE', 2, '3full', '3var', 101, 131), ('MAX', 3, '3full', '3var', 11, 1201), ('APPLYFUNC', 3, '3rows', '3var', 37, 353)]
    for (op, procs, dl, sl, r, cc) in designed:
        for be in ('g', 'c'):
            cases.append((procs, be, be, dl, sl, op, r, cc, rng.randint(0, 9999)))
    for k in range(4 if quick else 120):
        r, cc = rng.choice([1, 3, 5, 7, 9, 11, 13]), rng.randint(2500, 40000)
        lay = LAYOUTS if rng.random() < 0.6 else ['3full', '3gap', '3step', '3rows', '3var', '3var']
        cases.append((rng.choice([1, 2, 3, 7]), rng.choice('gc'), rng.choice('gc'), rng.choice(lay), rng.choice(lay),
                      rng.choice(ops), r, cc, rng.randint(0, 9999)))
    if only:
        cases = [cs for cs in cases if cs[5] in only]
    lines = ['BIGA %d %s %s %s %s %s %d %d %d' % cs for cs in cases]
    got = run_lines(os.path.join(HARNESS, 'bin', 'arrops'), lines, env=GOENV, timeout=900)
    hist = {}
    biggest = 0
    for i, (cs, line, g) in enumerate(zip(cases, lines, got)):
        procs, db, sb, dl, sl, op, r, cc, seed = cs
        n = r * cc
        biggest = max(biggest, n)
        hist[op] = hist.get(op, 0) + 1
        c.count(line, nontrivial=True)
        dn, doff = offsets(dl, r, cc)
        sn, soff = offsets(sl, r, cc)
        dbuf = [99.0] * dn
        sbuf = [99.0] * sn
        dv = [float((3 * seed + k) % 997) for k in range(n)]
        sv = [float((seed + 7 * k) % 1000 + 1) for k in range(n)]
        for o, x in zip(soff, sv):
            sbuf[o] = x
        res = None
        if op in ('COPYFROM', 'APPLYSLICE'):
            new = sv
        elif op == 'SCALE':
            new = [x * 3 for x in sv]
        elif op == 'ADDTO':
            new = [a + b for a, b in zip(dv, sv)]
        elif op == 'APPLYFUNC':
            new = [x * 2 + 1 for x in sv]
        else:
            new = dv
            if op in ('UNROLL', 'RESHAPE'):
                res = dig(sv)
            elif op == 'MAX':
                res = repr(max(sv)).rstrip('0').rstrip('.') if False else ('%g' % max(sv))
            else:
                res = '%g' % min(sv)
        for o, x in zip(doff, new):
            dbuf[o] = x
        exp = 'dst=%s src=%s' % (dig(dbuf), dig(sbuf)) + (' res=%s' % res if res is not None else '')
        if g != exp:
            c.violation('bigarray_%d.json' % i, {'kind': 'large-array-oracle', 'op': op, 'gomaxprocs': procs, 'elements': n, 'shape': [r, cc],
                                                'dst_backend': db, 'src_backend': sb, 'dst_layout': dl, 'src_layout': sl,
                                                'implementation': g, 'element_by_element_definition': exp, 'case_line': line,
                                                'replay': "echo '%s' | /verif/harness/bin/arrops" % line})
            if len(c.violations) > 4:
                break
    slivers = sliver_cases(c) if (only is None or 'RESHAPE' in only) else 0
    return {'sliver_views_of_large_blocks': slivers, 'large_array_cases': len(cases), 'large_array_ops': hist, 'largest_array_elements': biggest,
            'large_array_gomaxprocs': sorted({cs[0] for cs in cases})}


def sliver_cases(c):
    """one-series views of LARGE result blocks ([cells, variables, timesteps], 2^20 .. 2^21.6 elements) reshaped to 1-D as the
    generated wrappers do and written through: the block sees the writes, the reshaped view sees later writes to the block
    (C02: a reshape of a contiguous view aliases its storage - at any size of what lies behind the view)"""
    rng = c.rng
    quick = c.tier == 'quick'
    cases = []
    for k in range(6 if quick else 60):
        T = rng.choice([365, 1000, 3650, 730])
        vars_ = rng.choice([1, 3, 5])
        cells = rng.randint((1 << 20) // (T * vars_) + 1, (3 << 20) // (T * vars_))
        cell = [0, 1, cells // 2, cells - 1, rng.randrange(cells), rng.randrange(cells)][k % 6]
        cases.append((rng.choice([1, 3]), 'gc'[k % 2] if k < 4 else rng.choice('gc'), cells, vars_, T, cell, rng.randrange(vars_), k % 2 if k < 2 else rng.randint(0, 1), rng.randint(0, 9999)))
    lines = ['SLIVER %d %s %d %d %d %d %d %d %d' % cs for cs in cases]
    got = run_lines(os.path.join(HARNESS, 'bin', 'arrops'), lines, env=GOENV, timeout=900)
    for i, (cs, line, g) in enumerate(zip(cases, lines, got)):
        procs, be, cells, vars_, T, cell, vr, nested, seed = cs
        c.count(line, nontrivial=True)
        n = cells * vars_ * T
        buf = [float((seed + i2) % 1000) for i2 in range(n)]
        base = (cell * vars_ + vr) * T
        for q in range(8):
            buf[base + (seed * 7 + q * 131) % T] = float(5000 + q)
        buf[base + (seed + 3) % T] = 7777.0
        exp = 'buf=%s back=7777' % dig(buf)
        if g != exp:
            c.violation('sliver_%d.json' % i, {'kind': 'large-block-sliver-oracle', 'backend': be, 'block_shape': [cells, vars_, T], 'cell': cell,
                                              'variable': vr, 'nested_slice': bool(nested), 'elements_in_block': n,
                                              'implementation': g, 'definition': exp + ' (writes through the reshaped series reach the block; the series sees the block)',
                                              'case_line': line, 'replay': "echo '%s' | /verif/harness/bin/arrops" % line})
    return len(cases)
