#!/usr/bin/env python3
"""C20 check: theorems in coq/Properties/C20.v (real-number model, Coq-Interval)
+ correspondence of the extracted float model Num/Climate.v with
models/climate/climate_variables.go (through sim.Catalog["ClimateVariables"])
on a T x RH x elevation grid and random points (libm tolerance)
+ the property oracle (all clauses) on the implementation's outputs."""
import sys, os, re, json, math, hashlib, glob
sys.path.insert(0, os.path.dirname(os.path.abspath(__file__)))
from vlib import *

MODEL = 'ClimateVariables'
RTOL, ATOL = 1e-9, 1e-12
KEY_SAT = 'negative-depression-at-saturation'


# ---------------------------------------------------------------- proofs (with a content-hash cache in the quick tier)
def _closure_hash():
    # exactly the .v files Properties/C20.vo depends on (see its Require lines)
    files = [os.path.join(COQ, f) for f in ('Base/Arith.v', 'Base/RInst.v', 'Num/Climate.v', 'Num/ClimateProofs.v',
                                            'Properties/C20.v')]
    h = hashlib.sha256()
    h.update(sh('coqc --version', check=False).encode())
    for f in files:
        h.update(f.encode())
        h.update(open(f, 'rb').read())
    return h.hexdigest()


def prove(c):
    """Check.prove() of vlib, plus a cache of the theorem/axiom listing in the quick tier: Print Assumptions
    through Coq-Interval's closure costs ~12 s per theorem and depends only on the .v sources (never on
    /repo).  On a cache hit `make Properties/C20.vo` still verifies that every .vo of the closure is up
    to date (= the proofs were checked by coqc) and the forbidden-declaration scan still runs; the
    listing of the last coqc run on Properties/C20.v is reused only when the sources + coqc version hash
    to the same value.  Thorough tier or VERIF_NO_CACHE=1: always the fresh coqc run of Check.prove()."""
    cache = os.path.join(OUT, 'cache', 'C20_assumptions.json')
    use_cache = c.tier == 'quick' and not os.environ.get('VERIF_NO_CACHE')
    src = open(os.path.join(COQ, 'Properties/C20.v')).read()
    names = re.findall(r'^\s*(?:Theorem|Lemma|Corollary|Example)\s+(\w+)', src, re.M)
    key = _closure_hash()
    d = {}
    if use_cache and os.path.exists(cache):
        try:
            d = json.load(open(cache))
        except ValueError:
            d = {}
    if d.get('hash') == key and d.get('names') == names:
        try:
            coq_make(['Properties/C20.vo'])
            bad = forbidden_scan()
            if bad:
                raise BuildError('forbidden declaration in development', '\n'.join(bad))
            c.thm_names, c.axioms = names, d['axioms']
            c.cov['assumption_listing'] = ('reused from the last coqc run on identical sources (content hash); '
                                           '.vo files verified up to date by make')
        except BuildError as e:
            c.proof_broken = (e.what, e.output[-3000:])
            c.thm_names = names
            log('PROOF BROKEN:', e.what)
            log(e.output[-1500:])
        return
    c.prove()
    if not c.proof_broken:
        c.cov['assumption_listing'] = 'fresh coqc run on Properties/C20.v'
        os.makedirs(os.path.dirname(cache), exist_ok=True)
        json.dump({'hash': key, 'names': c.thm_names, 'axioms': c.axioms}, open(cache, 'w'))


# ---------------------------------------------------------------- generators
def grid_temps(quick):
    step = 2.5 if quick else 0.25
    n = int(round(95 / step))
    ts = [-40 + step * k for k in range(n + 1)]
    ts += [-40.0, -39.99, -0.1, -1e-3, -1e-6, -1e-9, -0.0, 0.0, 1e-9, 1e-6, 1e-3, 0.01, 0.1, 1.0, 44.19, 54.99, 55.0]
    seen, res = set(), []
    for t in sorted(ts, key=lambda x: (x, math.copysign(1, x))):     # -0.0 before 0.0, distinct by bit pattern
        if f2h(t) not in seen:
            seen.add(f2h(t))
            res.append(t)
    return res


def grid_hums(quick):
    hs = [1e-4, 1e-2, 1.0, 10.0, 25.0, 50.0, 75.0, 90.0, 99.0, 99.5, 100.0]
    if not quick:
        hs = sorted(set(hs + [1e-3, 0.1, 5.0, 40.0, 60.0, 95.0, 98.0, 99.9, 99.99, 99.999]))
    return hs


def grid_points(quick):
    return [(t, h) for t in grid_temps(quick) for h in grid_hums(quick)]


def head_series(ts, hs, i):
    """a short series whose FIRST element is grid temperature ts[i]: repeated consecutive temperature, the same
    temperature at different humidities, a different temperature and back, 0.0 / -0.0 in the middle"""
    t = ts[i]
    t2 = ts[(i * 7 + 3) % len(ts)]
    ha, hb, hc = hs[i % len(hs)], hs[(i + 4) % len(hs)], hs[(i + 7) % len(hs)]
    return [(t, ha), (t, ha), (t, hb), (t2, hc), (t2, hc), (t, hb), (0.0, ha), (0.0, hb), (-0.0, ha), (t, 100.0), (t2, 100.0), (t, ha)]


def random_points(rng, ncols):
    pts = []
    for _ in range(ncols):
        r = rng.random()
        if r < 0.15:
            t = rng.choice([-1, 1]) * 10 ** rng.uniform(-12, -1)     # both sides of 0 C, close to it
        elif r < 0.25:
            t = rng.choice([-40.0, 55.0, -40.0 + 1e-9, 55.0 - 1e-9, -39.999, 54.999])
        else:
            t = rng.uniform(-40, 55)
        hs = set()
        while len(hs) < 3:
            q = rng.random()
            if q < 0.3:
                hs.add(10 ** rng.uniform(-4, 2))
            elif q < 0.6:
                hs.add(rng.uniform(1e-4, 100))
            elif q < 0.8:
                hs.add(100 - 10 ** rng.uniform(-6, 0))
            else:
                hs.add(rng.choice([100.0, 99.0, 1e-4]))
        for h in sorted(hs):
            pts.append((t, h))
    return pts


# ---------------------------------------------------------------- oracle on the implementation's outputs
def oracle(c, ci, e, pts, outs, line, stats):
    """All clauses of C20 on one case (one elevation, a series of (T, RH) points)."""
    vp, dew, wet, dlt = outs
    nviol = 0

    def viol(kind, idxs, extra=None):
        nonlocal nviol
        nviol += 1
        obj = {'kind': kind, 'elevation': e,
               'points': [{'dryBulb': pts[k][0], 'humidity': pts[k][1], 'vaporPressure': vp[k], 'dewPoint': dew[k],
                           'wetBulb': wet[k], 'deltaT': dlt[k]} for k in idxs],
               'indices_in_series': list(idxs),
               # the series up to the last point involved: state carried inside the loop is visible only through the position
               'replay_case_line': kcase(MODEL, [e], [], [[q[0] for q in pts[:max(idxs) + 1]], [q[1] for q in pts[:max(idxs) + 1]]])}
        if extra:
            obj.update(extra)
        c.violation('oracle_%d_%s.json' % (ci, kind), obj)

    for k, (t, h) in enumerate(pts):
        o = (vp[k], dew[k], wet[k], dlt[k])
        if not all(math.isfinite(x) for x in o):
            viol('non-finite-output', [k])
            continue
        if not vp[k] > 0:
            viol('svp-not-positive', [k])
        if not (min(dew[k], t) <= wet[k] <= max(dew[k], t)):
            viol('wet-bulb-not-between-dew-and-dry', [k])
        if dlt[k] != t - wet[k]:
            viol('depression-not-dry-minus-wet', [k], {'expected': t - wet[k]})
        if h <= 99 and not (dew[k] <= t):
            # proved for the real-number model (C20_step_physically_ordered): dew <= dry up to RH 99 %
            viol('dew-above-dry-below-99', [k])
        if dew[k] > t:
            stats['sat_overshoot'] += 1
            stats['sat_overshoot_max'] = max(stats['sat_overshoot_max'], dew[k] - t)
            if dlt[k] < 0:
                stats['negative_depression'] += 1
                if stats['neg_example'] is None or dlt[k] < stats['neg_example']['deltaT']:
                    stats['neg_example'] = {'elevation': e, 'dryBulb': t, 'humidity': h, 'dewPoint': dew[k],
                                            'wetBulb': wet[k], 'deltaT': dlt[k]}
    # svp strictly increasing: neighbouring distinct temperatures of this case
    byt = {}
    for k, (t, h) in enumerate(pts):
        byt.setdefault(t, k)
    tsorted = sorted(byt)
    for a, b in zip(tsorted, tsorted[1:]):
        ka, kb = byt[a], byt[b]
        stats['svp_pairs'] += 1
        if not (math.isfinite(vp[ka]) and math.isfinite(vp[kb])):
            continue
        # strict for temperatures at least 1e-9 C apart (every grid pair); closer random pairs cannot be
        # separated in binary64, there: non-decreasing up to 4 ulp
        if (b - a >= 1e-9 and not vp[ka] < vp[kb]) or (b - a < 1e-9 and not vp[ka] <= vp[kb] * (1 + 1e-15)):
            viol('svp-not-increasing', [ka, kb])
    # same temperature must give the same svp whatever the humidity
    for k, (t, h) in enumerate(pts):
        if vp[k] != vp[byt[t]] and math.isfinite(vp[k]):
            viol('svp-depends-on-humidity', [byt[t], k])
    # dew point strictly increasing in humidity at fixed temperature
    cols = {}
    for k, (t, h) in enumerate(pts):
        cols.setdefault(t, []).append((h, k))
    for t, col in cols.items():
        col.sort()
        for (h1, k1), (h2, k2) in zip(col, col[1:]):
            if h1 == h2:
                continue
            stats['dew_pairs'] += 1
            if not (math.isfinite(dew[k1]) and math.isfinite(dew[k2])):
                continue
            # strict for humidities at least 1e-9 (relative) apart (every grid pair); closer: non-decreasing up to 1e-12 C
            if (h2 - h1 >= 1e-9 * h2 and not dew[k1] < dew[k2]) or (h2 - h1 < 1e-9 * h2 and not dew[k1] <= dew[k2] + 1e-12):
                viol('dew-not-increasing-in-humidity', [k1, k2])
    return nviol


# ---------------------------------------------------------------- replay
class _Collect:
    def __init__(self):
        self.found = []

    def violation(self, name, obj, key=None, no_input=False):
        self.found.append(obj)
        return True


def in_range(e, t, h):
    return -40 <= t <= 55 and 0 < h <= 100 and 0 <= e <= 10000


def same_bits(a, b):
    return all((x != x and y != y) or f2h(x) == f2h(y) for x, y in zip(a, b))


def new_stats():
    return {'sat_overshoot': 0, 'sat_overshoot_max': 0.0, 'negative_depression': 0, 'neg_example': None,
            'svp_pairs': 0, 'dew_pairs': 0}


def history_violation(c, name, e, pts, k, got, alone):
    c.violation(name, {'kind': 'step-output-depends-on-position-or-history', 'elevation': e, 'index_in_series': k,
                       'dryBulb': pts[k][0], 'humidity': pts[k][1],
                       'outputs_in_series[vp,dew,wet,deltaT]': list(got), 'outputs_as_single_step_run': list(alone),
                       'series_prefix': [list(q) for q in pts[:k + 1]],
                       'replay_case_line': kcase(MODEL, [e], [], [[q[0] for q in pts[:k + 1]], [q[1] for q in pts[:k + 1]]]),
                       'single_step_case_line': kcase(MODEL, [e], [], [[pts[k][0]], [pts[k][1]]])})


def replay(path):
    """python3 tools/c20.py --replay out/C20/<file>.json : re-run the recorded series on the implementation
    (rebuilt from /repo) and on the model, compare, re-evaluate the oracle on every step, and compare every
    step with the same inputs run as a series of their own."""
    obj = json.load(open(path))
    line = obj.get('replay_case_line')
    if not line and obj.get('mismatches'):
        line = obj['mismatches'][0].get('replay_case_line')
    if not line:
        print('replay file records a broken proof obligation, not an input: %s' % obj.get('kind'))
        print(json.dumps(obj, indent=1)[:3000])
        sys.exit(1)
    build_driver(['c20'])
    build_harness(['owrun'])
    t = line.split()
    e = h2f(t[4])
    n = int(t[9])
    pts = list(zip([h2f(x) for x in t[10:10 + n]], [h2f(x) for x in t[10 + n:10 + 2 * n]]))
    singles = [kcase(MODEL, [e], [], [[a], [b]]) for a, b in pts]
    res = run_impl([line] + singles)
    li, lm = res[0], run_model([line])[0]
    print('case :', line)
    print('impl :', li)
    print('model:', lm)
    ri, rm = parse_kresult(li), parse_kresult(lm)
    print('elevation %r points %r' % (e, pts))
    if ri[0] == 'OK':
        print('impl outputs [vp, dew, wet, deltaT] per point:', [[ri[1][j][k] for j in range(4)] for k in range(n)])
    diff = kresults_agree(ri, rm, RTOL, ATOL)
    if diff:
        print('model and implementation differ:', diff)
    col = _Collect()
    ok_range = all(in_range(e, a, b) for a, b in pts)
    if ri[0] == 'OK':
        if ok_range:
            oracle(col, 0, e, pts, ri[1], line, new_stats())
        for k in range(n):
            r1 = parse_kresult(res[1 + k])
            got = [ri[1][j][k] for j in range(4)]
            alone = [r1[1][j][0] for j in range(4)] if r1[0] == 'OK' else None
            if alone is None or not same_bits(got, alone):
                history_violation(col, 'h', e, pts, k, got, alone or [])
    elif ok_range:
        col.found.append({'kind': 'no-result-on-in-range-input'})
    for f in col.found:
        print('oracle failure:', f['kind'], json.dumps({k: v for k, v in f.items() if k in ('points', 'index_in_series', 'outputs_in_series[vp,dew,wet,deltaT]', 'outputs_as_single_step_run')})[:600])
    sys.exit(1 if (col.found or diff) else 0)


def main():
    for i, a in enumerate(sys.argv):
        if a == '--replay' and i + 1 < len(sys.argv):
            replay(sys.argv[i + 1])
    c = Check('C20')
    quick = c.tier == 'quick'
    build_driver(['c20'])
    build_harness(['owrun'])
    prove(c)
    rng = c.rng
    # ---- in-range runs: (kind, elevation, series of (T, RH))
    runs = []
    ts, hs = grid_temps(quick), grid_hums(quick)
    gp = grid_points(quick)
    elevs = [0.0, 500.0, 1500.0, 5000.0, 10000.0] if quick else \
        [0.0, 1.0, 100.0, 500.0, 1000.0, 1500.0, 2500.0, 4000.0, 5000.0, 7500.0, 9999.0, 10000.0]
    single_elevs = elevs if quick else [0.0, 1500.0, 10000.0]
    for e in elevs:
        runs.append(('grid', e, gp))
    # every grid temperature as the FIRST element of a short series with repeated / revisited temperatures
    for i in range(len(ts)):
        for e in (single_elevs if quick else single_elevs[:2]):
            runs.append(('head', e, head_series(ts, hs, i)))
    # the grid series rotated so that every grid temperature block also opens a long series (one elevation)
    for i in range(0, len(ts), 1 if quick else 8):
        j = i * len(hs)
        runs.append(('grid-rotated', single_elevs[i % len(single_elevs)], (gp[j:] + gp[:j])[:4 * len(hs)]))
    nrand = 10 if quick else 300
    nrand_single = nrand if quick else 40
    rand_runs = []
    for _ in range(nrand):
        e = rng.choice([rng.uniform(0, 10000), rng.uniform(0, 10000), float(rng.randint(0, 10000)), 0.0, 10000.0])
        rand_runs.append(('random', e, random_points(rng, 60 if quick else 120)))
    runs += rand_runs
    # every point of the series above ALSO as a run of its own (length 1): first-step behaviour, and the
    # reference for the metamorphic check "step k depends only on the inputs of step k"
    single_keys = {}
    def add_single(e, t, h):
        k = (f2h(e), f2h(t), f2h(h))
        if k not in single_keys:
            single_keys[k] = len(runs)
            runs.append(('single', e, [(t, h)]))
    for e in single_elevs:
        for (t, h) in gp:
            add_single(e, t, h)
        for (t, h) in [q for i in range(len(ts)) for q in head_series(ts, hs, i)]:
            add_single(e, t, h)
    for (_, e, pts) in rand_runs[:nrand_single]:
        for (t, h) in pts:
            add_single(e, t, h)
    # ---- out-of-range / malformed stream: compared model-vs-code only (NaN, floor-humidity and guard branches)
    nan, inf = float('nan'), float('inf')
    odd_pts = [(20.0, 0.0), (20.0, -5.0), (-10.0, 0.0), (20.0, nan), (nan, 50.0), (-273.16, 50.0), (-300.0, 50.0),
               (-273.15, 50.0), (-100.0, 50.0), (100.0, 50.0), (374.0, 100.0), (1000.0, 50.0), (20.0, 150.0), (20.0, 1e6),
               (inf, 50.0), (-inf, 50.0), (20.0, inf), (20.0, -inf), (-0.0, 50.0), (0.0, 100.0), (60.0, 100.0), (99.0, 100.0)]
    odd_runs = [('odd', e, odd_pts) for e in (0.0, 10000.0, 20000.0, 45076.0, 45077.0, 50000.0, -500.0, nan, inf)]
    odd_runs += [('odd', 0.0, [q]) for q in odd_pts]            # each odd point also first / alone
    odd_runs.append(('odd', 0.0, []))
    for i, (_, e, pts) in enumerate(odd_runs):
        if len(pts) == 1:
            single_keys.setdefault((f2h(e), f2h(pts[0][0]), f2h(pts[0][1])), len(runs) + i)
    allc = runs + odd_runs
    lines = [kcase(MODEL, [e], [], [[q[0] for q in pts], [q[1] for q in pts]]) for (_, e, pts) in allc]
    impl = run_impl(lines)
    model = run_model(lines)
    parsed = [parse_kresult(l) for l in impl]
    stats = new_stats()
    branch = {'temperature_above_zero': 0, 'temperature_at_or_below_zero': 0, 'bisection_moved': 0,
              'bisection_stayed_at_dew': 0, 'humidity_floor_branch(model-vs-code only)': 0,
              'nan_dew_branch(model-vs-code only)': 0}
    kinds = {}
    first_step_temps = set()
    max_rel = 0.0
    npoints = 0
    meta_checked = 0
    # shortest series first, so that the first recorded failing case is the smallest one
    for ci in sorted(range(len(allc)), key=lambda i: len(allc[i][2])):
        (kind, e, pts), li, lm = allc[ci], impl[ci], model[ci]
        ri, rm = parsed[ci], parse_kresult(lm)
        kinds[kind] = kinds.get(kind, 0) + 1
        diff = kresults_agree(ri, rm, RTOL, ATOL)
        if diff:
            m = re.search(r't=(\d+)', diff)
            k = int(m.group(1)) if m else 0
            # the series up to the differing step (position matters when state is carried inside the loop)
            one = kcase(MODEL, [e], [], [[q[0] for q in pts[:k + 1]], [q[1] for q in pts[:k + 1]]]) if pts else lines[ci]
            c.corr_broken.append({'kind': kind, 'elevation': e, 'diff': diff, 'index_in_series': k,
                                  'point': list(pts[k]) if pts else None, 'replay_case_line': one})
        if ri[0] == 'OK' and rm[0] == 'OK':
            for a, b in zip(ri[1], rm[1]):
                for x, y in zip(a, b):
                    if math.isfinite(x) and math.isfinite(y) and x != y and max(abs(x), abs(y)) > 1e-3:
                        max_rel = max(max_rel, abs(x - y) / max(abs(x), abs(y)))
        # metamorphic: the outputs of step k depend only on (elevation, dryBulb[k], humidity[k]) -- bit-exact
        # against the same point run as a series of its own (also C14's causality, restricted to this model)
        if ri[0] == 'OK' and len(pts) > 1:
            for k, (t, h) in enumerate(pts):
                si = single_keys.get((f2h(e), f2h(t), f2h(h)))
                if si is None or parsed[si][0] != 'OK':
                    continue
                meta_checked += 1
                got = [ri[1][j][k] for j in range(4)]
                alone = [parsed[si][1][j][0] for j in range(4)]
                if not same_bits(got, alone):
                    history_violation(c, 'history_%d_%d.json' % (ci, k), e, pts, k, got, alone)
                    break
        if kind == 'odd':
            if ri[0] == 'OK':
                for k, (t, h) in enumerate(pts):
                    c.count(('odd', f2h(e), f2h(t), f2h(h)), nontrivial=False)
                    if h <= 0:
                        branch['humidity_floor_branch(model-vs-code only)'] += 1
                    if ri[1][1][k] != ri[1][1][k]:
                        branch['nan_dew_branch(model-vs-code only)'] += 1
            continue
        if ri[0] != 'OK':
            c.violation('oracle_%d_crash.json' % ci, {'kind': 'no-result-on-in-range-input', 'impl': li[:200],
                                                      'elevation': e, 'replay_case_line': lines[ci]})
            continue
        outs = ri[1]
        oracle(c, ci, e, pts, outs, lines[ci], stats)
        if pts:
            first_step_temps.add(f2h(pts[0][0]))
        for k, (t, h) in enumerate(pts):
            npoints += 1
            moved = outs[2][k] != outs[1][k]
            c.count((f2h(e), f2h(t), f2h(h)), nontrivial=moved)
            branch['temperature_above_zero' if t > 0 else 'temperature_at_or_below_zero'] += 1
            branch['bisection_moved' if moved else 'bisection_stayed_at_dew'] += 1
        if pts and (kind != 'single' or ci % 997 == 0):
            k = (ci * 37) % len(pts)
            c.sample({'kind': kind, 'series_length': len(pts), 'index_in_series': k, 'elevation': e, 'dryBulb': pts[k][0],
                      'humidity': pts[k][1], 'impl_outputs[vp,dew,wet,deltaT]': [outs[j][k] for j in range(4)],
                      'model_outputs': [rm[1][j][k] for j in range(4)] if rm[0] == 'OK' else lm[:40]})
    # ---- observation (not a clause of the statement as given): ordered reading at saturation
    if stats['negative_depression'] and any(k['key'] == KEY_SAT for k in c.known):
        c.violation('saturation.json', stats['neg_example'], key=KEY_SAT)
    if stats['neg_example']:
        log('observation: dew point above dry bulb at %d points (max excess %.6f C); negative depression at %d points, e.g. %s' %
            (stats['sat_overshoot'], stats['sat_overshoot_max'], stats['negative_depression'], json.dumps(stats['neg_example'])))
    c.cov['rule'] = ('one evaluation = one (elevation, dryBulb, humidity) step run through sim.Catalog["ClimateVariables"] and through the '
                     'extracted Coq model, outputs compared to rtol 1e-9 / atol 1e-12 (libm), and the C20 oracle (finite, svp>0, svp strictly '
                     'increasing over neighbouring temperatures, min(dew,dry)<=wet<=max(dew,dry), deltaT==dry-wet bit-exact, dew strictly '
                     'increasing over neighbouring humidities, dew<=dry for RH<=99; all comparisons exact, strictness required for pairs at '
                     'least 1e-9 apart, which includes every grid pair) evaluated on the implementation\'s outputs. Series shapes: the whole '
                     'grid as one series per elevation (T in [-40,55] step %s plus both sides of 0 C (1e-9..0.1), 0.0 and -0.0, RH in '
                     '{1e-4,..,99,99.5,100}, elevations %s); every grid temperature as the FIRST step of a short series with repeated '
                     'consecutive temperatures, the same temperature at different humidities and revisits; rotations of the grid series; '
                     'random columns (T, 3 humidities) incl. RH within 1e-6 of 100; and every one of these points also as a length-1 run. '
                     'Metamorphic check: each step of each multi-step series is bit-identical to the same inputs run alone. non-trivial = '
                     'the bisection accepted at least one midpoint (wetBulb != dewPoint), distinct by (elevation,T,RH) bit patterns; '
                     'out-of-range stream (RH<=0, NaN/Inf, T<=-273.16, elevation>45077 m, empty series; as series and alone) compared '
                     'model-vs-code only' % ('2.5' if quick else '0.25', elevs))
    c.finish(extra_cov={'in_range_steps': npoints, 'runs_by_kind': kinds, 'branch_hits': branch,
                        'distinct_first_step_temperatures': len(first_step_temps),
                        'metamorphic_steps_compared_with_single_step_run': meta_checked,
                        'svp_monotonicity_pairs': stats['svp_pairs'], 'dew_monotonicity_pairs': stats['dew_pairs'],
                        'max_relative_model_vs_code_difference': max_rel,
                        'observation_ordered_reading_at_saturation': {
                            'points_with_dew_above_dry': stats['sat_overshoot'], 'max_dew_minus_dry_C': stats['sat_overshoot_max'],
                            'points_with_negative_depression': stats['negative_depression'], 'worst': stats['neg_example'],
                            'coq': 'C20_ordered_at_saturation_refuted'},
                        'exhaustive': False},
             assumptions=['theorems are over the real-number instance of the model (no round-off bound); the float instance of the same Gallina text '
                          'is what is compared with the Go code',
                          'OCaml libm (exp/log/log10/pow) stands in for Go math within rtol 1e-9',
                          'Coq-Interval computations: primitive 63-bit integers and floats (Uint63 / FloatAxioms specifications) are trusted in addition to the Reals axioms',
                          'sim.Catalog wrapper (generated Run) is exercised, not modelled, in this check (see C04)'])


if __name__ == '__main__':
    main()
