#!/usr/bin/env python3
"""C20 check: theorems in coq/Properties/C20.v (real-number model, Coq-Interval)
+ correspondence of the extracted float model Num/Climate.v with
models/climate/climate_variables.go (through sim.Catalog["ClimateVariables"])
on a T x RH x elevation grid and random points (libm tolerance)
+ the property oracle (all clauses) on the implementation's outputs."""
import sys, os, re, json, math, hashlib, glob
sys.path.insert(0, os.path.dirname(os.path.abspath(__file__)))
from vlib import *

MODEL = 'ClimateVariables'
RTOL, ATOL = 1e-9, 1e-12
KEY_SAT = 'negative-depression-at-saturation'


# ---------------------------------------------------------------- proofs (with a content-hash cache in the quick tier)
def _closure_hash():
    # exactly the .v files Properties/C20.vo depends on (see its Require lines)
    files = [os.path.join(COQ, f) for f in ('Base/Arith.v', 'Base/RInst.v', 'Num/Climate.v', 'Num/ClimateProofs.v',
                                            'Properties/C20.v')]
    h = hashlib.sha256()
    h.update(sh('coqc --version', check=False).encode())
    for f in files:
        h.update(f.encode())
        h.update(open(f, 'rb').read())
    return h.hexdigest()


def prove(c):
    """Like vlib.check_theorems, but (a) `make` is restricted to the closure of Properties/C20.vo, so
    that a file of another component cannot break this check, and (b) in the quick tier the
    theorem/axiom listing is cached: Print Assumptions through Coq-Interval's closure costs ~12 s
    per theorem and depends only on the .v sources (never on /repo).  `make` always verifies that
    every .vo of the closure is up to date (= the proofs were checked by coqc); the listing of the
    last coqc run on Properties/C20.v is reused only when the sources + coqc version hash to the
    same value.  Thorough tier or VERIF_NO_CACHE=1: always a fresh coqc run."""
    import vlib
    cache = os.path.join(OUT, 'cache', 'C20_assumptions.json')
    use_cache = c.tier == 'quick' and not os.environ.get('VERIF_NO_CACHE')
    src = open(os.path.join(COQ, 'Properties/C20.v')).read()
    names = re.findall(r'^\s*(?:Theorem|Lemma|Corollary|Example)\s+(\w+)', src, re.M)
    try:
        coq_make(['Properties/C20.vo'])
        bad = sh(r"grep -nE '\b(Admitted|admit|Axiom|Parameter|Conjecture|Unset Guard|bypass_check|Admit Obligations)\b' "
                 r"Base/Arith.v Base/RInst.v Num/Climate.v Num/ClimateProofs.v Properties/C20.v || true", cwd=COQ)
        bad = '\n'.join(l for l in bad.split('\n') if l and not re.search(r'\(\*.*(Axiom|Parameter|admit).*\*\)', l))
        if bad.strip():
            raise BuildError('forbidden declaration in development', bad)
        key = _closure_hash()
        if use_cache and os.path.exists(cache):
            try:
                d = json.load(open(cache))
            except ValueError:
                d = {}
            if d.get('hash') == key and d.get('names') == names:
                c.thm_names, c.axioms = names, d['axioms']
                c.cov['assumption_listing'] = ('reused from the last coqc run on identical sources (content hash); '
                                               '.vo files verified up to date by make')
                return
        with vlib._Lock():
            out = sh('timeout 1500 coqc -Q . OW Properties/C20.v', cwd=COQ)
        axioms = set()
        nblocks = 0
        for blk in re.split(r'\n(?=Closed under the global context|Axioms:)', '\n' + out):
            if blk.startswith('Closed under'):
                nblocks += 1
            elif blk.startswith('Axioms:'):
                nblocks += 1
                for m in re.finditer(r"^([A-Za-z_][\w.']*)\s*:", blk, re.M):
                    if m.group(1) != 'Axioms':
                        axioms.add(m.group(1))
        if nblocks != len(names):
            raise BuildError('Properties/C20.v: %d theorems but %d Print Assumptions blocks' % (len(names), nblocks), out[-2000:])
        c.thm_names, c.axioms = names, sorted(axioms)
        c.cov['assumption_listing'] = 'fresh coqc run on Properties/C20.v'
        os.makedirs(os.path.dirname(cache), exist_ok=True)
        json.dump({'hash': key, 'names': names, 'axioms': c.axioms}, open(cache, 'w'))
    except BuildError as e:
        c.proof_broken = (e.what, e.output[-3000:])
        c.thm_names = names
        log('PROOF BROKEN:', e.what)
        log(e.output[-1500:])


# ---------------------------------------------------------------- generators
def grid_points(quick):
    step = 2.5 if quick else 0.25
    n = int(round(95 / step))
    ts = set(-40 + step * k for k in range(n + 1))
    ts |= {-40.0, -39.99, -0.1, -1e-3, -1e-6, -1e-9, 0.0, 1e-9, 1e-6, 1e-3, 0.01, 0.1, 1.0, 44.19, 54.99, 55.0}
    hs = [1e-4, 1e-2, 1.0, 10.0, 25.0, 50.0, 75.0, 90.0, 99.0, 99.5, 100.0]
    if not quick:
        hs = sorted(set(hs + [1e-3, 0.1, 5.0, 40.0, 60.0, 95.0, 98.0, 99.9, 99.99, 99.999]))
    return [(t, h) for t in sorted(ts) for h in hs]


def random_points(rng, ncols):
    pts = []
    for _ in range(ncols):
        r = rng.random()
        if r < 0.15:
            t = rng.choice([-1, 1]) * 10 ** rng.uniform(-12, -1)     # both sides of 0 C, close to it
        elif r < 0.25:
            t = rng.choice([-40.0, 55.0, -40.0 + 1e-9, 55.0 - 1e-9, -39.999, 54.999])
        else:
            t = rng.uniform(-40, 55)
        hs = set()
        while len(hs) < 3:
            q = rng.random()
            if q < 0.3:
                hs.add(10 ** rng.uniform(-4, 2))
            elif q < 0.6:
                hs.add(rng.uniform(1e-4, 100))
            elif q < 0.8:
                hs.add(100 - 10 ** rng.uniform(-6, 0))
            else:
                hs.add(rng.choice([100.0, 99.0, 1e-4]))
        for h in sorted(hs):
            pts.append((t, h))
    return pts


# ---------------------------------------------------------------- oracle on the implementation's outputs
def oracle(c, ci, e, pts, outs, line, stats):
    """All clauses of C20 on one case (one elevation, a series of (T, RH) points)."""
    vp, dew, wet, dlt = outs
    nviol = 0

    def viol(kind, idxs, extra=None):
        nonlocal nviol
        nviol += 1
        obj = {'kind': kind, 'elevation': e,
               'points': [{'dryBulb': pts[k][0], 'humidity': pts[k][1], 'vaporPressure': vp[k], 'dewPoint': dew[k],
                           'wetBulb': wet[k], 'deltaT': dlt[k]} for k in idxs],
               'replay_case_line': kcase(MODEL, [e], [], [[pts[k][0] for k in idxs], [pts[k][1] for k in idxs]])}
        if extra:
            obj.update(extra)
        c.violation('oracle_%d_%s.json' % (ci, kind), obj)

    for k, (t, h) in enumerate(pts):
        o = (vp[k], dew[k], wet[k], dlt[k])
        if not all(math.isfinite(x) for x in o):
            viol('non-finite-output', [k])
            continue
        if not vp[k] > 0:
            viol('svp-not-positive', [k])
        if not (min(dew[k], t) <= wet[k] <= max(dew[k], t)):
            viol('wet-bulb-not-between-dew-and-dry', [k])
        if dlt[k] != t - wet[k]:
            viol('depression-not-dry-minus-wet', [k], {'expected': t - wet[k]})
        if h <= 99 and not (dew[k] <= t):
            # proved for the real-number model (C20_step_physically_ordered): dew <= dry up to RH 99 %
            viol('dew-above-dry-below-99', [k])
        if dew[k] > t:
            stats['sat_overshoot'] += 1
            stats['sat_overshoot_max'] = max(stats['sat_overshoot_max'], dew[k] - t)
            if dlt[k] < 0:
                stats['negative_depression'] += 1
                if stats['neg_example'] is None or dlt[k] < stats['neg_example']['deltaT']:
                    stats['neg_example'] = {'elevation': e, 'dryBulb': t, 'humidity': h, 'dewPoint': dew[k],
                                            'wetBulb': wet[k], 'deltaT': dlt[k]}
    # svp strictly increasing: neighbouring distinct temperatures of this case
    byt = {}
    for k, (t, h) in enumerate(pts):
        byt.setdefault(t, k)
    tsorted = sorted(byt)
    for a, b in zip(tsorted, tsorted[1:]):
        ka, kb = byt[a], byt[b]
        stats['svp_pairs'] += 1
        if not (math.isfinite(vp[ka]) and math.isfinite(vp[kb])):
            continue
        # strict for temperatures at least 1e-9 C apart (every grid pair); closer random pairs cannot be
        # separated in binary64, there: non-decreasing up to 4 ulp
        if (b - a >= 1e-9 and not vp[ka] < vp[kb]) or (b - a < 1e-9 and not vp[ka] <= vp[kb] * (1 + 1e-15)):
            viol('svp-not-increasing', [ka, kb])
    # same temperature must give the same svp whatever the humidity
    for k, (t, h) in enumerate(pts):
        if vp[k] != vp[byt[t]] and math.isfinite(vp[k]):
            viol('svp-depends-on-humidity', [byt[t], k])
    # dew point strictly increasing in humidity at fixed temperature
    cols = {}
    for k, (t, h) in enumerate(pts):
        cols.setdefault(t, []).append((h, k))
    for t, col in cols.items():
        col.sort()
        for (h1, k1), (h2, k2) in zip(col, col[1:]):
            if h1 == h2:
                continue
            stats['dew_pairs'] += 1
            if not (math.isfinite(dew[k1]) and math.isfinite(dew[k2])):
                continue
            # strict for humidities at least 1e-9 (relative) apart (every grid pair); closer: non-decreasing up to 1e-12 C
            if (h2 - h1 >= 1e-9 * h2 and not dew[k1] < dew[k2]) or (h2 - h1 < 1e-9 * h2 and not dew[k1] <= dew[k2] + 1e-12):
                viol('dew-not-increasing-in-humidity', [k1, k2])
    return nviol


# ---------------------------------------------------------------- replay
class _Collect:
    def __init__(self):
        self.found = []

    def violation(self, name, obj, key=None, no_input=False):
        self.found.append(obj)
        return True


def replay(path):
    """python3 tools/c20.py --replay out/C20/<file>.json : re-run the recorded point(s) on the
    implementation (rebuilt from /repo) and on the model, compare, re-evaluate the oracle."""
    obj = json.load(open(path))
    line = obj.get('replay_case_line')
    if not line and obj.get('mismatches'):
        line = obj['mismatches'][0].get('replay_case_line')
    if not line:
        print('replay file records a broken proof obligation, not an input: %s' % obj.get('kind'))
        print(json.dumps(obj, indent=1)[:3000])
        sys.exit(1)
    build_driver(['c20'])
    build_harness(['owrun'])
    li = run_impl([line])[0]
    lm = run_model([line])[0]
    print('case :', line)
    print('impl :', li)
    print('model:', lm)
    t = line.split()
    e = h2f(t[4])
    n = int(t[9])
    pts = list(zip([h2f(x) for x in t[10:10 + n]], [h2f(x) for x in t[10 + n:10 + 2 * n]]))
    ri, rm = parse_kresult(li), parse_kresult(lm)
    print('elevation %r points %r' % (e, pts))
    if ri[0] == 'OK':
        print('impl outputs [vp, dew, wet, deltaT] per point:', [[ri[1][j][k] for j in range(4)] for k in range(n)])
    diff = kresults_agree(ri, rm, RTOL, ATOL)
    if diff:
        print('model and implementation differ:', diff)
    col = _Collect()
    inrange = all(-40 <= a <= 55 and 0 < b <= 100 for a, b in pts) and 0 <= e <= 10000
    if ri[0] == 'OK' and inrange:
        stats = {'sat_overshoot': 0, 'sat_overshoot_max': 0.0, 'negative_depression': 0, 'neg_example': None,
                 'svp_pairs': 0, 'dew_pairs': 0}
        oracle(col, 0, e, pts, ri[1], line, stats)
    elif inrange:
        col.found.append({'kind': 'no-result-on-in-range-input'})
    for f in col.found:
        print('oracle failure:', f['kind'])
    sys.exit(1 if (col.found or diff) else 0)


def main():
    for i, a in enumerate(sys.argv):
        if a == '--replay' and i + 1 < len(sys.argv):
            replay(sys.argv[i + 1])
    c = Check('C20')
    quick = c.tier == 'quick'
    build_driver(['c20'])
    build_harness(['owrun'])
    prove(c)
    rng = c.rng
    # ---- in-range cases: (elevation, points)
    cases = []
    gp = grid_points(quick)
    elevs = [0.0, 500.0, 1500.0, 5000.0, 10000.0] if quick else \
        [0.0, 1.0, 100.0, 500.0, 1000.0, 1500.0, 2500.0, 4000.0, 5000.0, 7500.0, 9999.0, 10000.0]
    for e in elevs:
        cases.append(('grid', e, gp))
    for _ in range(10 if quick else 300):
        e = rng.choice([rng.uniform(0, 10000), rng.uniform(0, 10000), float(rng.randint(0, 10000)), 0.0, 10000.0])
        cases.append(('random', e, random_points(rng, 60 if quick else 120)))
    # ---- out-of-range / malformed stream: compared model-vs-code only (NaN, floor-humidity and guard branches)
    nan, inf = float('nan'), float('inf')
    odd_pts = [(20.0, 0.0), (20.0, -5.0), (-10.0, 0.0), (20.0, nan), (nan, 50.0), (-273.16, 50.0), (-300.0, 50.0),
               (-273.15, 50.0), (-100.0, 50.0), (100.0, 50.0), (374.0, 100.0), (1000.0, 50.0), (20.0, 150.0), (20.0, 1e6),
               (inf, 50.0), (-inf, 50.0), (20.0, inf), (20.0, -inf), (-0.0, 50.0), (0.0, 100.0), (60.0, 100.0), (99.0, 100.0)]
    odd_cases = [('odd', e, odd_pts) for e in (0.0, 10000.0, 20000.0, 45076.0, 45077.0, 50000.0, -500.0, nan, inf)]
    odd_cases.append(('odd', 0.0, []))
    allc = cases + odd_cases
    lines = [kcase(MODEL, [e], [], [[p[0] for p in pts], [p[1] for p in pts]]) for (_, e, pts) in allc]
    impl = run_impl(lines)
    model = run_model(lines)
    stats = {'sat_overshoot': 0, 'sat_overshoot_max': 0.0, 'negative_depression': 0, 'neg_example': None,
             'svp_pairs': 0, 'dew_pairs': 0}
    branch = {'temperature_above_zero': 0, 'temperature_at_or_below_zero': 0, 'bisection_moved': 0,
              'bisection_stayed_at_dew': 0, 'humidity_floor_branch(model-vs-code only)': 0,
              'nan_dew_branch(model-vs-code only)': 0}
    max_rel = 0.0
    npoints = 0
    for ci, ((kind, e, pts), li, lm) in enumerate(zip(allc, impl, model)):
        ri, rm = parse_kresult(li), parse_kresult(lm)
        diff = kresults_agree(ri, rm, RTOL, ATOL)
        if diff:
            # name the point so the mismatch can be replayed on its own
            m = re.search(r't=(\d+)', diff)
            k = int(m.group(1)) if m else 0
            one = kcase(MODEL, [e], [], [[pts[k][0]], [pts[k][1]]]) if pts else lines[ci]
            c.corr_broken.append({'kind': kind, 'elevation': e, 'diff': diff,
                                  'point': list(pts[k]) if pts else None, 'replay_case_line': one})
        if ri[0] == 'OK' and rm[0] == 'OK':
            for a, b in zip(ri[1], rm[1]):
                for x, y in zip(a, b):
                    if math.isfinite(x) and math.isfinite(y) and x != y and max(abs(x), abs(y)) > 1e-3:
                        max_rel = max(max_rel, abs(x - y) / max(abs(x), abs(y)))
        if kind == 'odd':
            if ri[0] == 'OK':
                for k, (t, h) in enumerate(pts):
                    c.count(('odd', e, t, h), nontrivial=False)
                    if h <= 0:
                        branch['humidity_floor_branch(model-vs-code only)'] += 1
                    if ri[1][1][k] != ri[1][1][k]:
                        branch['nan_dew_branch(model-vs-code only)'] += 1
            continue
        if ri[0] != 'OK':
            c.violation('oracle_%d_crash.json' % ci, {'kind': 'no-result-on-in-range-input', 'impl': li[:200],
                                                      'elevation': e, 'replay_case_line': lines[ci]})
            continue
        outs = ri[1]
        oracle(c, ci, e, pts, outs, lines[ci], stats)
        for k, (t, h) in enumerate(pts):
            npoints += 1
            moved = outs[2][k] != outs[1][k]
            c.count((e, t, h), nontrivial=moved)
            branch['temperature_above_zero' if t > 0 else 'temperature_at_or_below_zero'] += 1
            branch['bisection_moved' if moved else 'bisection_stayed_at_dew'] += 1
        if pts:
            k = (ci * 37) % len(pts)
            c.sample({'elevation': e, 'dryBulb': pts[k][0], 'humidity': pts[k][1],
                      'impl_outputs[vp,dew,wet,deltaT]': [outs[j][k] for j in range(4)],
                      'model_outputs': [rm[1][j][k] for j in range(4)] if rm[0] == 'OK' else lm[:40]})
    # ---- observation (not a clause of the statement as given): ordered reading at saturation
    if stats['negative_depression'] and any(k['key'] == KEY_SAT for k in c.known):
        c.violation('saturation.json', stats['neg_example'], key=KEY_SAT)
    if stats['neg_example']:
        log('observation: dew point above dry bulb at %d points (max excess %.6f C); negative depression at %d points, e.g. %s' %
            (stats['sat_overshoot'], stats['sat_overshoot_max'], stats['negative_depression'], json.dumps(stats['neg_example'])))
    c.cov['rule'] = ('one evaluation = one (elevation, dryBulb, humidity) point run through sim.Catalog["ClimateVariables"] (series packed per '
                     'elevation) and through the extracted Coq model, outputs compared to rtol 1e-9 / atol 1e-12 (libm), and the C20 oracle '
                     '(finite, svp>0, svp strictly increasing over neighbouring temperatures, min(dew,dry)<=wet<=max(dew,dry), deltaT==dry-wet '
                     'bit-exact, dew strictly increasing over neighbouring humidities, dew<=dry for RH<=99; all comparisons exact, strictness required for '
                     'pairs at least 1e-9 apart, which includes every grid pair) evaluated on the implementation\'s '
                     'outputs; grid: T in [-40,55] step %s plus both sides of 0 C (1e-9..0.1), RH in {1e-4,..,99,99.5,100}, elevations %s; random '
                     'columns (T, 3 humidities) incl. RH within 1e-6 of 100; non-trivial = the bisection accepted at least one midpoint '
                     '(wetBulb != dewPoint), distinct by (elevation,T,RH); out-of-range stream (RH<=0, NaN/Inf, T<=-273.16, elevation>45077 m, '
                     'empty series) compared model-vs-code only' % ('2.5' if quick else '0.25', elevs))
    c.finish(extra_cov={'in_range_points': npoints, 'cases(series)': len(allc), 'branch_hits': branch,
                        'svp_monotonicity_pairs': stats['svp_pairs'], 'dew_monotonicity_pairs': stats['dew_pairs'],
                        'max_relative_model_vs_code_difference': max_rel,
                        'observation_ordered_reading_at_saturation': {
                            'points_with_dew_above_dry': stats['sat_overshoot'], 'max_dew_minus_dry_C': stats['sat_overshoot_max'],
                            'points_with_negative_depression': stats['negative_depression'], 'worst': stats['neg_example'],
                            'coq': 'C20_ordered_at_saturation_refuted'},
                        'checker_cmd': 'cd /verif/coq && make -j16 Properties/C20.vo && coqc -Q . OW Properties/C20.v   '
                                       '(closure of Properties/C20.vo: Base/Arith Base/RInst Num/Climate Num/ClimateProofs)',
                        'exhaustive': False},
             assumptions=['theorems are over the real-number instance of the model (no round-off bound); the float instance of the same Gallina text '
                          'is what is compared with the Go code',
                          'OCaml libm (exp/log/log10/pow) stands in for Go math within rtol 1e-9',
                          'Coq-Interval computations: primitive 63-bit integers and floats (Uint63 / FloatAxioms specifications) are trusted in addition to the Reals axioms',
                          'sim.Catalog wrapper (generated Run) is exercised, not modelled, in this check (see C04)'])


if __name__ == '__main__':
    main()
