#!/usr/bin/env python3
"""C11 check: theorems in coq/Properties/C11.v + correspondence of
Kernels/{StorageRouting,Muskingum,Lag}.v with models/routing/*.go and
util/fn/root.go (through sim.Catalog) + the property's oracle evaluated on the
IMPLEMENTATION's outputs:

  StorageRouting  per-step water-balance residual (with the net evaporation flux as the
                  code defines it: min(max(0,S)/dt + inflow, area*(evap-rain)/dt)),
                  non-negativity of outflow and storage, and for bias 0 and Q > 0
                  |S - (k*Q^m + dead)| <= k*(massBalanceLimit/dt)^m   (+ round-off)
  Muskingum       steady pass-through, the exact volume budget
                  dt*sum(out) + V_T = dt*sum(in+lat) + V_0,
                  V = ((dt+2KX)*u + (2K(1-X)-dt)*o)/2, events followed by a long recession
                  (sum out = sum in+lat up to a3^N), non-negativity in the stable region
  Lag             out = (buffer ++ inflow)[:T], new buffer = (buffer ++ inflow)[-L:]

Lag and Muskingum are compared bit-exactly with the extracted model; StorageRouting
to rtol 1e-9 (math.Pow vs OCaml **) and, when that fails, to the solver tolerance.

(Development aid: C11_DEV_BIN=<dir> runs the case streams against <dir>/owrun and
<dir>/oc/driver without building or proving anything.)"""
import sys, os, math
from fractions import Fraction as Fr
sys.path.insert(0, os.path.dirname(os.path.abspath(__file__)))
from vlib import *

LIMIT = 1e-3          # massBalanceLimit

_DEV = os.environ.get('C11_DEV_BIN')      # development only: directory with private owrun / driver


def _run_filtered(binary, lines, env=None, timeout=900):
    """vlib.run_lines, but only protocol lines count as results: storage_routing.go prints diagnostics
    (inflow=..., outflow=..., newStorage=...) to stdout before its NaN panics, which would otherwise shift
    the result stream.  A process crash is CRASH for the case it died on; the rest is re-run."""
    import subprocess
    results, i, n = [], 0, len(lines)
    while i < n:
        chunk = lines[i:]
        p = subprocess.run([binary], input='\n'.join(chunk) + '\n', stdout=subprocess.PIPE, stderr=subprocess.PIPE,
                           text=True, timeout=timeout, env=env)
        got = [l for l in p.stdout.split('\n') if l.startswith(('OK ', 'PANIC', 'NOMODEL', 'NOCMD'))]
        if len(got) >= len(chunk):
            results.extend(got[:len(chunk)])
            break
        results.extend(got)
        msg = ''
        for l in p.stderr.strip().split('\n'):
            if l.startswith('panic:') or l.startswith('fatal error:') or 'SIGSEGV' in l:
                msg = l.strip()
                break
        results.append('CRASH ' + msg[:160])
        i += len(got) + 1
    return results


def impl_run(lines):
    if _DEV:
        return _run_filtered(os.path.join(_DEV, 'owrun'), lines, env=GOENV)
    return _run_filtered(os.path.join(HARNESS, 'bin', 'owrun'), lines, env=GOENV)


def model_run(lines):
    if _DEV:
        return run_lines(os.path.join(_DEV, 'oc', 'driver'), lines, crash_token='MODELCRASH')
    return run_model(lines)


# ------------------------------------------------------------------ series generators
def gen_series(rng, n, regime, scale):
    if regime == 'zero':
        return [0.0] * n
    if regime == 'const':
        return [scale] * n
    if regime == 'pulse':
        s = [0.0] * n
        if n:
            a = rng.randrange(n)
            for j in range(a, min(n, a + rng.choice([1, 1, 2, 5]))):
                s[j] = scale * rng.uniform(0.5, 2.0)
        return s
    if regime == 'wet':
        return [scale * rng.expovariate(1.0) for _ in range(n)]
    if regime == 'spells':      # wet periods separated by zero-flow spells
        s, t = [], 0
        while len(s) < n:
            ln = rng.randint(1, 8)
            if rng.random() < 0.5:
                s += [0.0] * ln
            else:
                s += [scale * rng.expovariate(1.0) for _ in range(ln)]
        return s[:n]
    if regime == 'tiny':
        return [rng.choice([0.0, 1e-9, 1e-7, 1e-5]) * rng.uniform(0.5, 2) for _ in range(n)]
    if regime == 'recession':
        return [scale * math.exp(-0.2 * j) for j in range(n)]
    raise ValueError(regime)


REGIMES = ['zero', 'const', 'const', 'pulse', 'pulse', 'wet', 'wet', 'wet', 'spells', 'spells', 'spells', 'tiny', 'recession', 'recession']


def grid(rng, lo, hi, bits=20):
    """a float in [lo,hi] on the grid of multiples of 2^-bits (so that 1-x is exact)"""
    q = 1 << bits
    return rng.randint(int(math.ceil(lo * q)), int(math.floor(hi * q))) / q


# ------------------------------------------------------------------ Muskingum
def musk_cases(rng, n):
    cs = []
    for i in range(n):
        kind = rng.choice(['stable', 'stable', 'stable', 'edge', 'outside', 'steady', 'steady', 'event', 'event'])
        dt = rng.choice([86400.0, 86400.0, 3600.0, 1.0, 43200.0, 600.0])
        X = rng.choice([0.0, 0.5, grid(rng, 0.0, 0.5), grid(rng, 0.0, 0.5), grid(rng, 0.0, 0.3)])
        # stable region: dt/(2(1-X)) <= K <= dt/(2X)
        klo = Fr(dt) / (2 * (1 - Fr(X)))
        khi = Fr(dt) / (2 * Fr(X)) if X > 0 else Fr(200000)
        if khi < klo:
            khi = klo
        if kind in ('stable', 'steady'):
            K = float(klo + (khi - klo) * Fr(rng.random()))
        elif kind == 'event':
            # keep a3 <= 0.9 so that the recession dies within the series
            khi2 = min(khi, klo * 19)
            K = float(klo + (khi2 - klo) * Fr(rng.random()))
        elif kind == 'edge':
            K = float(rng.choice([klo, khi]))
        else:
            K = rng.choice([float(klo) * rng.uniform(0.05, 0.95), float(khi) * rng.uniform(1.05, 4.0), 0.0,
                            rng.uniform(0, 200000)])
            if rng.random() < 0.15:
                dt = 0.0            # with K = 0 the denominator is 0: NaN/Inf outputs on both sides
        T = rng.choice([0, 1, 2, 7, 40, 40, 120, 400])
        scale = rng.choice([0.01, 1.0, 10.0, 250.0, 1e4])
        S0 = rng.choice([0.0, rng.uniform(0, 1e6)])
        if kind == 'steady':
            fi, fl = scale * rng.uniform(0.1, 2), rng.choice([0.0, scale * rng.uniform(0.1, 2)])
            c = fi + fl
            cs.append(dict(kind=kind, K=K, X=X, dt=dt, states=[S0, c, c], inflow=[fi] * T, lateral=[fl] * T, c=c))
        elif kind == 'event':
            T = rng.choice([7, 40, 120])
            tail = 400
            fi = gen_series(rng, T, rng.choice(['pulse', 'wet', 'spells', 'recession']), scale) + [0.0] * tail
            fl = gen_series(rng, T, rng.choice(['zero', 'pulse', 'wet', 'const']), scale * rng.choice([0.1, 1.0])) + [0.0] * tail
            cs.append(dict(kind=kind, K=K, X=X, dt=dt, states=[S0, 0.0, 0.0], inflow=fi, lateral=fl, tail=tail))
        else:
            st = [S0, 0.0, 0.0] if rng.random() < 0.4 else [S0, scale * rng.random(), scale * rng.random()]
            cs.append(dict(kind=kind, K=K, X=X, dt=dt, states=st,
                           inflow=gen_series(rng, T, rng.choice(REGIMES), scale),
                           lateral=gen_series(rng, T, rng.choice(REGIMES), scale * rng.choice([0.1, 1.0]))))
    return cs


def musk_line(cs):
    return kcase('Muskingum', [cs['K'], cs['X'], cs['dt']], cs['states'], [cs['inflow'], cs['lateral']])


def musk_stable(cs):
    K, X, dt = Fr(cs['K']), Fr(cs['X']), Fr(cs['dt'])
    return 2 * K * X <= dt <= 2 * K * (1 - X) and dt > 0


def musk_oracle(cs, res):
    """-> list of (failure class, detail)"""
    kind, outs, sts = res
    fails = []
    if kind != 'OK':
        return [('crash', kind)]
    o = outs[0]
    u = [a + b for a, b in zip(cs['inflow'], cs['lateral'])]
    T = len(o)
    K, X, dt = Fr(cs['K']), Fr(cs['X']), Fr(cs['dt'])
    denom = 2 * K * (1 - X) + dt
    if any(v != v or math.isinf(v) for v in o):
        if denom != 0 and musk_stable(cs):
            fails.append(('non-finite', None))
        return fails
    # exact volume budget (division free):  dt*sum(o) + V_T = dt*sum(u) + V_0
    def V(uu, oo):
        return ((dt + 2 * K * X) * Fr(uu) + (2 * K * (1 - X) - dt) * Fr(oo)) / 2
    if denom != 0 and dt != 0:
        u0, o0 = cs['states'][1], cs['states'][2]
        uT, oT = (u[-1], o[-1]) if T else (u0, o0)
        # what the code should carry over: the last total inflow and the last outflow
        lhs = dt * sum(Fr(v) for v in o) + V(uT, oT)
        rhs = dt * sum(Fr(v) for v in u) + V(u0, o0)
        mag = dt * (sum(abs(Fr(v)) for v in o) + sum(abs(Fr(v)) for v in u)) + abs(V(u0, o0)) + abs(V(uT, oT)) + abs(K) * (abs(Fr(u0)) + abs(Fr(o0)))
        # round-off amplification: errors in o are multiplied by 1/(1-a3) = denom/(2dt) at worst
        amp = max(Fr(1), abs(denom / (2 * dt)))
        if musk_stable(cs) and abs(lhs - rhs) > Fr(1, 10 ** 12) * mag * amp * max(T, 1) + Fr(1, 10 ** 300):
            fails.append(('volume-budget', dict(lhs=float(lhs), rhs=float(rhs), mag=float(mag))))
        if T and (sts[1] != u[-1] or sts[2] != o[-1]):
            fails.append(('carried-state', dict(states=sts, expect=[u[-1], o[-1]])))
    if cs['kind'] == 'steady' and musk_stable(cs):
        c = cs['c']
        amp = float(max(Fr(1), abs(denom / (2 * dt))))
        for t, v in enumerate(o):
            if abs(v - c) > 1e-13 * amp * abs(c) * 8:
                fails.append(('steady-pass-through', dict(t=t, got=v, expect=c)))
                break
    if cs['kind'] == 'event' and musk_stable(cs):
        a3 = float((2 * K * (1 - X) - dt) / denom)
        su, so = math.fsum(u), math.fsum(o)
        resid = (abs(a3) ** (cs['tail'] - 1)) * su * float(denom / (2 * dt)) * 4
        if abs(so - su) > 1e-9 * su + resid + 1e-300:
            fails.append(('event-volume', dict(sum_out=so, sum_in=su, a3=a3)))
    if musk_stable(cs) and all(v >= 0 for v in cs['states'][1:]):
        for t, v in enumerate(o):
            if v < 0:
                fails.append(('negative-outflow', dict(t=t, got=v)))
                break
    return fails


# ------------------------------------------------------------------ Lag
def lag_cases(rng, n):
    cs = []
    for i in range(n):
        T = rng.choice([0, 1, 2, 3, 7, 7, 40, 40, 120])
        L = rng.choice([0, 1, 2, rng.randint(0, max(1, T)), rng.randint(0, 2 * T + 2), T, T + 1, 2 * T, max(0, T - 1)])
        r = rng.random()
        if r < 0.8:
            buf = [rng.choice([rng.uniform(0.1, 100), rng.uniform(0.1, 100), 0.0]) for _ in range(L)]
            kind = 'valid'
        elif r < 0.9:
            buf = [rng.uniform(0.1, 100) for _ in range(L + rng.randint(1, 3))]     # longer state vector
            kind = 'long-state'
        elif r < 0.95 and L > 0:
            buf = [rng.uniform(0.1, 100) for _ in range(rng.randint(0, L - 1))]     # too short: panics
            kind = 'short-state'
        else:
            buf = [0.0] * L
            kind = 'valid'
        frac = rng.choice([0.0, 0.0, 0.0, 0.25, 0.999])
        inflow = gen_series(rng, T, rng.choice(['wet', 'wet', 'spells', 'pulse', 'const', 'zero']), rng.choice([1.0, 50.0]))
        cs.append(dict(kind=kind, L=L, timeLag=L + frac, buf=buf, inflow=inflow))
    # a few negative lags (both sides panic)
    for L in (-1.0, -3.5):
        cs.append(dict(kind='negative', L=int(L), timeLag=L, buf=[1.0, 2.0], inflow=[1.0, 2.0, 3.0]))
    return cs


def lag_line(cs):
    return kcase('Lag', [cs['timeLag']], cs['buf'], [cs['inflow']])


def lag_oracle(cs, res):
    kind, outs, sts = res
    if cs['kind'] in ('short-state', 'negative'):
        return []                       # outside the property's domain (compared with the model only)
    if kind != 'OK':
        return [('crash', kind)]
    L, T = cs['L'], len(cs['inflow'])
    buf, rest = cs['buf'][:L], cs['buf'][L:]
    whole = buf + cs['inflow']
    fails = []
    if outs[0] != whole[:T]:
        fails.append(('delayed-series', dict(expect=whole[:T][:12], got=outs[0][:12])))
    exp_state = (whole[len(whole) - L:] if L > 0 else []) + rest
    if sts != exp_state:
        fails.append(('carried-buffer', dict(expect=exp_state[:12], got=sts[:12])))
    return fails


# ------------------------------------------------------------------ StorageRouting
def sr_cases(rng, n):
    cs = []
    for i in range(n):
        dom = rng.choice(['stable'] * 16 + ['highbias', 'outside', 'outside', 'smallk'])
        dt = rng.choice([86400.0, 86400.0, 86400.0, 3600.0, 43200.0, 1.0])
        m = rng.choice([1.0, 1.0, rng.uniform(0.5, 1.0), rng.uniform(0.3, 1.0), 0.75, 0.9995])
        k = math.exp(rng.uniform(math.log(50.0), math.log(2e6)))
        if rng.random() < 0.3:
            k = dt * rng.choice([0.5, 1.0, 0.25, 2.0])
        bias = 0.0
        r = rng.random()
        if r < 0.45:
            bias = 0.0
        elif r < 0.5:
            bias = rng.choice([0.0005, -0.0005, 0.000999])
        else:
            hi = min(0.998, dt / (2 * k))
            if hi <= 0.001:
                bias = 0.0
            else:
                bias = rng.choice([hi, rng.uniform(0.001, hi), rng.uniform(0.001, hi), min(hi, 0.5)])
        if dom == 'highbias':
            k = dt * rng.uniform(0.05, 0.5)
            bias = rng.choice([0.999, 0.9995, 1.0])
        if dom == 'outside':
            w = rng.choice(['m>1', 'bias>limit', 'bias>1'])
            if w == 'm>1':
                m = rng.uniform(1.002, 2.0)
            elif w == 'bias>limit':
                k = dt * rng.uniform(1.0, 20.0)
                bias = rng.uniform(min(0.99, dt / (2 * k) * 1.1), 0.998)
            else:
                bias = rng.uniform(1.0005, 1.5)
        if dom == 'smallk':
            k = rng.choice([0.0, 1e-9, 1e-6, 1e-3, 1.0])
            if bias * 2 * k > dt:
                bias = 0.0
        dead = rng.choice([0.0, 0.0, 0.0, 100.0, 1e5, rng.uniform(0, 1e4)])
        area = rng.choice([0.0, 0.0, 1e4, 1e6, 1e7])
        T = rng.choice([1, 2, 7, 40, 40, 40, 120])
        scale = rng.choice([0.01, 1.0, 10.0, 250.0, 1e4, 1e5])
        inflow = gen_series(rng, T, rng.choice(REGIMES), scale)
        lateral = gen_series(rng, T, rng.choice(['zero', 'zero'] + REGIMES), scale * rng.choice([0.1, 1.0]))
        rain = gen_series(rng, T, rng.choice(['zero', 'zero', 'wet', 'spells']), 5.0)
        evap = gen_series(rng, T, rng.choice(['zero', 'const', 'wet', 'wet']), rng.choice([3.0, 6.0, 50.0]))
        if dom == 'outside' and rng.random() < 0.3 and T > 0:
            # malformed stream (model vs code only): NaN / negative inputs, zero time step
            w = rng.choice(['nan', 'neg', 'dt0'])
            j = rng.randrange(T)
            if w == 'nan':
                rng.choice([inflow, lateral, evap])[j] = float('nan')
            elif w == 'neg':
                inflow[j] = -abs(inflow[j]) - 1.0
            else:
                dt = 0.0
        if rng.random() < 0.55:
            st = [0.0, 0.0, 0.0]
        else:
            s0 = rng.choice([rng.uniform(0, 1e6), rng.uniform(0, 1e3), dead, rng.uniform(0, 1e8)])
            st = [s0, scale * rng.random(), scale * rng.random()]
        cs.append(dict(dom=dom, bias=bias, k=k, m=m, area=area, dead=dead, dt=dt, states=st,
                       inflow=inflow, lateral=lateral, rain=rain, evap=evap))
    return cs


def sr_line(cs, name='StorageRouting'):
    return kcase(name, [cs['bias'], cs['k'], cs['m'], cs['area'], cs['dead'], cs['dt']], cs['states'],
                 [cs['inflow'], cs['lateral'], cs['rain'], cs['evap']])


def sr_in_domain(cs):
    b = 0.0 if abs(cs['bias']) < 0.001 else cs['bias']
    return (cs['k'] >= 0 and 0 < cs['m'] <= 1.0 and cs['dead'] >= 0 and cs['dt'] > 0 and cs['area'] >= 0
            and 0 <= b and 2 * cs['k'] * b <= cs['dt'] * (1 + 1e-12) and b <= 1.0)


def sr_oracle(cs, res):
    """Property oracle on one side's outputs. -> list of (class, t, detail), every failing step."""
    kind, outs, sts = res
    if kind != 'OK':
        return [('crash', -1, kind)]
    Q, S = outs[0], outs[1]
    dt, k, m, dead, area = cs['dt'], cs['k'], cs['m'], cs['dead'], cs['area']
    bias0 = abs(cs['bias']) < 0.001
    fails = []
    sp = cs['states'][0]
    for t in range(len(Q)):
        q, s = Q[t], S[t]
        inf, lat = cs['inflow'][t], cs['lateral'][t]
        if q != q or s != s:
            fails.append(('nan-output', t, dict(t=t)))
            break
        rate = (cs['evap'][t] - cs['rain'][t]) / dt
        ev = min(max(0.0, sp) / dt + inf, area * rate)
        resid = (s - sp) - (inf + lat - q - ev) * dt
        rnd = 1e-9 * (abs(s) + abs(sp) + (inf + lat + q + abs(ev)) * dt) + 1e-9
        tol = rnd + (LIMIT if q == 0.0 else 0.0)
        if abs(resid) > tol:
            fails.append(('water-balance', t, dict(t=t, residual=resid, tol=tol, outflow=q, storage=s, prev_storage=sp,
                                                    inflow=inf, lateral=lat, evap_flux=ev)))
        if q < 0 or s < 0:
            fails.append(('negative', t, dict(t=t, outflow=q, storage=s)))
        if bias0 and q * dt > rnd and m <= 1.0:     # positive outflow (above round-off of the volumes in play)
            # converged exits: |q_index - Q|*dt <= massBalanceLimit and S = k q_index^m + dead, hence (m <= 1)
            # |S - (k Q^m + dead)| <= k (massBalanceLimit/dt)^m ; maximum-flow exit without lateral: < massBalanceLimit
            tolS = (k * (LIMIT / dt) ** m + LIMIT) * (1 + 1e-6) + 1e-9 * (abs(s) + k * q ** m + dead) + 1e-9
            d = s - (k * q ** m + dead)
            if abs(d) > tolS:
                fails.append(('storage-discharge-relation', t,
                              dict(t=t, storage=s, outflow=q, lateral=lat, k=k, m=m, dead=dead, diff=d, tol=tolS)))
        sp = s
    if len(Q) and sts[0] != S[-1]:
        fails.append(('carried-storage', len(Q) - 1, dict(state=sts[0], last=S[-1])))
    return fails


def sr_known_key(cs, cls, t, paths, model_fail_set):
    """The key of a known finding, ONLY when its trigger predicate holds on the input at step t AND the faithful
    model reproduces the same failure (same class at the same step on the model's own outputs)."""
    if paths is None or t < 0 or t >= len(paths) or (cls, t) not in model_fail_set:
        return None
    path = paths[t]
    if cls == 'water-balance' and path == 2 and abs(cs['bias']) >= 0.999:
        return 'sr-highbias-index-storage'
    if cls == 'storage-discharge-relation' and path == 4 and cs['lateral'][t] > 0:
        return 'sr-maxflow-lateral-held'
    if cls in ('water-balance', 'storage-discharge-relation') and path == 7:
        return 'sr-solver-unconverged'
    return None


def sr_agree(cs, ri, rm):
    """None / 'solver' / description: agreement to rtol 1e-9 (+ 1e-9 of the volumes in play), agreement only
    within the solver tolerance, or mismatch"""
    dt = cs['dt']
    scale = max([abs(cs['states'][0])] + [(a + b) * dt for a, b in zip(cs['inflow'], cs['lateral'])] + [1e-3])
    if ri[0] == 'OK':
        scale = max([scale] + [abs(v) for v in ri[1][1]])
    d = None
    if ri[0] != 'OK' or rm[0] != 'OK':
        return kresults_agree(ri, rm)
    n = len(ri[1][0])
    worst = None
    for t in range(n):
        for (o, div) in ((1, 1.0), (0, dt)):
            x, y = ri[1][o][t], rm[1][o][t]
            if feq(x, y, 1e-9, 1e-9 * scale / div):
                continue
            # solver tolerances: massBalanceLimit (a volume) and convergenceLimit (1e-8 in the index flow, which
            # moves the storage by 1e-8 * dS/dq); differences may accumulate from step to step
            qv = max(abs(ri[1][0][t]), 1e-12)
            try:
                slope = cs['k'] * cs['m'] * qv ** (cs['m'] - 1.0)
            except (OverflowError, ZeroDivisionError):
                slope = float('inf')
            if abs(cs['bias']) >= 0.001 and cs['m'] < 1.0 and cs['bias'] > 0:
                slope = min(slope, dt / cs['bias'])
            slack = (4 * LIMIT + 4e-8 * (dt + slope)) * (t + 1)
            if abs(x - y) <= slack / div + 1e-9 * abs(x):
                worst = 'solver'
                continue
            return 'output %d t=%d impl=%r model=%r' % (o, t, x, y)
    for j in range(3):
        x, y = ri[2][j], rm[2][j]
        if not feq(x, y, 1e-9, 1e-9 * scale / (1.0 if j == 0 else dt)) and worst is None:
            return 'state %d impl=%r model=%r' % (j, x, y)
    return worst


# ------------------------------------------------------------------ main
def main():
    c = Check('C11')
    if not _DEV:
        c.prove()
        try:
            build_driver(['c11'])
            build_harness(['owrun'])
        except BuildError as e:
            # the extracted model or the harness does not build: nothing can be compared
            log('BUILD BROKEN:', e.what)
            log(e.output[-1500:])
            if not c.proof_broken:
                c.proof_broken = ('build: ' + e.what, e.output[-3000:])
            c.cov['rule'] = 'no case was run: the extracted model / Go harness could not be built'
            c.sample({'note': 'no case run (build failure)'})
            c.finish(extra_cov={'exhaustive': False})
    rng = c.rng
    quick = c.tier == 'quick'
    stats = {}
    if not quick and not _DEV and not c.proof_broken:
        # independent re-check of the compiled proofs of this property's closure
        import subprocess
        p = subprocess.run('timeout 2400 coqchk -silent -o -Q . OW OW.Properties.C11', shell=True, cwd=COQ,
                           stdout=subprocess.PIPE, stderr=subprocess.STDOUT, text=True)
        stats['coqchk'] = 'ok' if p.returncode == 0 else 'FAILED'
        if p.returncode != 0:
            c.proof_broken = ('coqchk OW.Properties.C11', p.stdout[-3000:])
    nM, nL, nS = (1000, 1000, 1500) if quick else (20000, 20000, 30000)

    # ---- corpus: the witnesses of the defects fixed in /repo (kept as regression cases)
    mus = [dict(kind='steady', K=86400.0, X=0.2, dt=86400.0, states=[0.0, 14.0, 14.0], inflow=[10.0] * 40,
                lateral=[4.0] * 40, c=14.0)]
    lags = [dict(kind='valid', L=3, timeLag=3.0, buf=[7.0, 8.0, 9.0], inflow=[1.0, 2.0]),
            dict(kind='valid', L=5, timeLag=5.0, buf=[1.0, 2.0, 3.0, 4.0, 5.0], inflow=[6.0, 7.0]),
            dict(kind='valid', L=2, timeLag=2.0, buf=[7.0, 8.0], inflow=[1.0, 2.0, 3.0, 4.0])]
    srs = [dict(dom='stable', bias=0.0, k=43200.0, m=1.0, area=0.0, dead=1000.0, dt=86400.0, states=[0.0, 0.0, 0.0],
                inflow=[0.001] * 5 + [10.0] * 5, lateral=[0.0] * 10, rain=[0.0] * 10, evap=[0.0] * 10),
           dict(dom='stable', bias=0.0, k=43200.0, m=1.0, area=0.0, dead=0.0, dt=86400.0, states=[864000.0, 5.0, 5.0],
                inflow=[0.0] * 6, lateral=[0.0] * 6, rain=[0.0] * 6, evap=[0.0] * 6),
           # witnesses of the three known findings on the current code (KNOWN-FINDING while they last)
           dict(dom='highbias', bias=1.0, k=43200.0, m=1.0, area=0.0, dead=1000.0, dt=86400.0, states=[0.0, 0.0, 0.0],
                inflow=[0.001], lateral=[0.0], rain=[0.0], evap=[0.0]),
           dict(dom='smallk', bias=0.0, k=1e-5, m=1.0, area=0.0, dead=0.0, dt=86400.0, states=[0.0, 0.0, 0.0],
                inflow=[5.0, 5.0], lateral=[3.0, 3.0], rain=[0.0] * 2, evap=[0.0] * 2),
           dict(dom='stable', bias=0.0, k=1e5, m=0.5, area=0.0, dead=0.0, dt=86400.0, states=[0.0, 0.0, 0.0],
                inflow=[1e-6], lateral=[0.0], rain=[0.0], evap=[0.0])]
    mus += musk_cases(rng, nM)
    lags += lag_cases(rng, nL)
    srs += sr_cases(rng, nS)

    # ---- Muskingum
    lines = [musk_line(x) for x in mus]
    impl, model = impl_run(lines), model_run(lines)
    nst = 0
    for i, (cs, li, lm) in enumerate(zip(mus, impl, model)):
        ri, rm = parse_kresult(li), parse_kresult(lm)
        st = musk_stable(cs)
        nst += st
        c.count(('M', i, cs['K'], cs['X'], cs['dt'], len(cs['inflow'])), nontrivial=st and any(cs['lateral']) and len(cs['inflow']) > 1)
        diff = kresults_agree(ri, rm)
        if diff:
            c.corr_broken.append({'model': 'Muskingum', 'diff': diff, 'line': lines[i]})
        for (cls, det) in musk_oracle(cs, ri):
            c.violation('muskingum_%s_%d.json' % (cls, i), {'kind': 'muskingum-' + cls, 'detail': det, 'params': {k: cs[k] for k in ('K', 'X', 'dt')},
                                                              'case_kind': cs['kind'], 'case_line': lines[i], 'impl': li[:400]})
        if i % 101 == 1:
            c.sample({'model': 'Muskingum', 'kind': cs['kind'], 'K': cs['K'], 'X': cs['X'], 'dt': cs['dt'], 'steps': len(cs['inflow']),
                      'outflow_head': ri[1][0][:4] if ri[0] == 'OK' else li[:60]})
    stats['muskingum_cases'] = len(mus)
    stats['muskingum_in_stable_region'] = nst

    # ---- Lag
    lines = [lag_line(x) for x in lags]
    impl, model = impl_run(lines), model_run(lines)
    nlong = 0
    for i, (cs, li, lm) in enumerate(zip(lags, impl, model)):
        ri, rm = parse_kresult(li), parse_kresult(lm)
        longer = cs['L'] > len(cs['inflow'])
        nlong += longer and cs['kind'] == 'valid'
        c.count(('L', i, cs['L'], len(cs['inflow'])), nontrivial=cs['L'] > 0 and any(cs['buf']) and len(cs['inflow']) > 0)
        diff = kresults_agree(ri, rm)
        if diff:
            c.corr_broken.append({'model': 'Lag', 'diff': diff, 'line': lines[i]})
        for (cls, det) in lag_oracle(cs, ri):
            c.violation('lag_%s_%d.json' % (cls, i), {'kind': 'lag-' + cls, 'detail': det, 'lag': cs['timeLag'], 'series_length': len(cs['inflow']),
                                                        'buffer': cs['buf'], 'inflow': cs['inflow'], 'case_line': lines[i], 'impl': li[:400]})
        if i % 101 == 1:
            c.sample({'model': 'Lag', 'lag': cs['timeLag'], 'steps': len(cs['inflow']), 'buffer_head': cs['buf'][:3],
                      'outflow_head': ri[1][0][:4] if ri[0] == 'OK' else li[:60]})
    stats['lag_cases'] = len(lags)
    stats['lag_longer_than_series'] = nlong

    # ---- StorageRouting
    lines = [sr_line(x) for x in srs]
    mlines = [sr_line(x, 'StorageRoutingPaths') for x in srs]
    impl, model = impl_run(lines), model_run(mlines)
    pathcount = {p: 0 for p in range(1, 8)}
    n_solver_tol = 0
    n_dom = 0
    known_steps = {}
    lin_cases = lin_exit7 = 0
    for i, (cs, li, lm) in enumerate(zip(srs, impl, model)):
        ri, rmp = parse_kresult(li), parse_kresult(lm)
        paths = None
        rm = rmp
        if rmp[0] == 'OK':
            paths = [int(v) for v in rmp[1][2]]
            rm = ('OK', rmp[1][:2], rmp[2])
            for p in paths:
                pathcount[p] = pathcount.get(p, 0) + 1
        ind = sr_in_domain(cs)
        n_dom += ind
        linear = cs['m'] == 1.0 or (abs(cs['bias']) >= 0.001 and abs(cs['m'] - 1.0) < 0.001)
        if ind and linear and abs(cs['bias']) < 0.999 and paths is not None:
            lin_cases += 1
            lin_exit7 += sum(1 for p in paths if p == 7)      # proved impossible over R (C11_sr_balance_closed_linear)
        c.count(('S', i, cs['bias'], cs['k'], cs['m'], len(cs['inflow'])), nontrivial=ind and paths is not None and len(set(paths)) > 1)
        ag = sr_agree(cs, ri, rm)
        if ag == 'solver':
            n_solver_tol += 1
        elif ag:
            c.corr_broken.append({'model': 'StorageRouting', 'diff': ag, 'line': lines[i]})
        if not ind:
            continue
        if not all(v >= 0 for v in cs['states']):
            continue
        fails = sr_oracle(cs, ri)
        if fails:
            mfail = {(cls, t) for (cls, t, _) in sr_oracle(cs, rm)} if rm[0] == 'OK' else set()
            reported = set()
            for (cls, t, det) in fails:
                key = sr_known_key(cs, cls, t, paths, mfail)
                if key:
                    known_steps[key] = known_steps.get(key, 0) + 1
                if (cls, key) in reported:
                    continue
                reported.add((cls, key))
                if isinstance(det, dict) and paths and 0 <= t < len(paths):
                    det = dict(det, model_path=paths[t])
                c.violation('storagerouting_%s_%d.json' % (cls, i),
                            {'kind': 'storagerouting-' + cls, 'detail': det,
                             'params': {k: cs[k] for k in ('bias', 'k', 'm', 'area', 'dead', 'dt')}, 'states': cs['states'],
                             'domain': cs['dom'], 'case_line': lines[i], 'impl': li[:400]}, key=key)
        if i % 131 == 2:
            c.sample({'model': 'StorageRouting', 'params': {k: cs[k] for k in ('bias', 'k', 'm', 'area', 'dead', 'dt')},
                      'steps': len(cs['inflow']), 'model_paths_head': paths[:8] if paths else None,
                      'outflow_head': ri[1][0][:3] if ri[0] == 'OK' else li[:60]})
    stats['storagerouting_cases'] = len(srs)
    stats['storagerouting_in_domain'] = n_dom
    stats['storagerouting_exit_path_steps'] = {str(k): v for k, v in sorted(pathcount.items())}
    stats['storagerouting_agree_only_within_solver_tolerance'] = n_solver_tol
    if n_solver_tol > max(3, len(srs) // 200):
        # a legitimate difference of iterate sequences (1-ulp pow differences at a tolerance threshold) is rare;
        # a systematic one means the solver in the code is no longer the modelled one
        c.corr_broken.append({'model': 'StorageRouting', 'diff': 'outputs agree only within the solver tolerance in %d of %d cases' % (n_solver_tol, len(srs))})
    stats['known_finding_failing_steps'] = known_steps
    stats['linear_storage_law_cases'] = lin_cases
    stats['linear_storage_law_exit7_steps'] = lin_exit7

    # ---- vector-shape stream (model vs code only): surplus / missing parameters, states, input series
    shape = [kcase('StorageRouting', [0.0, 43200.0, 1.0, 0.0, 0.0, 86400.0, 5.0], [0.0, 0.0, 0.0], [[1.0], [0.0], [0.0], [0.0]]),
             kcase('StorageRouting', [0.0, 43200.0, 1.0, 0.0, 0.0], [0.0, 0.0, 0.0], [[1.0], [0.0], [0.0], [0.0]]),
             kcase('StorageRouting', [0.0, 43200.0, 1.0, 0.0, 0.0, 86400.0], [0.0, 0.0], [[1.0], [0.0], [0.0], [0.0]]),
             kcase('StorageRouting', [0.0, 43200.0, 1.0, 0.0, 0.0, 86400.0], [0.0, 0.0, 0.0, 7.0], [[1.0], [0.0], [0.0], [0.0]]),
             kcase('StorageRouting', [0.0, 43200.0, 1.0, 0.0, 0.0, 86400.0], [0.0, 0.0, 0.0], [[1.0], [0.0], [0.0]]),
             kcase('StorageRouting', [0.0, 43200.0, 1.0, 0.0, 0.0, 86400.0], [0.0, 0.0, 0.0], [[1.0], [0.0], [0.0], [0.0], [9.0]]),
             kcase('Muskingum', [86400.0, 0.2, 86400.0, 1.0], [0.0, 1.0, 1.0], [[1.0], [0.0]]),
             kcase('Muskingum', [86400.0, 0.2, 86400.0], [0.0, 1.0, 1.0, 4.0], [[1.0], [0.0]]),
             kcase('Muskingum', [86400.0, 0.2, 86400.0], [0.0, 1.0], [[1.0], [0.0]]),
             kcase('Muskingum', [86400.0, 0.2, 86400.0], [0.0, 1.0, 1.0], [[1.0], [0.0], [3.0]]),
             kcase('Muskingum', [86400.0, 0.2], [0.0, 1.0, 1.0], [[1.0], [0.0]]),
             kcase('Lag', [1.0, 2.0], [5.0], [[1.0]]),
             kcase('Lag', [1.0], [5.0], [[1.0], [2.0]])]
    for ln, li, lm in zip(shape, impl_run(shape), model_run(shape)):
        c.count(('shape', ln), nontrivial=False)
        diff = kresults_agree(parse_kresult(li), parse_kresult(lm))
        if diff:
            c.corr_broken.append({'model': ln.split()[1], 'diff': 'vector shapes: ' + diff, 'line': ln})
    stats['vector_shape_cases'] = len(shape)

    c.cov['rule'] = (
        'cases = one K-line per case run through sim.Catalog (1 cell) and through the extracted Coq kernels. '
        'Muskingum: K,X,dt from the stable region 2KX<=dt<=2K(1-X) (interior, both edges, X on a 2^-20 grid), just outside it and K=0; '
        'inflow/lateral regimes zero/const/pulse/wet/zero-flow spells/tiny/recession; steady cases; events from rest followed by 400 zero steps; '
        'non-trivial = stable region, lateral inflow present, more than one step. '
        'Lag: series length T in {0..120}, lag 0..2T+2 (incl. lag>T, lag=T, fractional timeLag), non-zero carried buffers passed as the state vector, '
        'longer/shorter state vectors and negative lags compared with the model only; non-trivial = lag>0, non-zero buffer, T>0. '
        'StorageRouting: bias 0 / snapped-to-0 / within 2*k*bias<=dt / >=0.999 / outside, k log-uniform 50..2e6 and multiples of dt, tiny k stream, '
        'm in [0.3,1] and m>1 outside, dead storage, area with rain/evap series, zero and non-zero initial states, a malformed stream '
        '(NaN / negative inputs, dt = 0: panics compared model-vs-code only); the oracle is applied to in-domain cases only, the relation '
        'clause to steps whose outflow volume exceeds round-off; a failing step is attributed to a known finding only when its trigger '
        'holds at that step (model exit path 2 with |bias|>=0.999 / path 4 with lateral>0 / path 7) AND the oracle fails at the same step '
        'on the model\'s own outputs; '
        'non-trivial = in the stated domain and the model took at least two different exit paths in the run.')
    c.finish(extra_cov=dict(stats, exhaustive=False),
             assumptions=['theorems are over the reals (RArith); float round-off is only tested (oracle tolerances 1e-9 relative)',
                          'math.Pow (Go) vs ** (OCaml libm) compared to rtol 1e-9; StorageRouting cases that differ by more are accepted only within the solver tolerance and counted',
                          'the exit-path ids come from the model (the Go code does not expose them); exit 3 is proved unreachable in the domain and was never taken',
                          'finding sr-solver-unconverged (exit 7) is exhibited by the binary64 run of the model only; the closed Coq statements assume exit path <> 7',
                          'StorageRouting cases agreeing only within the solver tolerance are accepted up to max(3, 0.5%) of the cases, beyond that the correspondence is reported broken',
                          'sim.Catalog wrapper (generated Run) is exercised, not modelled, in this check (see C04)'])


if __name__ == '__main__':
    main()
