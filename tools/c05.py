#!/usr/bin/env python3
"""C05 check: "concurrent cell and model execution is race-free and
schedule-independent".
  * theorems of coq/Properties/C05.v: the interleaving model (Base/Interleave.v), the footprint
    of every cell goroutine and their pairwise disjointness (Wrapper/Footprint.v), schedule
    independence of Run and of one ow-sim generation;
  * correspondence of the footprint model with the code: RECORDED per-goroutine read / write
    sets of the real Run (every model of sim.Catalog) against the extracted closed-form
    footprint, and the property's oracle (pairwise disjointness) evaluated on the recorded
    accesses themselves;
  * the non-array shared state: go/ast analysis of every generated Run method (and of
    ow-sim's runGeneration): variables captured by the goroutine closure are only READ, the
    position vectors are declared inside the goroutine;
  * TESTING (labelled so): -race build, GOMAXPROCS in {1,2,16}, results compared bit-for-bit with
    each other and with the plain build.  The race detector samples schedules, it does not
    enumerate them; the theorem does."""
import sys, os, subprocess, time
sys.path.insert(0, os.path.dirname(os.path.abspath(__file__)))
from wraplib import *

def race_run(binary, lines, gmp):
    """Run the case stream under the race detector with GOMAXPROCS=gmp.
    -> (list of result dict|None per line, list of (line, stderr excerpt) for data races / crashes)"""
    env = dict(GOENV, GOMAXPROCS=str(gmp), GORACE='halt_on_error=1 exitcode=66')
    out, bad = [], []
    i = 0
    while i < len(lines):
        chunk = lines[i:]
        p = subprocess.run([binary], input='\n'.join(chunk) + '\n', stdout=subprocess.PIPE, stderr=subprocess.PIPE,
                           text=True, timeout=1800, env=env)
        got = [l for l in p.stdout.split('\n') if l != '']
        for g in got[:len(chunk)]:
            try:
                out.append(json.loads(g))
            except ValueError:
                out.append(None)
        if len(got) >= len(chunk):
            break
        died_on = chunk[len(got)]
        kind = 'DATA RACE' if 'DATA RACE' in p.stderr else 'crash'
        bad.append((died_on, kind, p.stderr[:3000]))
        out.append(None)
        i += len(got) + 1
    return out, bad


def structure_search(c, unrecognised, models, rng):
    """The goroutine structure of some function was not recognised: look for a concrete failing
    input on the real code.  Vectorised vs single-cell runs (plus descriptors, inputs / parameters
    unchanged, repeated Run) at cell counts around the powers of two up to 2^13+1 with a tiny
    series under GOMAXPROCS 1 and 16, recorded footprints up to 257 cells, and one -race sample.
    Reports the concrete input, or `no-failing-input-found` naming the unrecognised structure."""
    t0 = time.time()
    fns = [u[0] for u in unrecognised]
    affected = [m for m in fns if m in models]
    cheap = [m for m in ('RunoffCoefficient', 'Sum', 'EmcDwc', 'Muskingum') if (m in affected or not affected) and m in models]
    pick = (cheap or affected)[:2]
    stats = {'run': True, 'models': pick, 'cases': 0, 'largest_cell_count': 0, 'gomaxprocs': [1, 16], 'race_sample': 0}
    what = [{'function': u[0], 'file': u[1], 'problems': u[2]} for u in unrecognised[:8]]
    if not pick:
        # only functions the harness cannot drive (ow-sim's runGeneration): C07 runs ow-sim itself
        c.violation('structure_unrecognised.json', {'kind': 'goroutine structure not recognised (correspondence obligation broken)', 'unrecognised': what,
                                                    'note': 'no search possible here: this function is exercised by the C07 check (ow-sim runs, -race)'},
                    no_input=True)
        return stats
    ns = sorted({n for k in range(1, 14) for n in (2 ** k - 1, 2 ** k, 2 ** k + 1) if n >= 1})
    lines = []
    for j, n in enumerate(ns):
        m = pick[j % len(pick)]
        nSets, nIn = [(1, 1), (n, n), (1, n), (n, 1)][j % 4]
        lines.append(run_line(m, n, nSets, nIn, 2, PADS[j % len(PADS)], 0, rng.randrange(1 << 30), 'go', 0, 1 if n <= 257 else 0))
    found = False
    for gmp in (1, 16):
        res = run_cases(lines, env=dict(GOENV, GOMAXPROCS=str(gmp)), timeout=1800)
        fpl = [footprint_line(r) for (_, r, _) in res if r is not None and r.get('cells') is not None]
        fpo = iter(run_model(fpl)) if fpl else iter([])
        for (l, r, raw) in res:
            stats['cases'] += 1
            bad = None
            if r is None:
                bad = {'crash': raw}
            else:
                stats['largest_cell_count'] = max(stats['largest_cell_count'], r['layout']['N'])
                if not r['ok']:
                    bad = {'fails': r['fails']}
                if r.get('cells') is not None:
                    fd, cells = parse_footprint(next(fpo))
                    if cells is not None and len(cells) == r['layout']['N'] and bad is None:
                        pb = [p for p in compare_footprints(r, cells, 'fixed') if 'not the modelled' not in p]
                        if pb:
                            bad = {'footprint_problems': pb[:8]}
            if bad and not found:
                found = True
                c.violation('structure_search_%d.json' % gmp, dict(bad, kind='failing input found by the search triggered by an unrecognised goroutine structure',
                                                                  GOMAXPROCS=gmp, case_line=l, unrecognised=what,
                                                                  replay='echo "%s" | GOMAXPROCS=%d harness/bin/cellrun' % (l, gmp)))
        if found:
            break
    if not found:
        try:
            sample = [run_line(pick[0], n, 1, 1, 2, PADS[0], 0, rng.randrange(1 << 30), 'go', 0, 0) for n in (3, 65, 4097)]
            out, bad = race_run(CELLRUN_RACE, sample, 16)
            stats['race_sample'] = len(sample)
            for (line, kind, err) in bad:
                found = True
                c.violation('structure_search_race.json', {'kind': 'race-detector: %s (search triggered by an unrecognised goroutine structure)' % kind,
                                                           'case_line': line, 'stderr': err, 'unrecognised': what,
                                                           'replay': 'echo "%s" | GOMAXPROCS=16 harness/bin/cellrun-race' % line})
                break
            for l, r in zip(sample, out):
                if r is not None and not r['ok'] and not found:
                    found = True
                    c.violation('structure_search_race.json', {'kind': 'failing input under -race', 'case_line': l, 'fails': r['fails'], 'unrecognised': what})
        except BuildError:
            pass
    if not found:
        c.violation('structure_unrecognised.json', {'kind': 'goroutine structure not recognised (correspondence obligation broken); the search found no failing input',
                                                    'unrecognised': what, 'searched': stats}, no_input=True)
    stats['found_failing_input'] = found
    stats['wall_s'] = round(time.time() - t0, 1)
    return stats


def main():
    c = Check('C05')
    quick = c.tier == 'quick'
    rng = c.rng
    try:
        tree0, stable = build_pair()
        specs = regen_specs()
    except BuildError as e:
        c.corr_broken.append({'kind': 'harness-build-failed', 'what': e.what, 'output': e.output[-1500:]})
        c.finish()
    c.prove()
    chk = coqchk(c, 'C05') if not quick and not c.proof_broken else 'not run (quick tier)'
    try:
        build_driver(DRIVER_COMPONENTS)
    except BuildError as e:
        c.corr_broken.append({'kind': 'model-extraction-failed', 'what': e.what, 'output': e.output[-1500:]})
        c.finish()
    cat = catalogue()
    models = sorted(cat)
    flav = {m: ('fixed' if specs.get(m, {}).get('InitZero') else 'custom') for m in models}

    # ---------------- (i) semantic analysis of the goroutine structure of the generated sources
    # (harness/cmd/cellrun/gostruct.go: no dependence on identifier names; launches == receives ==
    # number of cells by symbolic trip counts; completion channel and captured variables by use).
    # A structure that is NOT recognised is a broken correspondence obligation, not a violation by
    # itself: it triggers a failing-input search on the real code (below, after the regular streams).
    reps = json.loads(sh([CELLRUN, '-capture', os.path.join(REPO_DIR, 'models')], env=GOENV))
    n_closures = 0
    unrecognised = []          # (model, file, problems)
    gstats = {'functions_analysed': len(reps), 'recognised': 0, 'observation_only_shared_state': 0, 'launch_forms': {}, 'callee_kinds': {}, 'join_kinds': {},
              'completion_channels': set(), 'shared_read_only_captured': set(), 'written_captured': set()}
    for r in reps:
        c.count('structure:' + r['file'], nontrivial=True)
        n_closures += r['go_stmts']
        gstats['recognised'] += bool(r['recognised'])
        gstats['observation_only_shared_state'] += len(r.get('observation_only') or [])
        for k, f in (('launch_forms', 'launch_form'), ('callee_kinds', 'callee'), ('join_kinds', 'join')):
            gstats[k][r.get(f) or '?'] = gstats[k].get(r.get(f) or '?', 0) + 1
        gstats['completion_channels'].add(r.get('channel') or '?')
        gstats['shared_read_only_captured'].update(r.get('read_captured') or [])
        gstats['written_captured'].update(r.get('written_captured') or [])
        if not r['recognised']:
            unrecognised.append((r['model'], r['file'], r.get('problems') or ['?']))
    for k in ('completion_channels', 'shared_read_only_captured', 'written_captured'):
        gstats[k] = sorted(gstats[k])
    gen_files = [r for r in reps if r['model'] != 'runGeneration']
    if len(gen_files) != len(models):
        c.corr_broken.append({'kind': 'generated wrappers != catalogue', 'files': len(gen_files), 'catalogue': len(models)})

    # ---------------- (ii) recorded footprints vs model, and disjointness of the recorded accesses
    lines = gen_run_cases(rng, models, 3 if quick else 40, backends=('go',))
    for m in ('GR4J', 'Lag', 'Storage', 'RatingCurvePartition', 'Sum'):
        if m in models:
            for shp in (SHAPES[3::4] if quick else SHAPES):
                lines.append(run_line(m, shp[0], shp[1], shp[2], 7, PADS[shp[0] % len(PADS)], 0, rng.randrange(1 << 30), 'go', 1, 1))
    # many cells: every cell index must get its goroutine (and only its own rows)
    lines += gen_many_cells(rng, models, MANY_N if quick else MANY_N + [511], record_upto=129 if quick else 257, per_n=2 if quick else None)
    # parameter-position streams on shared parameter sets / input blocks (kernels that write into what
    # they were handed would hit their neighbours there)
    special = gen_edge_cases(rng, models, rots=(0, 1, 2, 3, 4) if quick else tuple(range(5)) * 2)
    special += gen_out_of_range(rng, models, per_model=1 if quick else 6)
    lines += special
    # T = 0 crashes two kernels (known finding of C04, not a concurrency matter): use T >= 1 here
    lines = [l for l in lines if l.split()[5] != '0']
    results = run_cases(lines)
    fp_lines = [footprint_line(r) for (_, r, _) in results if r is not None and r.get('cells') is not None]
    fp_out = iter(run_model(fp_lines)) if fp_lines else iter([])
    n_acc = 0
    rejected = set()
    max_cpg = 0
    digests = {}
    for i, (l, r, raw) in enumerate(results):
        if r is None and raw == 'TIMEOUT':
            rejected.add(l)
            continue
        if r is None and is_special(l) and kernel_rejects(l) == 'both':
            rejected.add(l)
            continue
        if r is None:
            c.count(l, nontrivial=False)
            c.violation('run_crash_%d.json' % i, {'kind': 'crash-in-Run', 'case_line': l, 'impl': raw})
            continue
        L = r['layout']
        c.count(l, nontrivial=L['N'] > 1)
        digests[l] = r.get('digest')
        if not r['ok']:
            c.violation('run_%d.json' % i, {'kind': 'vectorised-run-differs-from-sequential-single-cell-runs', 'fails': r['fails'],
                                           'case_line': l, 'replay': 'echo "%s" | harness/bin/cellrun' % l})
        if r.get('cells') is None:
            continue
        n_acc += r.get('n_accesses', 0)
        max_cpg = max(max_cpg, r.get('max_cells_per_goroutine', 0))
        if r.get('max_cells_per_goroutine', 0) > 1 and not any(u[0] == '(observed)' for u in unrecognised):
            unrecognised.append(('(observed)', l, ['one goroutine handled %d cells: not the goroutine-per-cell structure the footprint theorems model'
                                                  % r['max_cells_per_goroutine']]))
        fd, cells = parse_footprint(next(fp_out))
        if cells is None or len(cells) != L['N']:
            c.corr_broken.append({'kind': 'model-footprint-unavailable', 'case_line': l})
            continue
        bad = compare_footprints(r, cells, flav[L['Model']])
        if bad:
            c.violation('footprint_%d.json' % i, {'kind': 'recorded-accesses-conflict-or-leave-the-model-footprint', 'problems': bad[:10],
                                                 'case_line': l, 'replay': 'echo "%s" | harness/bin/cellrun   (field "cells")' % l})
        if i % 97 == 0:
            c.sample({'case': l, 'recorded_accesses': r.get('n_accesses'),
                      'cell0': {k: len(v) for k, v in (r['cells'][0] or {}).items()} if r['cells'] else None})

    # ---------------- output arrays of successive generations are distinct objects (ow-sim keeps generation
    # g's outputs for the asynchronous writer while generation g+1 runs)
    oa_lines = ['OUTALLOC %s %d %d' % (m, nT, nC) for m in models[::max(1, len(models) // (4 if quick else 41))]
                for (nT, nC) in ((2048, 40), (7, 3), (512, 300))]
    for (l, r, raw) in run_cases(oa_lines):
        c.count(l, nontrivial=True)
        if r is None or not r['ok']:
            c.violation('outalloc.json', {'kind': 'output arrays of different generations share storage', 'case_line': l,
                                         'fails': r['fails'] if r else raw, 'replay': 'echo "%s" | harness/bin/cellrun' % l})

    # ---------------- (iii) TESTING: race detector, GOMAXPROCS 1 / 2 / 16, bit-for-bit
    race_stats = {'cases': 0, 'gomaxprocs': [], 'data_races': 0}
    try:
        rb = CELLRUN_RACE
        if not PRIVATE:
            pass
        tree_changed = (repo_state() != tree0) or not stable
        sp = set(special)
        shared_block = [l.rsplit(' ', 3)[0] + ' 0 ' + ' '.join(l.split()[-2:]) for l in lines
                        if l in sp and l not in rejected and (l.split()[3] == '1' or l.split()[4] == '1')]
        rl = [l.rsplit(' ', 3)[0] + ' 0 ' + ' '.join(l.split()[-2:]) for l in lines if l not in sp]
        if quick:
            rl = rl[::3][:60]
        rl += shared_block          # exactly the shared-block parameter-position cases, all of them
        race_stats['shared_block_cases'] = len(shared_block)
        # every fourth case on C-backed arrays (cdata over C.malloc memory)
        rl = [l.replace(' go ', ' c ') if (k % 4 == 3 and l not in shared_block) else l for k, l in enumerate(rl)]
        gmps = [1, 2, 16]
        race_stats['cases'] = len(rl)
        race_stats['gomaxprocs'] = gmps
        base = {l.rsplit(' ', 3)[0] + ' 0 ' + ' '.join(l.split()[-2:]): d for l, d in digests.items()}   # C-backed cases have no plain counterpart: GOMAXPROCS only
        by_gmp = {}
        for gmp in gmps:
            out, bad = race_run(rb, rl, gmp)
            for (line, kind, err) in bad:
                race_stats['data_races'] += kind == 'DATA RACE'
                c.violation('race_%d.json' % gmp, {'kind': 'race-detector: ' + kind, 'GOMAXPROCS': gmp, 'case_line': line,
                                                   'stderr': err, 'replay': 'echo "%s" | GOMAXPROCS=%d harness/bin/cellrun-race' % (line, gmp)})
            for l, r in zip(rl, out):
                c.count(('race', gmp, l), nontrivial=False)
                if r is None:
                    continue
                if not r['ok']:
                    c.violation('race_run_%d.json' % gmp, {'kind': 'vectorised != single-cell under -race', 'GOMAXPROCS': gmp,
                                                           'case_line': l, 'fails': r['fails']})
                want = base.get(l)
                if tree_changed:
                    want = None       # /repo changed while the check ran: plain and -race builds are not comparable
                by_gmp.setdefault(l, set()).add(r.get('digest'))
                if want and r.get('digest') != want:
                    c.violation('race_digest_%d.json' % gmp, {'kind': 'result depends on GOMAXPROCS / build', 'GOMAXPROCS': gmp, 'case_line': l,
                                                              'digest': r.get('digest'), 'plain_build_digest': want})
        for l, ds in by_gmp.items():
            if len(ds) > 1:
                c.violation('race_gomaxprocs.json', {'kind': 'result depends on GOMAXPROCS', 'case_line': l, 'digests': sorted(map(str, ds))})
        race_stats['tree_changed_during_check'] = tree_changed
    except BuildError as e:
        c.assumptions.append('race-detector build unavailable: ' + e.what)

    # ---------------- (iv) unrecognised goroutine structure: failing-input search on the real code
    search_stats = {'run': False}
    if unrecognised and not any(v[0] for v in c.violations):
        search_stats = structure_search(c, unrecognised, models, rng)
    elif unrecognised:
        search_stats = {'run': False, 'reason': 'a concrete failing input was already found by the regular streams'}
    gstats['unrecognised'] = [{'function': u[0], 'file': u[1], 'problems': u[2][:4]} for u in unrecognised[:6]]
    gstats['search'] = search_stats

    c.cov['rule'] = ('(i) semantic go/ast analysis of the goroutine structure of the %d generated Run methods and of ow-sim runGeneration (launches == receives == cells by symbolic trip counts, completion channel / captured variables by use; an unrecognised structure triggers a failing-input search); (ii) every model of '
                     'sim.Catalog run on recording arrays (per-goroutine read/write sets, measured element addresses) compared with the '
                     'extracted Coq footprint and checked for pairwise disjointness; non-trivial = more than one cell; (iii) TESTING: the same '
                     'case stream under -race with GOMAXPROCS 1/2/16, results bit-identical to the plain build' % len(gen_files))
    c.finish(extra_cov={'models': len(models), 'closures_analysed': n_closures, 'goroutine_structure': gstats, 'recorded_accesses': n_acc, 'max_cells_handled_by_one_goroutine': max_cpg, 'race_testing': race_stats,
                        'exhaustive': False, 'coqchk': chk},
             assumptions=['PARTIAL w.r.t. the Go memory model: the doneChan / simulationDone joins (channel happens-before) are assumed, not modelled',
                          'the race detector samples schedules (testing); all schedules are covered only by the theorem on the footprint model',
                          'ow-sim generation: each model type owns distinct arrays (stated as the address space of the model; runGeneration closure analysed; ow-sim itself is run under -race by the C07 check, the asynchronous writer is C07)',
                          'kernels touch only the views they are handed (recorder, explored inputs); custom-state kernels return a state that fits the row (K_state_len)'])


if __name__ == '__main__':
    main()
