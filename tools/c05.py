#!/usr/bin/env python3
"""C05 check: "concurrent cell and model execution is race-free and
schedule-independent".
  * theorems of coq/Properties/C05.v: the interleaving model (Base/Interleave.v), the footprint
    of every cell goroutine and their pairwise disjointness (Wrapper/Footprint.v), schedule
    independence of Run and of one ow-sim generation;
  * correspondence of the footprint model with the code: RECORDED per-goroutine read / write
    sets of the real Run (every model of sim.Catalog) against the extracted closed-form
    footprint, and the property's oracle (pairwise disjointness) evaluated on the recorded
    accesses themselves;
  * the non-array shared state: go/ast analysis of every generated Run method (and of
    ow-sim's runGeneration): variables captured by the goroutine closure are only READ, the
    position vectors are declared inside the goroutine;
  * TESTING (labelled so): -race build, GOMAXPROCS in {1,2,16}, results compared bit-for-bit with
    each other and with the plain build.  The race detector samples schedules, it does not
    enumerate them; the theorem does."""
import sys, os, subprocess
sys.path.insert(0, os.path.dirname(os.path.abspath(__file__)))
from wraplib import *

SHARED_OK = {'cellInputsShape', 'doneChan', 'inputLen', 'inputNewShape', 'inputs', 'inputsSizeSlice', 'm',
             'numInputSequences', 'numStates', 'numCells', 'outputSizeSlice', 'outputStepSlice', 'outputs', 'states',
             'statesSizeSlice', 'inputDims'}
PER_GOROUTINE = {'outputPosSlice', 'statesPosSlice', 'inputsPosSlice', 'i'}


def race_run(binary, lines, gmp):
    """Run the case stream under the race detector with GOMAXPROCS=gmp.
    -> (list of result dict|None per line, list of (line, stderr excerpt) for data races / crashes)"""
    env = dict(GOENV, GOMAXPROCS=str(gmp), GORACE='halt_on_error=1 exitcode=66')
    out, bad = [], []
    i = 0
    while i < len(lines):
        chunk = lines[i:]
        p = subprocess.run([binary], input='\n'.join(chunk) + '\n', stdout=subprocess.PIPE, stderr=subprocess.PIPE,
                           text=True, timeout=1800, env=env)
        got = [l for l in p.stdout.split('\n') if l != '']
        for g in got[:len(chunk)]:
            try:
                out.append(json.loads(g))
            except ValueError:
                out.append(None)
        if len(got) >= len(chunk):
            break
        died_on = chunk[len(got)]
        kind = 'DATA RACE' if 'DATA RACE' in p.stderr else 'crash'
        bad.append((died_on, kind, p.stderr[:3000]))
        out.append(None)
        i += len(got) + 1
    return out, bad


def main():
    c = Check('C05')
    quick = c.tier == 'quick'
    rng = c.rng
    try:
        tree0, stable = build_pair()
        specs = regen_specs()
    except BuildError as e:
        c.corr_broken.append({'kind': 'harness-build-failed', 'what': e.what, 'output': e.output[-1500:]})
        c.finish()
    c.prove()
    chk = coqchk(c, 'C05') if not quick and not c.proof_broken else 'not run (quick tier)'
    try:
        build_driver(DRIVER_COMPONENTS)
    except BuildError as e:
        c.corr_broken.append({'kind': 'model-extraction-failed', 'what': e.what, 'output': e.output[-1500:]})
        c.finish()
    cat = catalogue()
    models = sorted(cat)
    flav = {m: ('fixed' if specs.get(m, {}).get('InitZero') else 'custom') for m in models}

    # ---------------- (i) closure capture analysis of the generated sources
    reps = json.loads(sh([CELLRUN, '-capture', os.path.join(REPO_DIR, 'models')], env=GOENV))
    n_closures = 0
    for r in reps:
        name = r['model']
        c.count('capture:' + r['file'], nontrivial=True)
        n_closures += r['go_funcs']
        probs = []
        if r['go_funcs'] != 1:
            probs.append('%d goroutine literals (expected 1)' % r['go_funcs'])
        if r.get('structure'):
            probs.append('Run does not start exactly one goroutine per cell index: %s' % r['structure'])
        if r.get('written_captured'):
            probs.append('variables shared between the goroutines are WRITTEN inside the goroutine: %s' % r['written_captured'])
        if name != 'runGeneration':
            extra = set(r.get('read_captured') or []) - SHARED_OK
            if extra:
                probs.append('captured variables the model does not know as shared read-only vectors: %s' % sorted(extra))
            missing = PER_GOROUTINE - set(r.get('declared_inside') or [])
            if missing:
                probs.append('position vectors not declared inside the goroutine: %s' % sorted(missing))
        if probs:
            c.violation('capture_%s.json' % name, {'kind': 'goroutine-structure-or-shared-state (not one goroutine per cell, or captured state written)', 'file': r['file'], 'problems': probs,
                                                   'replay': 'harness/bin/cellrun -capture /repo/models   (entry for %s)' % r['file']})
    gen_files = [r for r in reps if r['model'] != 'runGeneration']
    if len(gen_files) != len(models):
        c.corr_broken.append({'kind': 'generated wrappers != catalogue', 'files': len(gen_files), 'catalogue': len(models)})

    # ---------------- (ii) recorded footprints vs model, and disjointness of the recorded accesses
    lines = gen_run_cases(rng, models, 3 if quick else 40, backends=('go',))
    for m in ('GR4J', 'Lag', 'Storage', 'RatingCurvePartition', 'Sum'):
        if m in models:
            for shp in (SHAPES[3::4] if quick else SHAPES):
                lines.append(run_line(m, shp[0], shp[1], shp[2], 7, PADS[shp[0] % len(PADS)], 0, rng.randrange(1 << 30), 'go', 1, 1))
    # many cells: every cell index must get its goroutine (and only its own rows)
    lines += gen_many_cells(rng, models, MANY_N if quick else MANY_N + [511], record_upto=129 if quick else 257, per_n=2 if quick else None)
    # parameter-position streams on shared parameter sets / input blocks (kernels that write into what
    # they were handed would hit their neighbours there)
    special = gen_edge_cases(rng, models, rots=(0, 1, 2, 3, 4) if quick else tuple(range(5)) * 2)
    special += gen_out_of_range(rng, models, per_model=1 if quick else 6)
    lines += special
    # T = 0 crashes two kernels (known finding of C04, not a concurrency matter): use T >= 1 here
    lines = [l for l in lines if l.split()[5] != '0']
    results = run_cases(lines)
    fp_lines = [footprint_line(r) for (_, r, _) in results if r is not None and r.get('cells') is not None]
    fp_out = iter(run_model(fp_lines)) if fp_lines else iter([])
    n_acc = 0
    rejected = set()
    max_cpg = 0
    digests = {}
    for i, (l, r, raw) in enumerate(results):
        if r is None and is_special(l) and kernel_rejects(l):
            rejected.add(l)
            continue
        if r is None:
            c.count(l, nontrivial=False)
            c.violation('run_crash_%d.json' % i, {'kind': 'crash-in-Run', 'case_line': l, 'impl': raw})
            continue
        L = r['layout']
        c.count(l, nontrivial=L['N'] > 1)
        digests[l] = r.get('digest')
        if not r['ok']:
            c.violation('run_%d.json' % i, {'kind': 'vectorised-run-differs-from-sequential-single-cell-runs', 'fails': r['fails'],
                                           'case_line': l, 'replay': 'echo "%s" | harness/bin/cellrun' % l})
        if r.get('cells') is None:
            continue
        n_acc += r.get('n_accesses', 0)
        max_cpg = max(max_cpg, r.get('max_cells_per_goroutine', 0))
        if r.get('max_cells_per_goroutine', 0) > 1 and not any(v[0] and 'structure_' in v[0] for v in c.violations):
            c.violation('structure_%d.json' % i, {'kind': 'one goroutine handles several cells: not the goroutine-per-cell structure the footprint theorems model',
                                                 'case_line': l, 'cells_per_goroutine': [len(g['cells']) for g in r.get('groups') or []][:20]},
                        no_input=True)
        fd, cells = parse_footprint(next(fp_out))
        if cells is None or len(cells) != L['N']:
            c.corr_broken.append({'kind': 'model-footprint-unavailable', 'case_line': l})
            continue
        bad = compare_footprints(r, cells, flav[L['Model']])
        if bad:
            c.violation('footprint_%d.json' % i, {'kind': 'recorded-accesses-conflict-or-leave-the-model-footprint', 'problems': bad[:10],
                                                 'case_line': l, 'replay': 'echo "%s" | harness/bin/cellrun   (field "cells")' % l})
        if i % 97 == 0:
            c.sample({'case': l, 'recorded_accesses': r.get('n_accesses'),
                      'cell0': {k: len(v) for k, v in (r['cells'][0] or {}).items()} if r['cells'] else None})

    # ---------------- (iii) TESTING: race detector, GOMAXPROCS 1 / 2 / 16, bit-for-bit
    race_stats = {'cases': 0, 'gomaxprocs': [], 'data_races': 0}
    try:
        rb = CELLRUN_RACE
        if not PRIVATE:
            pass
        tree_changed = (repo_state() != tree0) or not stable
        sp = set(special)
        shared_block = [l.rsplit(' ', 3)[0] + ' 0 ' + ' '.join(l.split()[-2:]) for l in lines
                        if l in sp and l not in rejected and (l.split()[3] == '1' or l.split()[4] == '1')]
        rl = [l.rsplit(' ', 3)[0] + ' 0 ' + ' '.join(l.split()[-2:]) for l in lines if l not in sp]
        if quick:
            rl = rl[::3][:60]
        rl += shared_block          # exactly the shared-block parameter-position cases, all of them
        race_stats['shared_block_cases'] = len(shared_block)
        # every fourth case on C-backed arrays (cdata over C.malloc memory)
        rl = [l.replace(' go ', ' c ') if (k % 4 == 3 and l not in shared_block) else l for k, l in enumerate(rl)]
        gmps = [1, 2, 16]
        race_stats['cases'] = len(rl)
        race_stats['gomaxprocs'] = gmps
        base = {l.rsplit(' ', 3)[0] + ' 0 ' + ' '.join(l.split()[-2:]): d for l, d in digests.items()}   # C-backed cases have no plain counterpart: GOMAXPROCS only
        by_gmp = {}
        for gmp in gmps:
            out, bad = race_run(rb, rl, gmp)
            for (line, kind, err) in bad:
                race_stats['data_races'] += kind == 'DATA RACE'
                c.violation('race_%d.json' % gmp, {'kind': 'race-detector: ' + kind, 'GOMAXPROCS': gmp, 'case_line': line,
                                                   'stderr': err, 'replay': 'echo "%s" | GOMAXPROCS=%d harness/bin/cellrun-race' % (line, gmp)})
            for l, r in zip(rl, out):
                c.count(('race', gmp, l), nontrivial=False)
                if r is None:
                    continue
                if not r['ok']:
                    c.violation('race_run_%d.json' % gmp, {'kind': 'vectorised != single-cell under -race', 'GOMAXPROCS': gmp,
                                                           'case_line': l, 'fails': r['fails']})
                want = base.get(l)
                if tree_changed:
                    want = None       # /repo changed while the check ran: plain and -race builds are not comparable
                by_gmp.setdefault(l, set()).add(r.get('digest'))
                if want and r.get('digest') != want:
                    c.violation('race_digest_%d.json' % gmp, {'kind': 'result depends on GOMAXPROCS / build', 'GOMAXPROCS': gmp, 'case_line': l,
                                                              'digest': r.get('digest'), 'plain_build_digest': want})
        for l, ds in by_gmp.items():
            if len(ds) > 1:
                c.violation('race_gomaxprocs.json', {'kind': 'result depends on GOMAXPROCS', 'case_line': l, 'digests': sorted(map(str, ds))})
        race_stats['tree_changed_during_check'] = tree_changed
    except BuildError as e:
        c.assumptions.append('race-detector build unavailable: ' + e.what)

    c.cov['rule'] = ('(i) go/ast closure-capture analysis of the %d generated Run methods and of ow-sim runGeneration; (ii) every model of '
                     'sim.Catalog run on recording arrays (per-goroutine read/write sets, measured element addresses) compared with the '
                     'extracted Coq footprint and checked for pairwise disjointness; non-trivial = more than one cell; (iii) TESTING: the same '
                     'case stream under -race with GOMAXPROCS 1/2/16, results bit-identical to the plain build' % len(gen_files))
    c.finish(extra_cov={'models': len(models), 'closures_analysed': n_closures, 'recorded_accesses': n_acc, 'max_cells_handled_by_one_goroutine': max_cpg, 'race_testing': race_stats,
                        'exhaustive': False, 'coqchk': chk},
             assumptions=['PARTIAL w.r.t. the Go memory model: the doneChan / simulationDone joins (channel happens-before) are assumed, not modelled',
                          'the race detector samples schedules (testing); all schedules are covered only by the theorem on the footprint model',
                          'ow-sim generation: each model type owns distinct arrays (stated as the address space of the model; runGeneration closure analysed; ow-sim itself is run under -race by the C07 check, the asynchronous writer is C07)',
                          'kernels touch only the views they are handed (recorder, explored inputs); custom-state kernels return a state that fits the row (K_state_len)'])


if __name__ == '__main__':
    main()
