#!/usr/bin/env python3
"""C19 check: theorems in coq/Properties/C19.v + correspondence of
Num/Calendar.v with models/functions/dates.go (through sim.Catalog) + calendar
oracle on the implementation's output."""
import sys, os
sys.path.insert(0, os.path.dirname(os.path.abspath(__file__)))
from vlib import *


def dfc(d, m, y):
    y2 = y - 1 if m <= 2 else y
    era = y2 // 400
    yoe = y2 - era * 400
    mp = (m + 9) % 12
    doy = (153 * mp + 2) // 5 + d - 1
    doe = yoe * 365 + yoe // 4 - yoe // 100 + doy
    return era * 146097 + doe - 719468


def civil_from_days(z):
    z += 719468
    era = z // 146097
    doe = z - era * 146097
    yoe = (doe - doe // 1460 + doe // 36524 - doe // 146096) // 365
    y = yoe + era * 400
    doy = doe - (365 * yoe + yoe // 4 - yoe // 100)
    mp = (5 * doy + 2) // 153
    d = doy - (153 * mp + 2) // 5 + 1
    m = mp + 3 if mp < 10 else mp - 9
    return d, m, (y + 1 if m <= 2 else y)


def is_leap(y):
    return (y % 4 == 0 and y % 100 != 0) or y % 400 == 0


def mlen(m, y):
    return [31, 29 if is_leap(y) else 28, 31, 30, 31, 30, 31, 31, 30, 31, 30, 31][m - 1]


def main():
    c = Check('C19')
    c.prove()
    if c.tier == 'thorough':
        c.coqchk()
    build_driver(['c19'])
    build_harness(['owrun'])
    rng = c.rng
    quick = c.tier == 'quick'
    cases = []   # (kind, d, m, y, n)
    # boundary stream
    for y in (1900, 2000, 2100, 1600, 2023, 2024, -400, -1, 0, 1, 4, 100, 9999):
        for (d, m) in ((28, 2), (29, 2) if is_leap(y) else (27, 2), (31, 12), (30, 11), (31, 1), (1, 3)):
            cases.append(('valid', d, m, y, rng.choice([3, 40, 400])))
    # every century year of the range (the Gregorian rule distinguishes them by y mod 400): start just before
    # the end of February and at the end of the year
    for y in range(-400, 10000, 100):
        cases.append(('valid', 27, 2, y, 5))
        cases.append(('valid', 30, 12, y, 4))
    nrand = 300 if quick else 6000
    for _ in range(nrand):
        y = rng.choice([rng.randint(-400, 9999), rng.randint(1890, 2110), 100 * rng.randint(-4, 99) + rng.randint(-1, 1)])
        m = rng.randint(1, 12)
        d = rng.randint(1, mlen(m, y))
        n = rng.choice([0, 1, 2, 7, 40, 366, 800, 1200])
        cases.append(('valid', d, m, y, n))
    if not quick:
        # every start date of one 400-year cycle, 2 steps each (exhaustive over starts)
        for z in range(dfc(1, 1, 1600), dfc(1, 1, 2000)):
            d, m, y = civil_from_days(z)
            cases.append(('valid', d, m, y, 2))
    # malformed stream: invalid days/months, fractional and negative parameters
    for _ in range(40 if quick else 400):
        cases.append(('invalid', rng.choice([0, 32, 40, -3, rng.randint(1, 31)]),
                      rng.choice([0, 13, -1, rng.randint(1, 12), rng.randint(1, 12)]), rng.randint(-50, 3000),
                      rng.choice([1, 5, 70])))
    # the same start date again and again in one process with growing and shrinking lengths (a result must not depend
    # on what the process computed before: C14's purity clause, applied to the calendar)
    for (d, m, y) in ((1, 7, 1999), (27, 2, 2000), (30, 12, 1899), (28, 2, 2100)):
        for n in (3, 31, 10, 400, 1200, 2, 1500):
            cases.append(('valid', d, m, y, n))
    # long runs ("for any number of steps", "a full 400-year cycle and beyond"): single runs longer than one, two and (thorough)
    # three and four complete Gregorian cycles of 146097 days, from random start dates - a generator that recycles an earlier
    # cycle or keeps a running count in a narrower type only shows beyond the first repetition
    for k in range(2 if quick else 8):
        y = rng.randint(-400, 8000)
        m = rng.randint(1, 12)
        d = rng.randint(1, mlen(m, y))
        cycles = [2, 1, 3, 4, 2, 3, 1, 4][k]
        cases.append(('valid', d, m, y, cycles * 146097 + rng.randint(366, 5000)))
    lines = []
    for (kind, d, m, y, n) in cases:
        frac = 0.0 if kind == 'valid' else rng.choice([0.0, 0.5, 0.99])
        # the tick input only supplies the run LENGTH: its values (zeros, ones, a step counter, week lengths, anything) must not
        # influence the calendar
        pat = rng.choice(['zeros', 'ones', 'counter', 'sevens', 'random', 'special'])
        tick = {'zeros': lambda t: 0.0, 'ones': lambda t: 1.0, 'counter': lambda t: float(t), 'sevens': lambda t: 7.0,
                'random': lambda t: rng.choice([-3.0, 0.5, 2.0, 30.0, 365.0, 1e5]),
                'special': lambda t: rng.choice([float('nan'), float('inf'), -0.0, 5e-324])}[pat]
        lines.append(kcase('DateGenerator', [d + (frac if d >= 0 else -frac), float(m), float(y)], [], [[tick(t) for t in range(n)]]))
    impl = run_impl(lines, timeout=300)
    model = run_model(lines)
    # environment independence: the emitted dates are the proleptic Gregorian calendar, not somebody's civil time, so
    # the process's time zone must not matter; a sample is re-run with the zone database embedded (-tags timetzdata)
    # far west and far east of Greenwich and must be identical to the plain run
    build_harness(['owrun'], tags='verif,timetzdata', suffix='-tz')
    tz_idx = [i for i, cs in enumerate(cases) if cs[0] == 'valid'][::3 if quick else 7]
    tz_runs = 0
    for tz in ('America/New_York', 'Pacific/Kiritimati', 'Europe/London'):
        got = run_lines(os.path.join(HARNESS, 'bin', 'owrun-tz'), [lines[i] for i in tz_idx], env=dict(GOENV, TZ=tz))
        for i, g in zip(tz_idx, got):
            tz_runs += 1
            dz = kresults_agree(parse_kresult(impl[i]), parse_kresult(g))
            if dz:
                c.violation('timezone_%s_%d.json' % (tz.replace('/', '_'), i),
                            {'kind': 'result-depends-on-process-time-zone', 'TZ': tz, 'start': list(cases[i][1:4]), 'steps': cases[i][4],
                             'difference': dz.replace('impl=', 'TZ-unset=').replace('model=', 'TZ-set='), 'case_line': lines[i],
                             'replay': 'echo "<case_line>" | TZ=%s harness/bin/owrun-tz' % tz})
                break
    nonvalid_panics = 0
    for i, (cs, li, lm) in enumerate(zip(cases, impl, model)):
        kind, d, m, y, n = cs
        ri, rm = parse_kresult(li), parse_kresult(lm)
        crosses = kind == 'valid' and d + n > mlen(m, y)
        c.count((d, m, y, n), nontrivial=crosses)
        diff = kresults_agree(ri, rm)
        if diff:
            c.corr_broken.append({'case': cs, 'diff': diff, 'line': lines[i]})
        if kind != 'valid':
            if ri[0] != 'OK':
                nonvalid_panics += 1
            continue
        # oracle (the property itself) on the implementation's output
        ok = ri[0] == 'OK'
        if ok:
            z0 = dfc(d, m, y)
            for t in range(n):
                ed, em, ey = civil_from_days(z0 + t)
                edoy = z0 + t - dfc(1, 1, ey) + 1
                got = tuple(ri[1][k][t] for k in range(4))
                if got != (float(ed), float(em), float(ey), float(edoy)):
                    ok = False
                    c.violation('oracle_%d.json' % i, {'kind': 'calendar-oracle', 'start': [d, m, y], 'steps': n, 'step': t,
                                                      'expected': [ed, em, ey, edoy], 'got': got, 'case_line': lines[i]})
                    break
        else:
            c.violation('oracle_%d.json' % i, {'kind': 'crash-on-valid-date', 'start': [d, m, y], 'steps': n,
                                              'impl': li, 'case_line': lines[i]})
        if i % 97 == 0:
            c.sample({'start': [d, m, y], 'steps': n, 'last_emitted': [ri[1][k][-1] for k in range(4)] if ok and n else None})
    c.cov['rule'] = ('valid start dates (boundary list: century/leap years, month and year ends; random years in [-400,9999]; '
                     'thorough: every start of the 1600-1999 cycle) run for n steps through sim.Catalog["DateGenerator"] and through the '
                     'extracted Coq model; non-trivial = run crosses at least one month boundary; plus a malformed stream '
                     '(invalid day/month, fractional parameters) compared model-vs-code only')
    c.finish(extra_cov={'time_zone_reruns': tz_runs, 'malformed_cases': sum(1 for x in cases if x[0] != 'valid'), 'malformed_panics_both_sides': nonvalid_panics,
                        'exhaustive': False},
             assumptions=['Go int(float64) on integral parameters modelled as truncation toward zero',
                          'sim.Catalog wrapper (generated Run) is exercised, not modelled, in this check (see C04)'])


if __name__ == '__main__':
    main()
