"""Shared check body for C01 / C02 / C03 (array library): theorems, correspondence
of the extracted array model with data/ and data/cdata/ for 8 element types and
both back-ends, and the abstract-spec oracle on the implementation's observables."""
import sys, os, subprocess
sys.path.insert(0, os.path.dirname(os.path.abspath(__file__)))
from vlib import *
import arrays_gen as ag
import gen_arrops

TYPES = ['float64', 'float32', 'int32', 'uint32', 'int64', 'uint64', 'int', 'uint']


def first_diff(a, b):
    sa, sb = a.split(' ; '), b.split(' ; ')
    for k, (x, y) in enumerate(zip(sa, sb)):
        if x != y:
            return k, x, y
    if len(sa) != len(sb):
        return min(len(sa), len(sb)), '<end>' if len(sa) < len(sb) else sa[len(sb)], '<end>' if len(sb) < len(sa) else sb[len(sa)]
    return None


def parse_impl(line):
    res = {}
    for part in line.split(' @@ '):
        ty, _, body = part.strip().partition('=')
        res[ty] = body
    return res


def iop_cases(rng, n):
    cases = []
    for _ in range(n):
        k = rng.choice(['OFFSETS', 'IDIVMOD', 'INCREMENT', 'PRODUCT', 'MULTIPLY', 'ARGMAX', 'MAXIMUM'])
        nd = rng.randint(1, 4)
        dims = [rng.randint(1, 5) for _ in range(nd)]
        if k == 'OFFSETS':
            cases.append(('OFFSETS', dims, 'IOP OFFSETS ' + ag.ints(dims)))
        elif k == 'IDIVMOD':
            offs = [ag.prod(dims[i + 1:]) for i in range(nd)]
            num = rng.randint(0, ag.prod(dims) - 1)
            cases.append(('IDIVMOD', (num, dims), 'IOP IDIVMOD %d A %s B %s' % (num, ag.ints(offs), ag.ints(dims))))
        elif k == 'INCREMENT':
            v = [rng.randint(0, d - 1) for d in dims]
            cases.append(('INCREMENT', (v, dims), 'IOP INCREMENT A %s B %s' % (ag.ints(v), ag.ints(dims))))
        elif k == 'PRODUCT':
            cases.append(('PRODUCT', dims, 'IOP PRODUCT ' + ag.ints(dims)))
        elif k == 'MULTIPLY':
            o = [rng.randint(-3, 6) for _ in dims]
            cases.append(('MULTIPLY', (dims, o), 'IOP MULTIPLY A %s B %s' % (ag.ints(dims), ag.ints(o))))
        else:
            v = [rng.randint(-5, 9) for _ in range(rng.randint(1, 6))]
            cases.append((k, v, 'IOP %s %s' % (k, ag.ints(v))))
    return cases


def iop_expected(kind, arg):
    if kind == 'OFFSETS':
        return [ag.prod(arg[i + 1:]) for i in range(len(arg))]
    if kind == 'IDIVMOD':
        num, dims = arg
        idx = []
        for d in reversed(dims):
            idx.append(num % d); num //= d
        return list(reversed(idx))
    if kind == 'INCREMENT':
        v, dims = arg
        k = 0
        for x, d in zip(v, dims):
            k = k * d + x
        k = (k + 1) % ag.prod(dims)
        idx = []
        for d in reversed(dims):
            idx.append(k % d); k //= d
        return list(reversed(idx))
    if kind == 'PRODUCT':
        return [ag.prod(arg)]
    if kind == 'MULTIPLY':
        return [a * b for a, b in zip(*arg)]
    if kind == 'ARGMAX':
        return [arg.index(max(arg))]
    if kind == 'MAXIMUM':
        return [max(arg)]


def small_scope_pairs(rng, quick, allowed):
    """Small-scope exhaustive stream: EVERY single-level view (loc, dims, step <= 3 per axis) with all three extents >= 2 of the
    roots [5,4,5] and [3,4,5] (thorough: also the views with 1-wide axes, and the root [4,3,6]), each as a Go-backed and a
    C-backed history: gather (Unroll), extremum, block write from a fresh array (CopyFrom) with every buffer read back.
    A decision taken from a few numbers of the view (its end points, its first stride, its element count) agrees with the
    element-by-element definition on almost all random views and fails on an arithmetic coincidence; enumeration finds the
    coincidences that exist in the scope.  One element type per history (rotating), to bound the output."""
    def axis_views(n, min_dim):
        out = []
        for d in range(min_dim, n + 1):
            for st in (1, 2, 3):
                for l in range(n):
                    if l + (d - 1) * st < n and not (d == 1 and st > 1):
                        out.append((l, d, st))
        return out
    roots = [[5, 4, 5], [3, 4, 5]] + ([] if quick else [[4, 3, 6]])
    ok = lambda k: allowed is None or k in allowed
    pairs = []
    k = rng.randrange(len(TYPES))
    for root in roots:
        import itertools
        views = list(itertools.product(*[axis_views(n, 2 if quick else 1) for n in root]))
        for v in views:
            loc, dims, step = [x[0] for x in v], [x[1] for x in v], [x[2] for x in v]
            ops = ['SLICE 0 L %s D %s S %s' % (ag.ints(loc), ag.ints(dims), ag.ints(step))]
            if ok('UNROLL'): ops.append('UNROLL 1')
            if ok('MAX'): ops.append('MAX 1')
            if ok('COPYFROM'): ops += ['NEW g %s' % ag.ints(dims), 'COPYFROM 1 2']
            ty = TYPES[k % len(TYPES)]; k += 1
            ga = ag.shadow_replay('ARRH %s NEW g %s ; %s' % (ty, ag.ints(root), ' ; '.join(ops)))
            gb = ag.shadow_replay('ARRH %s NEW c %s ; %s' % (ty, ag.ints(root), ' ; '.join(ops)))
            if ga is not None and gb is not None:
                pairs.append((ga, gb))
    return pairs


def run(pid, opmix, focus_text, manifest_assumptions, extra=None, allowed=None, use_iops=True, oracle='spec', corpus_prefixes=None, unjudged=()):
    c = Check(pid)
    c.prove()
    if c.tier == 'thorough':
        c.coqchk()
    build_driver(['arrays'])
    gen_arrops.main()
    build_harness(['arrops'])
    rng = c.rng
    quick = c.tier == 'quick'
    n_hist = 600 if quick else 8000
    hist = []
    # corpus of minimised / historical cases first (the defects repaired by fix: commits)
    corpus = os.path.join(VERIF, 'corpus', 'arrays.txt')
    corpus_lines = []
    if os.path.exists(corpus):
        for l in open(corpus):
            l = l.strip()
            if l and not l.startswith('#') and pid in l.split('|', 1)[0].split(','):
                corpus_lines.append(l.split('|', 1)[1])
    for i in range(n_hist):
        mode = rng.choice(['g', 'c', 'mixed'])
        types = 'six' if rng.random() < 0.35 else 'all'
        g = ag.HistoryGen(rng, backend_mode=mode, types=types, opmix=opmix, max_ops=14 if quick else 22, allowed=allowed).gen()
        hist.append(g)
    # lock-step pairs (C03): the same random stream with all-Go and all-C roots
    pairs = []
    for i in range((500 if oracle == 'lockstep' else 80) if quick else 3000):
        seed = rng.getrandbits(48)
        ty = 'six' if i % 3 == 0 else 'all'
        ga = ag.HistoryGen(random.Random(seed), backend_mode='g', types=ty, opmix=opmix, allowed=allowed).gen()
        gb = ag.HistoryGen(random.Random(seed), backend_mode='c', types=ty, opmix=opmix, allowed=allowed).gen()
        pairs.append((ga, gb))
    n_random_pairs = len(pairs)
    pairs += small_scope_pairs(rng, quick, allowed)
    mal = [ag.malformed_history(rng, allowed) for _ in range(40 if quick else 600)]
    iops = iop_cases(rng, 150 if quick else 3000) if use_iops else []
    if oracle == 'lockstep':
        hist = []          # C03: only the lock-step pairs carry an oracle
    lines = [g.line() for g in hist]
    for ga, gb in pairs:
        lines += [ga.line(), gb.line()]
    lines += [g.line() for g in mal]
    lines += corpus_lines
    lines += [x[2] for x in iops]
    impl = run_lines(os.path.join(HARNESS, 'bin', 'arrops'), lines, env=GOENV)
    model = run_model(lines)
    pos = 0
    op_hist = {}
    finding_hits = {}

    def mask(s, kinds):
        # probe operations (unjudged): their own result belongs to another property's clauses; only what they may do to
        # LATER operations is this property's business, so the result field is blanked on all three sides
        if not unjudged:
            return s
        segs = s.split(' ; ')
        for k, seg in enumerate(segs):
            if k < len(kinds) and kinds[k] in unjudged and '|' in seg:
                segs[k] = '*|' + seg.split('|', 1)[1]
        return ' ; '.join(segs)

    def check_history(g, li, lm, line, valid=True):
        per = {ty: mask(body, g.kinds) for ty, body in parse_impl(li).items()}
        lm = mask(lm, g.kinds)
        nontriv = any(k in ('SLICE',) for k in g.kinds) and any(k in ('SET', 'APPLY', 'APPLYSLICE', 'COPYFROM', 'SET1', 'APPLY1', 'UNROLLW', 'SETN', 'SCALE', 'ADDTO', 'APPLYFUNC') for k in g.kinds) if valid else False
        c.count(line, nontrivial=nontriv)
        for k in g.kinds:
            op_hist[k] = op_hist.get(k, 0) + 1
        tys = [t for t in TYPES if t in per]
        for ty in tys:
            d = first_diff(per[ty], lm)
            if d:
                c.corr_broken.append({'history': line, 'type': ty, 'op_index': d[0], 'impl': d[1][:300], 'model': d[2][:300]})
                break
        if not valid or oracle != 'spec':
            return
        exp = mask(' ; '.join(g.expected), g.kinds)
        for ty in tys:
            d = first_diff(per[ty], exp)
            if d is None:
                continue
            # a recorded finding class? only if the divergent step matches the alternative exactly
            k = d[0]
            key = None
            if k < len(g.alts) and g.alts[k] is not None and d[1] == g.alts[k] and g.sh.notes:
                key = sorted(g.sh.notes)[0]
            new = c.violation('oracle_%s_%d.json' % (ty, len(c.violations)),
                              {'kind': 'abstract-spec-oracle', 'history': line, 'element_type': ty, 'op_index': k,
                               'op': g.ops[k] if k < len(g.ops) else None, 'implementation': d[1], 'spec': d[2],
                               'replay': "echo '%s' | /verif/harness/bin/arrops" % line}, key=key)
            if not new and key:
                finding_hits[key] = finding_hits.get(key, 0) + 1
            break

    for g in hist:
        check_history(g, impl[pos], model[pos], lines[pos]); pos += 1
    goc_equal = 0
    for ga, gb in pairs:
        la, lb = impl[pos], impl[pos + 1]
        check_history(ga, la, model[pos], lines[pos]); check_history(gb, lb, model[pos + 1], lines[pos + 1])
        # Go-backed and C-backed observationally equal, when the spec says so (no aliasing-of-Unroll op, no finding class)
        if ga.ops[1:] == gb.ops[1:] and ' ; '.join(ga.expected) == ' ; '.join(gb.expected) and not gb.sh.notes:
            pa, pb = parse_impl(la), parse_impl(lb)
            for ty in pa:
                if pa[ty] != pb.get(ty):
                    c.violation('go_vs_c_%d.json' % pos, {'kind': 'go-vs-c-lockstep', 'go_history': lines[pos], 'c_history': lines[pos + 1],
                                                        'element_type': ty, 'diff': first_diff(pa[ty], pb.get(ty, ''))})
                    break
            else:
                goc_equal += 1
        if '!CANARY' in lb:
            c.violation('canary_%d.json' % pos, {'kind': 'write-outside-C-buffer', 'history': lines[pos + 1]})
        pos += 2
    mal_panics = 0
    for g in mal:
        g.kinds = [o.split()[0] for o in ' ; '.join(g.ops).split(' ; ')]
        check_history(g, impl[pos], model[pos], lines[pos], valid=False)
        if 'PANIC' in impl[pos]:
            mal_panics += 1
        pos += 1
    for l in corpus_lines:
        if l.startswith('IOP'):
            if impl[pos] != model[pos]:
                c.corr_broken.append({'iop': l, 'impl': impl[pos], 'model': model[pos]})
            c.count(l, nontrivial=True)
        else:
            g = ag.shadow_replay(l)
            if g is None:
                g = ag.HistoryGen(rng); g.kinds = []
                check_history(g, impl[pos], model[pos], l, valid=False)
            else:
                check_history(g, impl[pos], model[pos], l, valid=True)
        pos += 1
    for (kind, arg, line) in iops:
        c.count(line, nontrivial=True)
        if impl[pos] != model[pos]:
            c.corr_broken.append({'iop': line, 'impl': impl[pos], 'model': model[pos]})
        exp = 'vs:' + ','.join(map(str, iop_expected(kind, arg)))
        if impl[pos] != exp:
            c.violation('iop_%d.json' % pos, {'kind': 'integer-helper-oracle', 'case': line, 'implementation': impl[pos], 'definition': exp})
        pos += 1
    searched = 0
    if c.corr_broken and not c.violations and oracle == 'spec':
        # section 3.3 of DESIGN.md: search for a concrete failing input with the abstract-spec oracle
        for rnd in range(12):
            batch = [ag.HistoryGen(rng, backend_mode=rng.choice(['g', 'c', 'mixed']), types=rng.choice(['all', 'six']),
                                   opmix=opmix, max_ops=20, allowed=allowed).gen() for _ in range(500)]
            bl = [g.line() for g in batch]
            bi = run_lines(os.path.join(HARNESS, 'bin', 'arrops'), bl, env=GOENV)
            bm = run_model(bl)
            for g, li, lm, ln in zip(batch, bi, bm, bl):
                check_history(g, li, lm, ln)
            searched += len(batch)
            if c.violations:
                break
    extra_cov = extra(c) if extra else {}
    extra_cov['failing_input_search_histories'] = searched
    for g in hist[:3]:
        c.sample({'history': g.line(), 'spec_final_observable': g.expected[-1][:200]})
    c.cov['rule'] = ('operation histories (4-%d ops) over 1-3 root arrays (1-4 dims, extents 1-5, Go- and C-backed) with chains of nested, '
                     'stepped slices, reads, element/run/sub-array/whole-array writes, Unroll/Reshape/ReshapeFast/Contiguous/Max/Min, Get1..Set3, '
                     'arrayops (6 types); each history runs on all 8 element types through data/ and data/cdata/ and once through the extracted Coq '
                     'model; observables after every op = result + every root buffer + every live view read back by Get; '
                     'non-trivial = contains a slice and a write; %s') % (14 if quick else 22, focus_text)
    c.finish(extra_cov={'small_scope_exhaustive_view_pairs': len(pairs) - n_random_pairs, 'op_histogram': op_hist, 'lockstep_go_vs_c_pairs_equal': goc_equal, 'malformed_histories': len(mal),
                        'malformed_panics': mal_panics, 'integer_helper_cases': len(iops), 'corpus_cases': len(corpus_lines),
                        'finding_class_hits': finding_hits, 'element_types': TYPES, **extra_cov},
             assumptions=manifest_assumptions)
