#!/usr/bin/env python3
"""Regenerates MANIFEST.json from the table below (kept valid at all times)."""
import json, os
V = os.path.dirname(os.path.dirname(os.path.abspath(__file__)))
TB = ("Coq 8.16.1 kernel (+VM); stdlib axioms as listed per theorem in the evidence file; hand-written Gallina model tied to /repo "
      "by a differential correspondence run on every invocation (extraction ExtrOcamlBasic/ExtrOCamlFloats/ExtrOCamlInt63 + OCaml driver "
      "+ Go harness built against /repo's working tree)")
import glob
def load_checks():
    c = {}
    for f in sorted(glob.glob(os.path.join(V, 'tools', 'manifest.d', '*.json'))):
        d = json.load(open(f))
        c[d['id']] = d
    return c
NOT_YET = {}
def main():
    CHECKS = load_checks()
    props = [json.loads(l) for l in open(os.path.join(V, 'properties.jsonl'))]
    checks = []
    na = []
    for p in props:
        pid = p['id']
        if pid in CHECKS:
            c = CHECKS[pid]
            checks.append({
                'property_id': pid,
                'quick_cmd': 'python3 tools/%s --tier quick' % c['script'],
                'thorough_cmd': 'python3 tools/%s --tier thorough' % c['script'],
                'evidence_file': 'evidence/%s.json' % pid,
                'replay_cmd_template': 'python3 tools/%s --replay {path}' % c['script'],
                'engine': c.get('engine','coq-model+correspondence'),
                'level_claimed': {'category': c['cat'], 'text': c['text'], 'design_ref': 'DESIGN.md section ' + c['ref']},
                'level_note': c.get('note', TB),
                'technique': c['tech'],
            })
        else:
            na.append({'property_id': pid, 'reason': NOT_YET.get(pid, 'check not built yet in this round (planned: Coq model + theorems + correspondence, see DESIGN.md section 6); not claimed until its check exists')})
    m = {
        'version': 1,
        'setup_cmd': 'bash tools/setup.sh',
        'hooks': {'guard': 'verif', 'enable': 'go build -tags verif (harness module in /verif/harness with replace => /repo)',
                  'baseline_off_cmd': "cd /repo && export GOFLAGS=-mod=mod GOPROXY=off GOSUMDB=off GOTOOLCHAIN=local && go test -vet=off -count=1 ./data/... ./io/json/... ./util/...",
                  'source_commits': ['c6ba772', 'f534c6c', 'bb49974'], 'add_only': True},
        'engines': [{'name': 'coq-model+correspondence', 'path': 'coq/ ocaml/ harness/ tools/',
                     'serves_properties': sorted(CHECKS), 'kind_free_text': 'Rocq/Coq 8.16 proofs about an executable Gallina model; extracted model run against the Go code on shared inputs'}],
        'checks': checks,
        'not_applicable': na,
        'notes': 'See DESIGN.md. Evidence is written by each check run; known_findings.txt lists recorded and fixed defects.',
    }
    json.dump(m, open(os.path.join(V, 'MANIFEST.json'), 'w'), indent=1)
if __name__ == '__main__':
    main()
