#!/usr/bin/env python3
"""C10 check: theorems in coq/Properties/C10.v + correspondence of
Kernels/{Gr4j,Sacramento,Simhyd,Surm,Coeff}.v with models/rr/*.go (through
sim.Catalog, states from the model's own InitialiseStates) + the C10 oracle
(finite, non-negative, stores within bounds, components add up, no water
created, exact GR4J closure for x2=0 and PET=0) on the implementation's outputs."""
import sys, os
sys.path.insert(0, os.path.dirname(os.path.abspath(__file__)))
from vlib import *
import rrlib
from rrlib import *

MODELS = ('GR4J', 'Sacramento', 'Simhyd', 'Surm', 'RunoffCoefficient')
EXACT = {'RunoffCoefficient'}
CORPUS = os.path.join(VERIF, 'corpus', 'C10')


def finding_key(cs, bad, ri):
    """Key under which a failure may be listed in known_findings.txt.  For Sacramento the trigger
    predicate of the two recorded defects is evaluated EXACTLY: the SACTRACE command re-runs a copy
    of the current sacramento() (regenerated from /repo on every run, arithmetic unchanged) that
    records the first time step at which (a) ratio < -1 or adimc > uztwm+lztwm, (b) fracp > 1 --
    the situations that the guards of the original Fortran code exclude.  The events count only if
    the copy's outputs are bit-identical to sim.Catalog's on this case and the event does not come
    after the failure.  Everything else gets a key that matches no finding."""
    model, klass, msg = cs['model'], bad[0], bad[1]
    if model == 'Sacramento' and ri is not None and ri[0] == 'OK':
        tr = sactrace(cs['ps'], cs['st0'], cs['rain'], cs['pet'])
        if tr is not None and kresults_agree(ri, tr[1]) is None:
            ev = tr[0]
            m = re.search(r't=(\d+)', msg)
            tfail = int(m.group(1)) if m else len(cs['rain'])
            adimc_ev = [t for t in (ev['ratioNeg'], ev['adimcOver']) if t >= 0]
            if adimc_ev and min(adimc_ev) <= tfail:
                return 'sacramento-adimc-unguarded'
            if 0 <= ev['fracpOver'] <= tfail:
                return 'sacramento-fracp-unguarded'
    return '%s-%s' % (model.lower(), klass)


def main():
    c = Check('C10')
    c.prove()
    build_driver(['rr'])          # private driver with the rr fragment only (Extract/lists/rr.list, registry.d/rr.*)
    gen_sactrace()
    build_harness(['owrun'])
    rng = c.rng
    quick = c.tier == 'quick'
    nvec = {'GR4J': 300, 'Sacramento': 120, 'Simhyd': 200, 'Surm': 200, 'RunoffCoefficient': 30} if quick else \
           {'GR4J': 4000, 'Sacramento': 1500, 'Simhyd': 2500, 'Surm': 2500, 'RunoffCoefficient': 200}
    lengths = [0, 1, 2, 7, 40, 400, 400] if quick else [0, 1, 2, 7, 40, 400, 400, 1500]

    # ---- stage 0: parameter vectors and the model's own initial states
    vecs = []        # (model, params)
    for model in MODELS:
        for k in range(nvec[model]):
            ps = draw_params(rng, model, p_end=0.3)
            if model == 'GR4J':
                r = rng.random()
                if r < 0.35:
                    ps[1] = 0.0                       # exact-closure class
                elif r < 0.7:
                    ps[1] = -abs(ps[1])               # no-water-created class (x2 <= 0)
                if k % 3 == 0:                        # every UH length class, both sides of integers / halves
                    h = rng.randint(1, 8) / 2.0
                    ps[3] = min(4.0, max(0.5, h + rng.choice([0.0, 1e-9, -1e-9, 1e-3, -1e-3, 0.25])))
            vecs.append((model, ps))
    ilines = [init_line(m, ps) for (m, ps) in vecs]
    iimpl = run_impl(ilines)
    imodel = run_model(ilines)
    inits = []
    for (m, ps), li, lm, line in zip(vecs, iimpl, imodel, ilines):
        si, sm = parse_init(li), parse_init(lm)
        if si is None or sm is None or si != sm:
            c.corr_broken.append({'case': [m, ps], 'diff': 'InitialiseStates: impl %r model %r' % (li[:200], lm[:200]), 'line': line})
        inits.append(si)

    # ---- stage 1: full runs and prefix runs (prefix = observation of the stores in mid-run)
    cases = []       # dict(model, ps, st0, rain, pet, regime, kind)
    for (m, ps), st0 in zip(vecs, inits):
        if st0 is None:
            c.violation('init_%s.json' % m, {'kind': 'InitialiseStates-failed', 'model': m, 'params': ps})
            continue
        for regime in REGIMES:
            T = rng.choice(lengths)
            zero_pet = (m == 'GR4J' and ps[1] == 0.0 and rng.random() < 0.6)
            rain, pet = forcing(rng, regime, T, zero_pet=zero_pet)
            cases.append({'model': m, 'ps': ps, 'st0': st0, 'rain': rain, 'pet': pet, 'regime': regime, 'kind': 'full'})
            if T >= 7 and m != 'RunoffCoefficient':
                for cut in sorted({rng.randint(1, T - 1), max(1, T // 3)}):
                    cases.append({'model': m, 'ps': ps, 'st0': st0, 'rain': rain[:cut], 'pet': pet[:cut], 'regime': regime,
                                  'kind': 'prefix', 'rest': (rain[cut:], pet[cut:])})

    # ---- corpus: minimised past failures (witnesses of the known findings), always replayed
    for f in sorted(glob.glob(os.path.join(CORPUS, '*.json'))):
        d = json.load(open(f))
        cases.append({'model': d['model'], 'ps': d['params'], 'st0': d['states'], 'rain': d['rainfall'], 'pet': d['pet'],
                      'regime': d.get('regime', 'corpus'), 'kind': 'corpus:' + os.path.basename(f)})

    def mk(cs):
        ins = [cs['rain']] if NINPUTS[cs['model']] == 1 else [cs['rain'], cs['pet']]
        return kcase(cs['model'], cs['ps'], cs['st0'], ins)

    def run_and_judge(cases, tag):
        lines = [mk(cs) for cs in cases]
        impl = run_impl(lines)
        model = run_model(lines)
        finals = []
        retry = []
        for i, (cs, li, lm) in enumerate(zip(cases, impl, model)):
            ri, rm = parse_kresult(li), parse_kresult(lm)
            m = cs['model']
            wet = sum(cs['rain']) > 0
            c.count((m, cs['ps'], cs['st0'], cs['rain'], cs['pet']), nontrivial=wet and len(cs['rain']) > 0)
            nmodel[m] = nmodel.get(m, 0) + 1
            nreg[cs['regime']] = nreg.get(cs['regime'], 0) + 1
            diff = kresults_agree(ri, rm) if m in EXACT else kresults_agree(ri, rm, rtol=1e-9, atol=abs_tol(cs['ps'], cs['st0'], cs['rain']))
            if diff:
                retry.append((i, diff))
            desc = {'model': m, 'params': cs['ps'], 'initial_states': cs['st0'], 'regime': cs['regime'], 'kind': cs['kind'],
                    'rainfall': cs['rain'], 'pet': cs['pet'], 'case_line': lines[i]}
            if ri[0] != 'OK':
                desc.update({'failure': 'crash-on-valid-input', 'impl': li[:300]})
                c.violation('oracle_%s_%s_%d.json' % (tag, m, i), desc, key=finding_key(cs, ('crash', ''), None))
                finals.append(None)
                continue
            bad = ORACLES[m](cs['ps'], cs['st0'], cs['rain'], cs['pet'], ri[1], ri[2])
            # a hot start is made only from a state of a run that itself satisfied the property
            finals.append(None if bad else ri[2])
            if bad:
                desc.update({'failure': bad[0], 'message': bad[1], 'runoff_head': ri[1][0][:12], 'final_states': ri[2]})
                key = finding_key(cs, bad, ri)
                if not c.violation('oracle_%s_%s_%d.json' % (tag, m, i), desc, key=key):
                    nknown[key] = nknown.get(key, 0) + 1
            if i % 211 == 0:
                c.sample({'model': m, 'params': [round(p, 4) for p in cs['ps']], 'regime': cs['regime'], 'steps': len(cs['rain']),
                          'sum_rain': sum(cs['rain']), 'sum_runoff': sum(ri[1][1] if m == 'Sacramento' else ri[1][0]),
                          'final_states': ri[2][:4]})
        # mismatches: accept only if the measured sensitivity of the model to a 1e-14 relative
        # perturbation of its inputs explains the difference (ill-conditioned case, see rrlib)
        plines = []
        for i, diff in retry:
            cs = cases[i]
            ps2, rain2, pet2 = perturb_case(cs['model'], cs['ps'], cs['rain'], cs['pet'])
            plines.append(kcase(cs['model'], ps2, cs['st0'], [rain2] if NINPUTS[cs['model']] == 1 else [rain2, pet2]))
        pres = run_model(plines) if plines else []
        for (i, diff), lp in zip(retry, pres):
            cs = cases[i]
            d2 = 'exact comparison required' if cs['model'] in EXACT else \
                conditioned_agree(parse_kresult(impl[i]), parse_kresult(model[i]), parse_kresult(lp), 1e-9, abs_tol(cs['ps'], cs['st0'], cs['rain']))
            if d2:
                c.corr_broken.append({'case': [cs['model'], cs['ps'], cs['regime'], len(cs['rain']), cs['kind']], 'diff': diff,
                                      'conditioned': d2, 'line': lines[i][:4000]})
            else:
                illcond[0] += 1
        # Sacramento: how many of these runs satisfy the hypotheses of the guarded theorems
        # (C10_sacramento_guarded / _budget_guarded): static guards + pre_guard at every step
        sidx = [i for i, cs in enumerate(cases) if cs['model'] == 'Sacramento' and len(cs['rain']) > 0]
        sres = run_impl([sactrace_line(cases[i]['ps'], cases[i]['st0'], cases[i]['rain'], cases[i]['pet']) for i in sidx]) if sidx else []
        for i, l in zip(sidx, sres):
            tr = parse_sactrace(l)
            cs = cases[i]
            sacstat['runs'] += 1
            if tr is None or kresults_agree(parse_kresult(impl[i]), tr[1]) is not None:
                sacstat['trace_unavailable'] += 1
                continue
            ev = tr[0]
            static_ok = cs['ps'][7] <= cs['ps'][6] and cs['ps'][5] >= 10.0
            inv0 = all(v == 0.0 for v in cs['st0'])     # zero state satisfies st_inv; hot starts are not classified
            if static_ok and ev['preGuard'] < 0 and inv0:
                sacstat['within_guarded_theorems'] += 1
            if ev['ratioNeg'] >= 0 or ev['adimcOver'] >= 0 or ev['fracpOver'] >= 0:
                sacstat['with_guard_violation_event'] += 1
        return finals

    illcond = [0]
    sacstat = {'runs': 0, 'within_guarded_theorems': 0, 'with_guard_violation_event': 0, 'trace_unavailable': 0}
    nmodel, nreg, nknown = {}, {}, {}
    finals = run_and_judge(cases, 's1')

    # ---- malformed stream (model-vs-code only): state vectors that are too short / carry extra entries
    odd = []
    for m in ('Simhyd', 'Surm', 'Sacramento', 'GR4J'):
        need = NSTATES.get(m, 6)
        for k in range(6 if quick else 40):
            ps = draw_params(rng, m, p_end=0.3)
            n = rng.choice([0, max(0, need - 1), need + 2])
            st = [rng.uniform(0, 1) for _ in range(n)]
            if m == 'GR4J' and n >= 4:
                st[2], st[3] = 1.0, 2.0
            rain, pet = forcing(rng, rng.choice(REGIMES), rng.choice([0, 3, 20]))
            odd.append((m, ps, st, rain, pet))
    olines = [kcase(m, ps, st, [rain, pet]) for (m, ps, st, rain, pet) in odd]
    oi, om = run_impl(olines), run_model(olines)
    odd_panics = 0
    for (m, ps, st, rain, pet), li, lm, line in zip(odd, oi, om, olines):
        ri, rm = parse_kresult(li), parse_kresult(lm)
        c.count(('odd', m, ps, st, rain, pet), nontrivial=False)
        odd_panics += ri[0] != 'OK'
        diff = kresults_agree(ri, rm, rtol=1e-9, atol=abs_tol(ps, st, rain))
        if diff and ri[0] == 'OK' and rm[0] == 'OK':
            ps2, rain2, pet2 = perturb_case(m, ps, rain, pet)
            diff = conditioned_agree(ri, rm, parse_kresult(run_model([kcase(m, ps2, st, [rain2, pet2])])[0]), 1e-9, abs_tol(ps, st, rain))
        if diff:
            c.corr_broken.append({'case': ['malformed', m, ps, len(st), len(rain)], 'diff': diff, 'line': line[:4000]})

    # ---- stage 2: hot starts from states the model itself produced (non-zero initial storage)
    hot = []
    for cs, fin in zip(cases, finals):
        if cs['kind'] == 'prefix' and fin is not None:
            rain, pet = cs['rest']
            hot.append({'model': cs['model'], 'ps': cs['ps'], 'st0': fin, 'rain': rain, 'pet': pet,
                        'regime': cs['regime'], 'kind': 'hotstart'})
    run_and_judge(hot, 's2')

    c.cov['rule'] = ('parameter vectors drawn from the ranges of Properties/C10.v (interior, log-uniform for capacities, and end points with '
                     'probability 0.3; GR4J x4 additionally on both sides of every integer and half-integer; x2 = 0 / x2 <= 0 classes), '
                     'each run under the five forcing regimes (dry, wet, intermittent with long dry spells, single pulse, extreme storm up to '
                     '1500 mm/day) for T in {0,1,2,7,40,400}; initial states = the model\'s own InitialiseStates (INIT command), '
                     'plus prefix runs (stores observed in mid-run), hot starts from those model-produced states, the corpus witnesses of the known findings and a small malformed stream (short / over-long state vectors, model-vs-code only); every case run through '
                     'sim.Catalog and through the extracted Coq kernel (rtol 1e-9, atol 1e-12*(1+largest parameter/initial store/daily rain); RunoffCoefficient bit-exact) and judged by the '
                     'C10 oracle with tolerance 1e-9*(1+sum rain); non-trivial = T>0 and some rain; distinct = distinct (model, parameters, initial states, series)')
    c.finish(extra_cov={'cases_per_model': nmodel, 'cases_per_regime': nreg, 'parameter_vectors': len(vecs), 'malformed_cases': len(odd), 'malformed_panics_impl': odd_panics, 'known_finding_cases': nknown, 'sacramento_theorem_coverage': sacstat, 'ill_conditioned_cases_accepted': illcond[0], 'exhaustive': False},
             assumptions=['theorems are over exact reals (RArith); float round-off is covered only by the tolerance oracle on the implementation outputs',
                          'OCaml libm stands in for Go libm (exp, pow, tanh) in the correspondence run: rtol 1e-9',
                          'Sacramento: outside the three guards of C10_sacramento_guarded (lzfpm<=lzfsm, lztwm>=10, pre_guard at every step; the number of generated runs inside them is measured in sacramento_theorem_coverage) the store invariant and water balance are covered by the oracle only; oracle failures whose run contains '
                          'one of the two recorded guard violations (ratio < -1 or adimc > uztwm+lztwm; fracp > 1 -- detected by SACTRACE, a copy of the current '
                          'sacramento() regenerated from /repo whose outputs must be bit-identical to sim.Catalog\'s) are reported as KNOWN-FINDING, all others as VIOLATION',
                          'sim.Catalog wrapper (generated Run) is exercised, not modelled, in this check (see C04)'])


if __name__ == '__main__':
    main()
