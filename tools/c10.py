#!/usr/bin/env python3
"""C10 check: theorems in coq/Properties/C10.v + correspondence of
Kernels/{Gr4j,Sacramento,Simhyd,Surm,Coeff}.v with models/rr/*.go (through
sim.Catalog, states from the model's own InitialiseStates) + the C10 oracle
(finite, non-negative, stores within bounds, components add up, no water
created, exact GR4J closure for x2=0 and PET=0) on the implementation's outputs."""
import sys, os
sys.path.insert(0, os.path.dirname(os.path.abspath(__file__)))
from vlib import *
import rrlib
from rrlib import *

MODELS = ('GR4J', 'Sacramento', 'Simhyd', 'Surm', 'RunoffCoefficient')
EXACT = {'RunoffCoefficient'}
# model-vs-code tolerances (rtol, factor on rrlib.abs_tol).  Sacramento, Simhyd and Surm use libm only through exp/pow of
# well-conditioned arguments: code and extracted kernel were measured to agree to 1e-14 (bit-identical in all but ~0.3 % of the
# Sacramento runs, which sit on a floor()/branch threshold and are handled by the measured-sensitivity second chance), so they are
# compared at 1e-12.  GR4J keeps 1e-9: tanh/pow of Go and C differ by an ulp and its percolation formula S*(1-(1+z)^(-1/4))
# loses significance for small z, so two correct libms differ by up to ~1e-9 relative on small stores.
CORR_TOL = {'GR4J': (1e-9, 1.0), 'Sacramento': (1e-12, 1e-3), 'Simhyd': (1e-12, 1e-3), 'Surm': (1e-12, 1e-3)}


def corr_tol(m, ps, st0, rain):
    rt, fac = CORR_TOL[m]
    return rt, fac * abs_tol(ps, st0, rain)
CORPUS = os.path.join(VERIF, 'corpus', 'C10')


def finding_key(cs, bad):
    """Key under which a failure could be listed in known_findings.txt.  No C10 finding is open
    (the three Sacramento defects were fixed in /repo 593a60d and d1b98da), so these keys match
    nothing and every oracle failure is a VIOLATION."""
    return '%s-%s' % (cs['model'].lower(), bad[0])


def main():
    c = Check('C10')
    c.prove()
    build_driver(['rr'])          # private driver with the rr fragment only (Extract/lists/rr.list, registry.d/rr.*)
    build_harness(['owrun'])
    rng = c.rng
    quick = c.tier == 'quick'
    nvec = {'GR4J': 300, 'Sacramento': 120, 'Simhyd': 200, 'Surm': 200, 'RunoffCoefficient': 30} if quick else \
           {'GR4J': 4000, 'Sacramento': 1500, 'Simhyd': 2500, 'Surm': 2500, 'RunoffCoefficient': 200}
    lengths = [0, 1, 2, 7, 40, 400, 400] if quick else [0, 1, 2, 7, 40, 400, 400, 1500]

    # ---- stage 0: parameter vectors and the model's own initial states
    closed = [0]
    vecs = []        # (model, params)
    for model in MODELS:
        for k in range(nvec[model]):
            ps = draw_params(rng, model, p_end=0.3)
            if model == 'GR4J':
                r = rng.random()
                if r < 0.35:
                    ps[1] = 0.0                       # exact-closure class
                elif r < 0.7:
                    ps[1] = -abs(ps[1])               # no-water-created class (x2 <= 0)
                if k % 3 == 0:                        # every UH length class, both sides of integers / halves
                    h = rng.randint(1, 8) / 2.0
                    ps[3] = min(4.0, max(0.5, h + rng.choice([0.0, 1e-9, -1e-9, 1e-3, -1e-3, 0.25])))
            vecs.append((model, ps))
    uhcls = {}
    for (m, ps) in vecs:
        if m == 'Sacramento':
            w = ps[17:22]
            dev = abs(sum(w) - 1.0)
            k = ('single-ordinate' if sum(1 for v in w if v > 0) == 1 else 'sum-exactly-1' if dev == 0.0 else 'sum-off-by<1e-8' if dev < 1e-8 else
                 'sum-off-by-1e-8..1e-6' if dev < 1e-6 else 'sum-off-by-1e-6..1e-3' if dev < 1e-3 else 'grossly-unnormalised')
            uhcls[k] = uhcls.get(k, 0) + 1
            closed[0] += (ps[11] == 0.0 and ps[12] == 0.0)
    ilines = [init_line(m, ps) for (m, ps) in vecs]
    iimpl = run_impl(ilines)
    imodel = run_model(ilines)
    inits = []
    for (m, ps), li, lm, line in zip(vecs, iimpl, imodel, ilines):
        si, sm = parse_init(li), parse_init(lm)
        if si is None or sm is None or si != sm:
            c.corr_broken.append({'case': [m, ps], 'diff': 'InitialiseStates: impl %r model %r' % (li[:200], lm[:200]), 'line': line})
        inits.append(si)

    # ---- stage 1: full runs and prefix runs (prefix = observation of the stores in mid-run)
    cases = []       # dict(model, ps, st0, rain, pet, regime, kind)
    for (m, ps), st0 in zip(vecs, inits):
        if st0 is None:
            c.violation('init_%s.json' % m, {'kind': 'InitialiseStates-failed', 'model': m, 'params': ps})
            continue
        for regime in REGIMES:
            T = draw_length(rng, lengths)
            zero_pet = (m == 'GR4J' and ps[1] == 0.0 and rng.random() < 0.6)
            rain, pet = forcing(rng, regime, T, zero_pet=zero_pet)
            cases.append({'model': m, 'ps': ps, 'st0': st0, 'rain': rain, 'pet': pet, 'regime': regime, 'kind': 'full'})
            if T >= 7 and m != 'RunoffCoefficient':
                for cut in sorted({rng.randint(1, T - 1), max(1, T // 3)}):
                    cases.append({'model': m, 'ps': ps, 'st0': st0, 'rain': rain[:cut], 'pet': pet[:cut], 'regime': regime,
                                  'kind': 'prefix', 'rest': (rain[cut:], pet[cut:])})

        # one run per parameter vector from a state inside the store invariant but away from the model's own zeros
        # (stores at capacity, above / at field capacity, part full)
        if m != 'RunoffCoefficient':
            regime = rng.choice(REGIMES)
            rain, pet = forcing(rng, regime, draw_length(rng, [7, 40, 120]))
            cases.append({'model': m, 'ps': ps, 'st0': warm_states(rng, m, ps, st0), 'rain': rain, 'pet': pet, 'regime': regime, 'kind': 'warm'})

    # ---- corpus: minimised past failures (witnesses of the known findings), always replayed
    for f in sorted(glob.glob(os.path.join(CORPUS, '*.json'))):
        d = json.load(open(f))
        cases.append({'model': d['model'], 'ps': d['params'], 'st0': d['states'], 'rain': d['rainfall'], 'pet': d['pet'],
                      'regime': d.get('regime', 'corpus'), 'kind': 'corpus:' + os.path.basename(f)})

    def mk(cs):
        ins = [cs['rain']] if NINPUTS[cs['model']] == 1 else [cs['rain'], cs['pet']]
        return kcase(cs['model'], cs['ps'], cs['st0'], ins)

    def run_and_judge(cases, tag):
        lines = [mk(cs) for cs in cases]
        impl = run_impl(lines)
        model = run_model(lines)
        finals = []
        retry = []
        for i, (cs, li, lm) in enumerate(zip(cases, impl, model)):
            ri, rm = parse_kresult(li), parse_kresult(lm)
            m = cs['model']
            wet = sum(cs['rain']) > 0
            c.count((m, cs['ps'], cs['st0'], cs['rain'], cs['pet']), nontrivial=wet and len(cs['rain']) > 0)
            nmodel[m] = nmodel.get(m, 0) + 1
            nreg[cs['regime']] = nreg.get(cs['regime'], 0) + 1
            diff = kresults_agree(ri, rm) if m in EXACT else kresults_agree(ri, rm, *corr_tol(m, cs['ps'], cs['st0'], cs['rain']))
            if diff:
                retry.append((i, diff))
            desc = {'model': m, 'params': cs['ps'], 'initial_states': cs['st0'], 'regime': cs['regime'], 'kind': cs['kind'],
                    'rainfall': cs['rain'], 'pet': cs['pet'], 'case_line': lines[i]}
            if ri[0] != 'OK':
                desc.update({'failure': 'crash-on-valid-input', 'impl': li[:300]})
                c.violation('oracle_%s_%s_%d.json' % (tag, m, i), desc, key=finding_key(cs, ('crash', '')))
                finals.append(None)
                continue
            bad = ORACLES[m](cs['ps'], cs['st0'], cs['rain'], cs['pet'], ri[1], ri[2])
            # a hot start is made only from a state of a run that itself satisfied the property
            finals.append(None if bad else ri[2])
            if bad:
                desc.update({'failure': bad[0], 'message': bad[1], 'runoff_head': ri[1][0][:12], 'final_states': ri[2]})
                key = finding_key(cs, bad)
                if not c.violation('oracle_%s_%s_%d.json' % (tag, m, i), desc, key=key):
                    nknown[key] = nknown.get(key, 0) + 1
            if i % 211 == 0:
                c.sample({'model': m, 'params': [round(p, 4) for p in cs['ps']], 'regime': cs['regime'], 'steps': len(cs['rain']),
                          'sum_rain': sum(cs['rain']), 'sum_runoff': sum(ri[1][1] if m == 'Sacramento' else ri[1][0]),
                          'final_states': ri[2][:4]})
        # mismatches: accept only if the measured sensitivity of the model to small relative perturbations of its
        # parameters, forcing and initial states (several runs, both signs, see rrlib) explains the difference
        plines, spans = [], []
        for i, diff in retry:
            cs = cases[i]
            pl = perturbed_lines(cs['model'], cs['ps'], cs['st0'], cs['rain'], cs['pet'])
            spans.append((len(plines), len(plines) + len(pl)))
            plines += pl
        pres = run_model(plines) if plines else []
        for (i, diff), (a, b) in zip(retry, spans):
            cs = cases[i]
            info = {}
            d2 = 'exact comparison required' if cs['model'] in EXACT else \
                conditioned_agree(parse_kresult(impl[i]), parse_kresult(model[i]), [parse_kresult(l) for l in pres[a:b]],
                                  *corr_tol(cs['model'], cs['ps'], cs['st0'], cs['rain']), info=info,
                                  weights=perturbed_weights(cs['model'], cs['ps'], cs['st0'], cs['rain'], cs['pet']))
            if d2:
                c.corr_broken.append({'case': [cs['model'], cs['ps'], cs['regime'], len(cs['rain']), cs['kind']], 'diff': diff,
                                      'conditioned': d2, 'line': lines[i][:4000]})
            else:
                illcond[0] += 1
                illcond[1] = max(illcond[1], info.get('amplification', 0.0))
                illcond[2] += info.get('perturbed_runs', 0)
        # Sacramento: how many of these runs satisfy the hypotheses of C10_sacramento / _budget / _cumulative
        # (zero initial state, which satisfies the store invariant, and PET <= uztwm + lztwm every day)
        for cs in cases:
            if cs['model'] == 'Sacramento' and len(cs['rain']) > 0:
                sacstat['runs'] += 1
                if all(v == 0.0 for v in cs['st0']) and all(e <= cs['ps'][3] + cs['ps'][5] for e in cs['pet']):
                    sacstat['within_theorems'] += 1
        return finals

    illcond = [0, 0.0, 0]
    sacstat = {'runs': 0, 'within_theorems': 0}
    nmodel, nreg, nknown = {}, {}, {}
    finals = run_and_judge(cases, 's1')

    # ---- malformed stream (model-vs-code only): state vectors that are too short / carry extra entries
    odd = []
    for m in ('Simhyd', 'Surm', 'Sacramento', 'GR4J'):
        need = NSTATES.get(m, 6)
        for k in range(6 if quick else 40):
            ps = draw_params(rng, m, p_end=0.3)
            n = rng.choice([0, max(0, need - 1), need + 2])
            st = [rng.uniform(0, 1) for _ in range(n)]
            if m == 'GR4J' and n >= 4:
                st[2], st[3] = 1.0, 2.0
            rain, pet = forcing(rng, rng.choice(REGIMES), rng.choice([0, 3, 20]))
            odd.append((m, ps, st, rain, pet))
    olines = [kcase(m, ps, st, [rain, pet]) for (m, ps, st, rain, pet) in odd]
    oi, om = run_impl(olines), run_model(olines)
    odd_panics = 0
    for (m, ps, st, rain, pet), li, lm, line in zip(odd, oi, om, olines):
        ri, rm = parse_kresult(li), parse_kresult(lm)
        c.count(('odd', m, ps, st, rain, pet), nontrivial=False)
        odd_panics += ri[0] != 'OK'
        diff = kresults_agree(ri, rm, *corr_tol(m, ps, st, rain))
        if diff and ri[0] == 'OK' and rm[0] == 'OK':
            info = {}
            diff = conditioned_agree(ri, rm, [parse_kresult(l) for l in run_model(perturbed_lines(m, ps, st, rain, pet))],
                                     *corr_tol(m, ps, st, rain), info=info, weights=perturbed_weights(m, ps, st, rain, pet))
            if not diff:
                illcond[0] += 1
                illcond[1] = max(illcond[1], info.get('amplification', 0.0))
                illcond[2] += info.get('perturbed_runs', 0)
        if diff:
            c.corr_broken.append({'case': ['malformed', m, ps, len(st), len(rain)], 'diff': diff, 'line': line[:4000]})

    # ---- stage 2: hot starts from states the model itself produced (non-zero initial storage)
    hot = []
    for cs, fin in zip(cases, finals):
        if cs['kind'] == 'prefix' and fin is not None:
            rain, pet = cs['rest']
            hot.append({'model': cs['model'], 'ps': cs['ps'], 'st0': fin, 'rain': rain, 'pet': pet,
                        'regime': cs['regime'], 'kind': 'hotstart'})
    run_and_judge(hot, 's2')

    c.cov['rule'] = ('parameter vectors drawn from the ranges of Properties/C10.v (interior, log-uniform for capacities, and end points with '
                     'probability 0.3; GR4J x4 additionally on both sides of every integer and half-integer; x2 = 0 / x2 <= 0 classes; Sacramento unit-hydrograph proportions from nine classes: defaults, random normalised, stored as float32 or with 7/6/5 decimals, sum 1 +- 1e-9..1e-5, grossly un-normalised, single ordinate; a quarter of the Sacramento vectors with side = ssout = 0, where the budget is an identity up to the unit-hydrograph buffer), '
                     'each run under the five forcing regimes (dry, wet, intermittent with long dry spells, single pulse, extreme storm up to '
                     '1500 mm/day) for T in {0,1,2,7,40,400} or, with probability 0.2, a block-boundary length (63..65, 127..129, 255..257, 511..513, 768, 1024); forcing with joint degenerate steps (rain = PET = 0 on the same step, PET = 0 on wet steps, bit-identical plateaus) written over 60 % of the series; initial states = the model\'s own InitialiseStates (INIT command), '
                     'plus one warm start per vector from a state inside the store invariant (stores at capacity / above, at, below field capacity), prefix runs (stores observed in mid-run), hot starts from those model-produced states, the corpus witnesses of the three fixed Sacramento defects (regressions) and a small malformed stream (short / over-long state vectors, model-vs-code only); every case run through '
                     'sim.Catalog and through the extracted Coq kernel (GR4J: rtol 1e-9, atol 1e-12*scale; Sacramento, Simhyd, Surm: rtol 1e-12, atol 1e-15*scale, scale = 1+largest parameter/initial store/daily rain; RunoffCoefficient bit-exact) and judged by the '
                     'C10 oracle with tolerance 1e-9*(1+sum rain), the Sacramento whole-run budget incl. the final land stores with 1e-12*(1+sum rain+initial stores); non-trivial = T>0 and some rain; distinct = distinct (model, parameters, initial states, series)')
    c.finish(extra_cov={'cases_per_model': nmodel, 'cases_per_regime': nreg, 'parameter_vectors': len(vecs), 'malformed_cases': len(odd), 'malformed_panics_impl': odd_panics, 'known_finding_cases': nknown, 'sacramento_theorem_coverage': sacstat, 'sacramento_uh_sum_classes': uhcls, 'sacramento_closed_budget_vectors': closed[0], 'ill_conditioned_cases_accepted': illcond[0], 'ill_conditioned_max_amplification': illcond[1], 'ill_conditioned_perturbed_runs': illcond[2], 'exhaustive': False},
             assumptions=['theorems are over exact reals (RArith); float round-off is covered only by the tolerance oracle on the implementation outputs',
                          'OCaml libm stands in for Go libm (exp, pow, tanh) in the correspondence run: rtol 1e-9 for GR4J, 1e-12 for Sacramento/Simhyd/Surm (measured agreement 1e-14)',
                          'Sacramento theorems assume the store invariant on the initial state (true for InitialiseStates) and PET <= uztwm+lztwm every day; '
                          'runs outside that (hot starts are not classified, PET above the tension capacity) are covered by the oracle only: '
                          'their number is measured in sacramento_theorem_coverage',
                          'sim.Catalog wrapper (generated Run) is exercised, not modelled, in this check (see C04)'])


if __name__ == '__main__':
    main()
