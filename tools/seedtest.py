#!/usr/bin/env python3
"""Confirm and evaluate one seeded change.

  seedtest.py <property-id> <seed-dir> <k> <name>

<seed-dir> holds patch<k>.diff, demo<k>/ (with RUN.txt) and README<k>.md as delivered by an
independent sub-agent.  Steps (all in a scratch worktree outside /repo and /verif, removed
afterwards): the patch applies to /repo's HEAD; the tree still builds; the 42 baseline tests
pass; the demonstration fails with the change and passes without it.  Then the patch is
applied to /repo's working tree, the property's quick check is run, and the patch is undone
(git checkout).  Everything is recorded in /verif/seeded/<name>/ (patch.diff, demo/, meta.json)."""
import json, os, shutil, subprocess, sys, time

ENV = dict(os.environ, GOFLAGS='-mod=mod', GOPROXY='off', GOSUMDB='off', GOTOOLCHAIN='local')
BUILD = 'go build ./data/... ./sim/... ./models/... ./util/... ./conv/... ./libopenwater/... ./io/json/...'
TESTS = 'go test -vet=off -count=1 ./data/... ./io/json/... ./util/...'


def sh(cmd, cwd=None, timeout=1800):
    p = subprocess.run(cmd, shell=True, cwd=cwd, env=ENV, stdout=subprocess.PIPE, stderr=subprocess.STDOUT, text=True, timeout=timeout)
    return p.returncode, p.stdout


def main():
    pid, sdir, k, name = sys.argv[1:5]
    also = sys.argv[5:]            # further property checks to run against the change
    patch = os.path.join(sdir, 'patch%s.diff' % k)
    demo = os.path.join(sdir, 'demo%s' % k)
    wt = '/tmp/seedtest-%s' % name
    meta = {'property': pid, 'name': name, 'source': 'independent sub-agent given only the property text and a scratch worktree',
            'confirmed_at': time.strftime('%Y-%m-%d %H:%M:%S')}
    sh('git -C /repo worktree remove --force %s' % wt)
    rc, out = sh('git -C /repo worktree add -q --detach %s HEAD' % wt)
    assert rc == 0, out
    try:
        run = open(os.path.join(demo, 'RUN.txt')).read()
        meta['demo_run_txt'] = run
        # place demo files: RUN.txt says where; convention: copy demo dir content into the worktree preserving relative paths
        def place():
            for root, _, files in os.walk(demo):
                for f in files:
                    if f == 'RUN.txt':
                        continue
                    rel = os.path.relpath(os.path.join(root, f), demo)
                    if f == 'go.mod.example':
                        continue
                    dst = os.path.join(harness, 'demo%s' % k, rel) if harness else os.path.join(wt, DEMO_PREFIX, rel)
                    os.makedirs(os.path.dirname(dst), exist_ok=True)
                    shutil.copy(os.path.join(root, f), dst)
        global DEMO_PREFIX
        DEMO_PREFIX = os.environ.get('SEED_DEMO_PREFIX', 'seeddemo%s' % k)
        democmd = os.environ.get('SEED_DEMO_CMD', 'go run ./seeddemo%s' % k)
        harness = None
        if os.path.exists(os.path.join(demo, 'go.mod.example')) or os.environ.get('SEED_HARNESS'):
            # demonstration lives in a scratch module that replaces gonum hdf5 by the pure-Go stand-in
            harness = wt + '.harness'
            shutil.rmtree(harness, ignore_errors=True)
            os.makedirs(harness)
            open(os.path.join(harness, 'go.mod'), 'w').write(
                'module seedharness\n\ngo 1.12\n\nrequire github.com/flowmatters/openwater-core v0.0.0\n'
                'require gonum.org/v1/hdf5 v0.0.0-20210714002203-8c5d23bc6946\n\n'
                'replace github.com/flowmatters/openwater-core => %s\nreplace gonum.org/v1/hdf5 => /verif/harness/fakehdf5\n' % wt)
            shutil.copy(os.path.join(wt, 'go.sum'), os.path.join(harness, 'go.sum'))
            democmd = os.environ.get('SEED_DEMO_CMD', 'go run ./demo%s' % k)
        rc, out = sh('git apply %s' % patch, cwd=wt)
        meta['patch_applies'] = rc == 0
        assert rc == 0, out
        rcb, outb = sh(BUILD, cwd=wt)
        meta['builds'] = rcb == 0
        rct, outt = sh(TESTS, cwd=wt)
        meta['baseline_tests_pass'] = rct == 0 and 'FAIL' not in outt
        meta['baseline_tests_tail'] = outt[-400:]
        place()
        rc1, out1 = sh(democmd, cwd=harness or wt)
        meta['demo_with_change'] = {'cmd': democmd, 'exit': rc1, 'tail': out1[-600:]}
        rc, out = sh('git apply -R %s' % patch, cwd=wt)
        assert rc == 0, out
        rc0, out0 = sh(democmd, cwd=harness or wt)
        meta['demo_without_change'] = {'cmd': democmd, 'exit': rc0, 'tail': out0[-600:]}
        meta['confirmed'] = bool(meta['builds'] and meta['baseline_tests_pass'] and rc0 == 0 and rc1 != 0)
    finally:
        sh('git -C /repo worktree remove --force %s' % wt)
        shutil.rmtree(wt + '.harness', ignore_errors=True)
    # run the checks against /repo with the change applied, then undo
    results = {}
    rc, out = sh('git -C /repo apply %s' % patch)
    assert rc == 0, out
    try:
        for p in [pid] + also:
            t = time.time()
            rc, out = sh('python3 tools/%s.py --tier quick' % p.lower(), cwd='/verif', timeout=3600)
            lines = [l for l in out.split('\n') if l.startswith('VIOLATION') or l.startswith('OK ') or l.startswith('KNOWN-FINDING')]
            results[p] = {'exit': rc, 'lines': lines[-4:], 'wall_s': round(time.time() - t, 1)}
            rp = [l for l in lines if l.startswith('VIOLATION')]
            if rp and 'replay=' in rp[0]:
                path = rp[0].split('replay=')[1].split()[0]
                try:
                    results[p]['replay_excerpt'] = open(path).read()[:1500]
                except OSError:
                    pass
    finally:
        sh('git -C /repo checkout -- . && git -C /repo clean -fdq -e io/verif_export.go -e cmd/ow-sim/verif_trace_on.go -e cmd/ow-sim/verif_trace_off.go')
    # back on the unchanged tree: the checks must pass again (this also refreshes regenerated coq/Gen files)
    for p in [pid] + also:
        rc, out = sh('python3 tools/%s.py --tier quick' % p.lower(), cwd='/verif', timeout=3600)
        results[p]['exit_after_undo'] = rc
    meta['checks'] = results
    meta['detected_by'] = [p for p, r in results.items() if r['exit'] != 0]
    dst = os.path.join('/verif/seeded', name)
    os.makedirs(dst, exist_ok=True)
    shutil.copy(patch, os.path.join(dst, 'patch.diff'))
    if os.path.exists(os.path.join(dst, 'demo')):
        shutil.rmtree(os.path.join(dst, 'demo'))
    shutil.copytree(demo, os.path.join(dst, 'demo'))
    rd = os.path.join(sdir, 'README%s.md' % k)
    if os.path.exists(rd):
        shutil.copy(rd, os.path.join(dst, 'README.md'))
        meta['needs_to_manifest'] = open(rd).read()[:1500]
    json.dump(meta, open(os.path.join(dst, 'meta.json'), 'w'), indent=1)
    print(json.dumps({'name': name, 'confirmed': meta['confirmed'], 'detected_by': meta['detected_by'],
                      'checks': {p: r['lines'] for p, r in results.items()}}, indent=1))


if __name__ == '__main__':
    main()
