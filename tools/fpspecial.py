"""C02 on IEEE special values: the whole-array helpers (Scale / AddTo / ApplyFunc1), CopyFrom and Maximum / Minimum on
float64 / float32 arrays holding NaN, infinities, signed zeros, subnormals and extreme finite values, over every
combination of back-end and view layout (contiguous root, column-gapped, column-stepped, row-stepped).

The theorem side is generic: C02_arrayops_elementwise holds for ANY element type V and ANY function f, and
C02_extremum_is_row_major_fold for any comparison; this stream instantiates them with IEEE arithmetic, which the
integer-valued histories cannot reach.  Oracle = the element-by-element definition evaluated here (binary64 natively,
binary32 by rounding the exact binary64 result once, which is innocuous for + and x).  NaNs are compared as NaNs (payload
and sign not compared), everything else bit for bit; cells of the roots outside the views must keep their fill value."""
import math, os, struct
from vlib import HARNESS, GOENV, run_lines

FILL = 99.0


def f2b64(x): return struct.unpack('<Q', struct.pack('<d', x))[0]
def b2f64(b): return struct.unpack('<d', struct.pack('<Q', b))[0]
def f2b32(x): return struct.unpack('<I', struct.pack('<f', x))[0]
def b2f32(b): return struct.unpack('<f', struct.pack('<I', b))[0]


def rnd32(x):
    """round a binary64 value to binary32 (overflow -> inf, as the hardware does)"""
    try:
        return struct.unpack('<f', struct.pack('<f', x))[0]
    except OverflowError:
        return math.copysign(math.inf, x)


SPECIALS64 = [float('nan'), math.inf, -math.inf, 0.0, -0.0, 1.5, -2.25, 1.7976931348623157e308, -1.7976931348623157e308,
              5e-324, -5e-324, 2.2250738585072014e-308, 1e-320, 3.0, -7.0, 1e300]
SPECIALS32 = [float('nan'), math.inf, -math.inf, 0.0, -0.0, 1.5, -2.25, 3.4028234663852886e38, -3.4028234663852886e38,
              1.401298464324817e-45, -1.401298464324817e-45, 1.1754943508222875e-38, 1e-40, 3.0, -7.0, 1e30]
FACTORS = [0.0, -0.0, 1.0, -1.0, 2.5, float('nan'), math.inf, -math.inf, 0.5, 1e-300, 1e300]
LAYOUTS = ['full', 'gap', 'step', 'rows']


def layout(name, r, c):
    """-> root dims, list of flat root offsets of the view's elements in row-major order"""
    if name == 'full':
        return (r, c), [i * c + j for i in range(r) for j in range(c)]
    if name == 'gap':
        return (r, c + 2), [i * (c + 2) + 1 + j for i in range(r) for j in range(c)]
    if name == 'step':
        return (r, 2 * c), [i * 2 * c + 2 * j for i in range(r) for j in range(c)]
    if name == 'rows':
        return (2 * r, c), [2 * i * c + j for i in range(r) for j in range(c)]
    raise ValueError(name)


def same(a, b):
    if a != a or b != b:
        return a != a and b != b
    return a == b and math.copysign(1.0, a) == math.copysign(1.0, b)


def fp_specials(c):
    rng = c.rng
    quick = c.tier == 'quick'
    cases = []
    ops = ['SCALE', 'SCALE', 'SCALE', 'ADDTO', 'APPLYFUNC', 'COPYFROM', 'MAX', 'MIN']
    n = 400 if quick else 6000
    # every factor x every special at least once (float64 and float32), on a 1 x len(specials) contiguous row and a gapped one
    for ty, specials in (('float64', SPECIALS64), ('float32', SPECIALS32)):
        for k in FACTORS:
            for dl in ('full', 'gap'):
                cases.append((ty, 'g', 'g', dl, 'full', 'SCALE', k, 1, len(specials), [1.0] * len(specials), list(specials)))
    # every operation x every back-end pair on degenerate value sets, with every (destination, source) pair of the set present
    for sub in ([0.0, -0.0], [0.0, -0.0, float('nan')], [float('nan'), math.inf]):
        m = len(sub)
        dvs = [sub[i % m] for i in range(m * m)]
        svs = [sub[(i // m) % m] for i in range(m * m)]
        for op in ('SCALE', 'ADDTO', 'APPLYFUNC', 'COPYFROM', 'MAX', 'MIN'):
            for db in 'gc':
                for sb in 'gc':
                    for (dl, sl) in (('full', 'full'), ('gap', 'step')):
                        cases.append((rng.choice(['float64', 'float32']), db, sb, dl, sl, op, rng.choice([1.0, -1.0, 0.0, -0.0]), 1, m * m, list(dvs), list(svs)))
    for _ in range(n):
        ty = rng.choice(['float64', 'float32'])
        specials = SPECIALS64 if ty == 'float64' else SPECIALS32
        r, cc = rng.randint(1, 3), rng.randint(1, 4)
        draw = lambda: [rng.choice(specials) if rng.random() < 0.7 else float(rng.randint(-9, 9)) for _ in range(r * cc)]
        if rng.random() < 0.3:
            # DEGENERATE VALUE SETS: destination and source hold nothing but one to three special values (only zeros of both
            # signs; zeros and NaN; only NaN; only infinities ...) - a decision taken from a summary of the data (its largest
            # magnitude, "does it differ from what is there already", its sum) goes wrong exactly when no ordinary value is present
            sub = rng.choice([[0.0, -0.0], [0.0, -0.0, float('nan')], [float('nan')], [0.0, float('nan')], [-0.0], [0.0],
                              [math.inf, -math.inf], [math.inf, float('nan'), -0.0], [specials[7], specials[8]], [specials[9], -0.0, 0.0]])
            draw = lambda: [rng.choice(sub) for _ in range(r * cc)]
        cases.append((ty, rng.choice('gc'), rng.choice('gc'), rng.choice(LAYOUTS), rng.choice(LAYOUTS), rng.choice(ops),
                      rng.choice(FACTORS), r, cc, draw(), draw()))
    lines = []
    for (ty, db, sb, dl, sl, op, k, r, cc, dv, sv) in cases:
        if ty == 'float64':
            hx = lambda x: '%x' % f2b64(x)
        else:
            hx = lambda x: '%x' % f2b32(rnd32(x))
        lines.append('FPS %s %s %s %s %s %s %s %d %d %s %s' % (ty, db, sb, dl, sl, op, hx(k), r, cc,
                                                                ' '.join(hx(x) for x in dv), ' '.join(hx(x) for x in sv)))
    got = run_lines(os.path.join(HARNESS, 'bin', 'arrops'), lines, env=GOENV)
    hist = {}
    nan_cases = 0
    for i, (cs, line, g) in enumerate(zip(cases, lines, got)):
        (ty, db, sb, dl, sl, op, k, r, cc, dv, sv) = cs
        f32 = ty == 'float32'
        rd = (lambda x: rnd32(x)) if f32 else (lambda x: x)
        dv = [rd(x) for x in dv]; sv = [rd(x) for x in sv]; k = rd(k)
        hist[op] = hist.get(op, 0) + 1
        special = any(x != x or x in (math.inf, -math.inf) or x == 0.0 for x in sv + dv)
        nan_cases += special
        c.count(line, nontrivial=special)
        (drd, doffs), (srd, soffs) = layout(dl, r, cc), layout(sl, r, cc)
        exp_d = [FILL] * (drd[0] * drd[1]); exp_s = [FILL] * (srd[0] * srd[1])
        for o, x in zip(doffs, dv): exp_d[o] = x
        for o, x in zip(soffs, sv): exp_s[o] = x
        exp_res = None
        if op == 'SCALE':
            new = [rd(s * k) for s in sv]
        elif op == 'ADDTO':
            new = [rd(d + s) for d, s in zip(dv, sv)]
        elif op == 'APPLYFUNC':
            new = [rd(rd(s * 2) + 1) for s in sv]
        elif op == 'COPYFROM':
            new = list(sv)
        else:
            new = dv
            res = sv[0]
            for v in sv:                       # the row-major left fold of the library's comparison (C02_extremum_is_row_major_fold)
                if (op == 'MAX' and v > res) or (op == 'MIN' and v < res):
                    res = v
            exp_res = res
        for o, x in zip(doffs, new): exp_d[o] = x
        bad = None
        if not g.startswith('dst='):
            bad = 'implementation answered %s' % g[:120]
        else:
            parts = dict(p.split('=', 1) for p in g.split())
            conv = (lambda h: b2f32(int(h, 16))) if f32 else (lambda h: b2f64(int(h, 16)))
            gd = [conv(h) for h in parts['dst'].split(',')]
            gs = [conv(h) for h in parts['src'].split(',')]
            for name, ge, ex in (('destination root', gd, exp_d), ('source root', gs, exp_s)):
                if len(ge) != len(ex):
                    bad = '%s has %d cells, expected %d' % (name, len(ge), len(ex)); break
                for o, (a, b) in enumerate(zip(ge, ex)):
                    if not same(a, b):
                        bad = '%s cell %d: implementation %r, element-by-element definition %r' % (name, o, a, b); break
                if bad:
                    break
            if not bad and exp_res is not None and not same(conv(parts['res']), exp_res):
                bad = '%s: implementation %r, row-major fold %r' % (op, conv(parts['res']), exp_res)
        if bad:
            c.violation('fpspecial_%d.json' % i, {'kind': 'ieee-special-values-oracle', 'element_type': ty, 'op': op, 'factor': repr(k),
                                                 'dst_backend': db, 'src_backend': sb, 'dst_layout': dl, 'src_layout': sl, 'shape': [r, cc],
                                                 'dst_values': [repr(x) for x in dv], 'src_values': [repr(x) for x in sv],
                                                 'difference': bad, 'case_line': line,
                                                 'replay': "echo '%s' | /verif/harness/bin/arrops" % line})
            if len(c.violations) > 5:
                break
    return {'ieee_special_value_cases': len(cases), 'ieee_special_value_ops': hist, 'ieee_cases_with_nan_inf_or_zero': nan_cases}
