"""C07: build the real ow-sim (cmd/ow-sim of /repo's working tree) with the
verifTrace hooks.  If the hooks have been committed into /repo they are used as
they are; otherwise they are supplied through `go build -overlay` from
/verif/hooks/cmd/ow-sim (new files + one-line calls inserted into the CURRENT
main.go by anchor text), so /repo is never modified."""
import json, os, subprocess, sys
sys.path.insert(0, os.path.dirname(os.path.abspath(__file__)))
from vlib import VERIF, HARNESS, REPO, GOENV, OUT, BuildError, sh, _Lock

HOOKS = os.path.join(VERIF, 'hooks', 'cmd', 'ow-sim')
# (anchor text, 'after'|'before', inserted line)
INSERTS = [
    ('genSimulationTime, nodesInGeneration := runGeneration(', 'after', '\t\tverifTrace("ran", i)'),
    ('go func(g int) {', 'before', '\t\t\tverifTrace("spawn", i)'),
    ('go func(g int) {', 'after', '\t\t\t\tverifTrace("start", g)'),
    ('prevG = <-writingDone', 'after', '\t\t\t\t\t\tverifTrace(fmt.Sprintf("recv:%d", g), prevG)'),
    ('if prevG == (g - 1) {', 'before', '\t\t\t\t\t\tverifTrace(fmt.Sprintf("purged:%d", g), prevG)'),
    ('writingDone <- prevG', 'after', '\t\t\t\t\t\tverifTrace(fmt.Sprintf("putback:%d", g), prevG)'),
    ('writeGeneration(g, models, modelNames)', 'after', '\t\t\t\tverifTrace("written", g)'),
    ('writingDone <- g', 'after', '\t\t\t\tverifTrace("sent", g)'),
    ('nextLink++', 'after', '\t\t\tverifTrace("link", i)'),
    ('genLinkEnd := time.Now()', 'before', '\t\tverifTrace("linked", i)'),
    ('genFinished := <-writingDone', 'after', '\t\t\tverifTrace("main-recv", genFinished)'),
    ('writingDone <- genFinished', 'after', '\t\t\tverifTrace("main-putback", genFinished)'),
    ('simEnd := time.Now()', 'before', '\tverifTrace("exit", genCount)'),
]


def _event(text):
    import re
    m = re.search(r'verifTrace\((?:fmt\.Sprintf\()?"([a-z\-]+)', text)
    return m.group(1) if m else None


def package_events(priv=None):
    """names of the trace events already called somewhere in /repo's cmd/ow-sim package (any file, any argument
    names): a refactoring that moves the calls to another file or renames the variables they pass keeps them"""
    import glob
    ev = set()
    d = os.path.join(REPO, 'cmd', 'ow-sim')
    for f in glob.glob(os.path.join(d, '*.go')):
        if os.path.basename(f).startswith('verif_trace_'):
            continue
        src = open((priv or {}).get(f, f)).read()
        for l in src.split('\n'):
            e = _event(l)
            if e:
                ev.add(e)
    return ev


def patched_main(src, present=()):
    """Insert the one-line hook calls into main.go's text; returns (text, missing anchors)."""
    lines = src.split('\n')
    missing = []
    for anchor, where, text in INSERTS:
        if any(l.strip() == text.strip() for l in lines) or _event(text) in present:
            continue                      # this call is already in /repo's cmd/ow-sim package
        idx = [i for i, l in enumerate(lines) if anchor in l and 'verifTrace' not in l]
        # 'writingDone <- g' must not match 'writingDone <- genFinished'
        if anchor == 'writingDone <- g':
            idx = [i for i in idx if lines[i].strip() == 'writingDone <- g']
        if not idx:
            missing.append(anchor)
            continue
        i = idx[0]
        lines.insert(i + 1 if where == 'after' else i, text)
    return '\n'.join(lines), missing


def hooks_in_repo():
    return os.path.exists(os.path.join(REPO, 'cmd', 'ow-sim', 'verif_trace_on.go'))


def private_sources():
    """$C07_SRC_OVERLAY=<dir>: a directory laid out like /repo whose files REPLACE the files of /repo in this
    build only (go build -overlay), e.g. <dir>/cmd/ow-sim/main.go.  Used to try a change of cmd/ow-sim without
    touching /repo; the binary then gets a private name."""
    d = os.environ.get('C07_SRC_OVERLAY')
    res = {}
    if d:
        d = os.path.abspath(d)
        for root, _, files in os.walk(d):
            for f in files:
                if f.endswith('.go'):
                    full = os.path.join(root, f)
                    res[os.path.join(REPO, os.path.relpath(full, d))] = full
    return res


def build_owsim(race=False, plain=False):
    """-> (path of the binary, note).  Raises BuildError."""
    os.makedirs(os.path.join(OUT, 'C07'), exist_ok=True)
    priv = private_sources()
    # plain: built WITHOUT the verif tag, i.e. verifTrace is the empty stub - the program as shipped (no trace, and no
    # serialisation of the goroutines on the trace mutex)
    out = os.path.join(HARNESS, 'bin', ('ow-sim-plain' if plain else 'ow-sim-verif') +
                       ('-private%d' % os.getpid() if priv else '') + ('-race' if race else ''))
    cmd = ['go', 'build'] + ([] if plain else ['-tags', 'verif']) + (['-race'] if race else [])
    note = 'hooks from /repo'
    main_path = os.path.join(REPO, 'cmd', 'ow-sim', 'main.go')
    src = open(priv.get(main_path, main_path)).read()
    text, missing = patched_main(src, package_events(priv) if hooks_in_repo() else ())
    ov = dict(priv)
    if text != src:
        pm = os.path.join(OUT, 'C07', 'main_patched%s%s.go' % ('-race' if race else '', '-plain' if plain else ''))
        with open(pm, 'w') as f:
            f.write(text)
        ov[os.path.join(REPO, 'cmd', 'ow-sim', 'main.go')] = pm
        note = 'hook files from /repo; %d trace call(s) not yet in /repo\'s main.go supplied by -overlay' % \
            (len(text.split('\n')) - len(src.split('\n')))
    if not hooks_in_repo():
        ov[os.path.join(REPO, 'cmd', 'ow-sim', 'verif_trace_on.go')] = os.path.join(HOOKS, 'verif_trace_on.go')
        ov[os.path.join(REPO, 'cmd', 'ow-sim', 'verif_trace_off.go')] = os.path.join(HOOKS, 'verif_trace_off.go')
        note = 'hooks supplied by -overlay from /verif/hooks (not yet in /repo)'
    if priv:
        note += '; PRIVATE sources from %s: %s' % (os.environ.get('C07_SRC_OVERLAY'), sorted(os.path.relpath(k, REPO) for k in priv))
    if ov:
        ovp = os.path.join(OUT, 'C07', 'overlay%s%s.json' % ('-race' if race else '', '-plain' if plain else ''))
        with open(ovp, 'w') as f:
            json.dump({'Replace': ov}, f)
        cmd += ['-overlay', ovp]
    cmd += ['-o', out, 'github.com/flowmatters/openwater-core/cmd/ow-sim']
    with _Lock():
        sh('cp /repo/go.sum %s/go.sum' % HARNESS)
        sh(cmd, cwd=HARNESS, env=GOENV, timeout=1800)
    return out, note, missing


if __name__ == '__main__':
    print(build_owsim(race='--race' in sys.argv))
