"""C07: build the real ow-sim (cmd/ow-sim of /repo's working tree) with the
verifTrace hooks.  If the hooks have been committed into /repo they are used as
they are; otherwise they are supplied through `go build -overlay` from
/verif/hooks/cmd/ow-sim (new files + one-line calls inserted into the CURRENT
main.go by anchor text), so /repo is never modified."""
import json, os, subprocess, sys
sys.path.insert(0, os.path.dirname(os.path.abspath(__file__)))
from vlib import VERIF, HARNESS, REPO, GOENV, OUT, BuildError, sh, _Lock

HOOKS = os.path.join(VERIF, 'hooks', 'cmd', 'ow-sim')
# (anchor text, 'after'|'before', inserted line)
INSERTS = [
    ('genSimulationTime, nodesInGeneration := runGeneration(', 'after', '\t\tverifTrace("ran", i)'),
    ('go func(g int) {', 'before', '\t\t\tverifTrace("spawn", i)'),
    ('go func(g int) {', 'after', '\t\t\t\tverifTrace("start", g)'),
    ('prevG = <-writingDone', 'after', '\t\t\t\t\t\tverifTrace(fmt.Sprintf("recv:%d", g), prevG)'),
    ('if prevG == (g - 1) {', 'before', '\t\t\t\t\t\tverifTrace(fmt.Sprintf("purged:%d", g), prevG)'),
    ('writingDone <- prevG', 'after', '\t\t\t\t\t\tverifTrace(fmt.Sprintf("putback:%d", g), prevG)'),
    ('writeGeneration(g, models, modelNames)', 'after', '\t\t\t\tverifTrace("written", g)'),
    ('writingDone <- g', 'after', '\t\t\t\tverifTrace("sent", g)'),
    ('nextLink++', 'after', '\t\t\tverifTrace("link", i)'),
    ('genLinkEnd := time.Now()', 'before', '\t\tverifTrace("linked", i)'),
    ('genFinished := <-writingDone', 'after', '\t\t\tverifTrace("main-recv", genFinished)'),
    ('writingDone <- genFinished', 'after', '\t\t\tverifTrace("main-putback", genFinished)'),
    ('simEnd := time.Now()', 'before', '\tverifTrace("exit", genCount)'),
]


def patched_main(src):
    """Insert the one-line hook calls into main.go's text; returns (text, missing anchors)."""
    lines = src.split('\n')
    missing = []
    for anchor, where, text in INSERTS:
        if any(l.strip() == text.strip() for l in lines):
            continue                      # this call is already in /repo's main.go
        idx = [i for i, l in enumerate(lines) if anchor in l and 'verifTrace' not in l]
        # 'writingDone <- g' must not match 'writingDone <- genFinished'
        if anchor == 'writingDone <- g':
            idx = [i for i in idx if lines[i].strip() == 'writingDone <- g']
        if not idx:
            missing.append(anchor)
            continue
        i = idx[0]
        lines.insert(i + 1 if where == 'after' else i, text)
    return '\n'.join(lines), missing


def hooks_in_repo():
    return os.path.exists(os.path.join(REPO, 'cmd', 'ow-sim', 'verif_trace_on.go'))


def build_owsim(race=False):
    """-> (path of the binary, note).  Raises BuildError."""
    os.makedirs(os.path.join(OUT, 'C07'), exist_ok=True)
    out = os.path.join(HARNESS, 'bin', 'ow-sim-verif' + ('-race' if race else ''))
    cmd = ['go', 'build', '-tags', 'verif'] + (['-race'] if race else [])
    note = 'hooks from /repo'
    src = open(os.path.join(REPO, 'cmd', 'ow-sim', 'main.go')).read()
    text, missing = patched_main(src)
    ov = {}
    if text != src:
        pm = os.path.join(OUT, 'C07', 'main_patched.go')
        with open(pm, 'w') as f:
            f.write(text)
        ov[os.path.join(REPO, 'cmd', 'ow-sim', 'main.go')] = pm
        note = 'hook files from /repo; %d trace call(s) not yet in /repo\'s main.go supplied by -overlay' % \
            (len(text.split('\n')) - len(src.split('\n')))
    if not hooks_in_repo():
        ov[os.path.join(REPO, 'cmd', 'ow-sim', 'verif_trace_on.go')] = os.path.join(HOOKS, 'verif_trace_on.go')
        ov[os.path.join(REPO, 'cmd', 'ow-sim', 'verif_trace_off.go')] = os.path.join(HOOKS, 'verif_trace_off.go')
        note = 'hooks supplied by -overlay from /verif/hooks (not yet in /repo)'
    if ov:
        ovp = os.path.join(OUT, 'C07', 'overlay.json')
        with open(ovp, 'w') as f:
            json.dump({'Replace': ov}, f)
        cmd += ['-overlay', ovp]
    cmd += ['-o', out, 'github.com/flowmatters/openwater-core/cmd/ow-sim']
    with _Lock():
        sh('cp /repo/go.sum %s/go.sum' % HARNESS)
        sh(cmd, cwd=HARNESS, env=GOENV, timeout=1800)
    return out, note, missing


if __name__ == '__main__':
    print(build_owsim(race='--race' in sys.argv))
