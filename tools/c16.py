#!/usr/bin/env python3
"""C16 check: partition / conversion / generation identities.

1. regenerate coq/Gen/Units.v from /repo/conv/units, /repo/conv/rough (harness/cmd/unitsgen),
2. theorems in coq/Properties/C16.v (incl. the unit-factor lemmas against the regenerated constants),
3. correspondence of the 21 kernels in coq/Kernels with the Go models through sim.Catalog (owrun K-lines),
   bit-exact except where pow/cos are used (rtol 1e-9),
4. the property's oracle evaluated on the IMPLEMENTATION's outputs.
"""
import sys, os, math, re, subprocess
sys.path.insert(0, os.path.dirname(os.path.abspath(__file__)))
from vlib import *

INF = float('inf')
NAN = float('nan')
OWRUN = os.path.join(HARNESS, 'bin', 'owrun-c16')
COINCIDE_FRACTION = 0.3     # share of the cases of every model whose input series get plateaus / coincidences
RESULT_RE = re.compile(r'^(OK |PANIC|NOMODEL|NOCMD|ERROR)')


def run_filtered(binary, lines, crash_token, env=None, timeout=900):
    """vlib.run_lines, but ignoring stdout lines that are not result lines (ratingPartition
    prints diagnostics to stdout before its NaN panic)."""
    results = []
    i = 0
    n = len(lines)
    while i < n:
        chunk = lines[i:]
        p = subprocess.run([binary], input='\n'.join(chunk) + '\n', stdout=subprocess.PIPE,
                           stderr=subprocess.PIPE, text=True, timeout=timeout, env=env)
        got = [l for l in p.stdout.split('\n') if RESULT_RE.match(l)]
        if len(got) >= len(chunk):
            results.extend(got[:len(chunk)])
            break
        results.extend(got)
        msg = ''
        for l in p.stderr.strip().split('\n'):
            if l.startswith('panic:') or l.startswith('fatal error:') or 'SIGSEGV' in l:
                msg = l.strip()
                break
        results.append(crash_token + ' ' + msg[:160])
        i += len(got) + 1
    return results


# ------------------------------------------------------------------ value generators
def nice(rng):
    return rng.choice([0.0, 1.0, 0.5, 0.25, 2.0, 10.0, 100.0, 0.1, 0.3, 1e-3, 1e3, 86400.0, 1e-9, 1e6, 7.0, 3.5])


def flow_series(rng, n):
    """non-negative flows in five regimes, with exact zeros"""
    reg = rng.choice(['dry', 'wet', 'intermittent', 'pulse', 'storm', 'tiny', 'plateau'])
    if reg == 'dry':
        return [0.0] * n
    if reg == 'plateau':
        # piecewise constant (regulated releases, disaggregated monthly data): runs of 1..6 bit-identical values,
        # with zero runs in between
        out = []
        while len(out) < n:
            v = rng.choice([0.0, rng.uniform(0.01, 50.0), rng.uniform(0.01, 50.0), nice(rng)])
            out += [v] * rng.randint(1, 6)
        return out[:n]
    if reg == 'wet':
        return [rng.uniform(0.01, 50.0) for _ in range(n)]
    if reg == 'intermittent':
        return [rng.choice([0.0, 0.0, rng.uniform(0, 20.0), nice(rng)]) for _ in range(n)]
    if reg == 'pulse':
        k = rng.randrange(n) if n else 0
        return [rng.uniform(1, 500.0) if i == k else 0.0 for i in range(n)]
    if reg == 'tiny':
        return [rng.choice([0.0, 1e-8, 1e-9, 2e-8, 1.0000001e-8, 5e-324, 1e-300]) for _ in range(n)]
    return [rng.expovariate(1 / 2000.0) for _ in range(n)]


def gen_flow(rng, n):
    """flows for the generation models: mostly wet, still with exact zeros"""
    if rng.random() < 0.6:
        return [rng.choice([0.0, rng.uniform(0.01, 50.0), rng.uniform(0.01, 50.0), rng.uniform(0.01, 5.0), rng.expovariate(1 / 200.0)])
                for _ in range(n)]
    return flow_series(rng, n)


def normal_only(xs):
    """Go's math.Log (amd64 assembly) is wrong for subnormal arguments (Log(4.27e-319) = -709.09, true value
    -733.07), so math.Pow of a subnormal flow is off by orders of magnitude; the pow-based models are not
    driven with subnormal flows (physically meaningless: < 2.3e-308 m3/s)"""
    return [0.0 if 0.0 < abs(x) < 2.3e-308 else x for x in xs]


def any_series(rng, n):
    """flows with negatives mixed in"""
    s = flow_series(rng, n)
    return [(-x if rng.random() < 0.3 else x) for x in s]


def frac_series(rng, n):
    if rng.random() < 0.2:
        out = []
        while len(out) < n:
            out += [rng.choice([0.0, 1.0, 0.5, rng.random()])] * rng.randint(1, 6)
        return out[:n]
    return [rng.choice([0.0, 1.0, 0.5, rng.random(), rng.random(), rng.uniform(-0.5, 1.5)]) for _ in range(n)]


# ---- plateaus and coincidences between the input series of one case (applied to a fraction of all cases of
# every model, after the model's own generator): the kernels are pointwise in time, so an implementation that
# carries anything from one step to the next (memo on one input, stale local, skipped write) is exposed only when
# one input repeats bit-identically while another one moves.
def model_thresholds(name, p, meta):
    """input index -> values at which the spec / the code switches behaviour"""
    if name == 'PassLoadIfFlow':
        return {0: [1e-8, math.nextafter(1e-8, INF), math.nextafter(1e-8, 0.0), 0.0]}
    if name == 'Gate':
        return {0: [0.0, -0.0, 5e-324]}
    if name == 'ComputeProportion':
        return {1: [0.0, -0.0]}
    if name == 'PartitionDemand':
        return {0: [0.0], 1: [0.0]}
    if name == 'USLEFineSedimentGeneration':
        return {0: [0.0], 2: [p[2], math.nextafter(p[2], INF), 0.0], 3: [0.0], 4: [0.0]}
    if name.startswith('DynamicSednetGully'):
        return {0: [0.0], 1: [p[0], p[1], p[0] - 1, p[1] + 1], 2: [0.0], 3: [0.0]}
    if name == 'BankErosion':
        return {0: [0.0], 1: [0.0, -0.0, 5e-324]}
    if name == 'RatingCurvePartition':
        return {0: list(meta['xs'])} if meta.get('wellformed') else {}
    return None       # default: 0.0 on every input


def coincide(rng, name, p, ins, meta):
    """-> (new inputs, list of class labels).  Classes:
       plateau          one input repeats one value bit-identically over 2..6 consecutive steps
       plateau+toggle   ... while every other input switches between 0 and a positive value on those steps
       equal-inputs     two inputs are bit-equal on some steps
       threshold        an input sits exactly on (or one ulp beside) a threshold of the model
       zero-run         a run of 1..6 exact zeros in one input, independently of the others"""
    k_in = len(ins)
    n = len(ins[0]) if k_in else 0
    if n < 2:
        return ins, []
    ins = [list(r) for r in ins]
    rating = name == 'RatingCurvePartition'
    kinds = ['plateau', 'plateau', 'threshold', 'zero-run']
    if k_in >= 2:
        kinds += ['plateau+toggle', 'plateau+toggle', 'plateau+toggle', 'equal-inputs']
    if rating:
        kinds = ['plateau', 'threshold']
    labels = []
    for kind in rng.sample(kinds, rng.choice([1, 1, 2, 3]) if len(kinds) >= 3 else 1):
        for _rep in range(rng.choice([1, 1, 2, 3]) if n >= 7 else 1):
            k = rng.randrange(k_in)
            ln = rng.randint(2, min(6, n))
            a = rng.randint(0, n - ln)
            if kind.startswith('plateau'):
                v = ins[k][a]
                if not rating and (v == 0.0 or rng.random() < 0.3):
                    v = rng.choice([abs(v), rng.uniform(0.5, 50.0), nice(rng)]) if rng.random() < 0.85 else 0.0
                for t in range(a, a + ln):
                    ins[k][t] = v
                if kind == 'plateau+toggle':
                    for j in range(k_in):
                        if j == k:
                            continue
                        phase = rng.randrange(2)
                        for t in range(a, a + ln):
                            cur = ins[j][t]
                            pos = abs(cur) if (cur != 0.0 and abs(cur) >= 2.3e-308) else rng.uniform(0.5, 50.0)
                            ins[j][t] = pos if (t + phase) % 2 == 0 else rng.choice([0.0, 0.0, 0.0, -pos])
            elif kind == 'equal-inputs':
                j = rng.choice([x for x in range(k_in) if x != k])
                for t in range(a, a + ln):
                    ins[j][t] = ins[k][t]
            elif kind == 'threshold':
                th = model_thresholds(name, p, meta)
                if th is None:
                    th = {x: [0.0] for x in range(k_in)}
                if not th:
                    continue
                k = rng.choice(sorted(th))
                for t in range(a, a + ln):
                    if rng.random() < 0.7:
                        ins[k][t] = rng.choice(th[k])
            else:
                for t in range(a, a + rng.randint(1, ln)):
                    ins[k][t] = 0.0
        labels.append(kind)
    if rating and meta.get('wellformed'):
        xs = meta['xs']
        meta['inside'] = all(xs[0] <= v <= xs[-1] for v in ins[0])
    if name in ('BankErosion', 'USLEFineSedimentGeneration', 'DynamicSednetGully'):
        ins[0] = normal_only(ins[0])
    if name == 'USLEFineSedimentGeneration':
        # rain is the base of a power as well; "the next float above RainThreshold" is the subnormal 5e-324 when the
        # threshold is 0 (see normal_only: Go's math.Log is wrong for subnormal arguments)
        ins[2] = normal_only(ins[2])
    return ins, labels


def series_len(rng):
    return rng.choice([0, 1, 2, 7, 7, 40, 40, 400])


def pos_param(rng, lo=0.0, hi=100.0):
    r = rng.random()
    if r < 0.72:
        return rng.uniform(lo, hi)
    if r < 0.84:
        return nice(rng)
    return lo if r < 0.91 else hi


def any_param(rng):
    return rng.choice([0.0, 1.0, -1.0, rng.uniform(-10, 10), rng.uniform(0, 1), nice(rng), -nice(rng), rng.uniform(0, 1e4)])


def tiny_nonzero(rng):
    """parameters that are legal, non-zero, but close to the exact `== 0.0` tests of the early-return paths
    (unit conversions between far-apart units: mg -> t is 1e-9)"""
    return rng.choice([1e-9, 1e-12, 3.7e-12, -1e-10, 9.999e-9, 1e-8, 1e-300, 5e-324, -5e-324])


def special(rng, xs):
    """corrupt a few entries with NaN / +Inf (correspondence-only stream)"""
    xs = list(xs)
    for _ in range(min(len(xs), rng.choice([1, 1, 2]))):
        xs[rng.randrange(len(xs))] = rng.choice([NAN, INF])
    return xs


# ------------------------------------------------------------------ oracle helpers
def close(a, b, scale=None, tol=1e-12):
    if a == b:
        return True
    if not (math.isfinite(a) and math.isfinite(b)):
        return False
    s = max(abs(a), abs(b)) if scale is None else scale
    return abs(a - b) <= tol * s + 1e-290      # absolute floor: subnormal inputs lose relative precision


def finite_case(params, inputs, outs):
    return all(math.isfinite(v) for v in params) and all(math.isfinite(v) for r in inputs for v in r) and \
        all(math.isfinite(v) for r in outs for v in r)


class Fail(Exception):
    def __init__(self, clause, t, detail):
        super().__init__(clause)
        self.clause, self.t, self.detail = clause, t, detail


def need(cond, clause, t, **detail):
    if not cond:
        raise Fail(clause, t, detail)


# ------------------------------------------------------------------ the models
# each entry: gen(rng) -> (params, inputs, meta); oracle(params, inputs, outs, meta) raises Fail
MODELS = {}


def model(name, exact=True):
    def deco(cls):
        cls.name = name
        cls.exact = exact
        MODELS[name] = cls
        return cls
    return deco


@model('FixedPartition')
class FixedPartition:
    @staticmethod
    def gen(rng):
        n = series_len(rng)
        fr = rng.choice([0.0, 1.0, 0.5, rng.random(), rng.random(), rng.uniform(-2, 3), 1e6])
        return [fr], [rng.choice([flow_series, any_series])(rng, n)], {}

    @staticmethod
    def oracle(p, ins, o, meta):
        for t, x in enumerate(ins[0]):
            need(close(o[0][t] + o[1][t], x, max(abs(o[0][t]), abs(o[1][t]), abs(x))), 'partition-sum', t,
                 input=x, output1=o[0][t], output2=o[1][t])
            need(close(o[0][t], x * p[0]), 'output1=input*fraction', t, input=x, got=o[0][t])


@model('VariablePartition')
class VariablePartition:
    @staticmethod
    def gen(rng):
        n = series_len(rng)
        return [], [rng.choice([flow_series, any_series])(rng, n), frac_series(rng, n)], {}

    @staticmethod
    def oracle(p, ins, o, meta):
        for t, x in enumerate(ins[0]):
            need(close(o[0][t] + o[1][t], x, max(abs(o[0][t]), abs(o[1][t]), abs(x))), 'partition-sum', t,
                 input=x, fraction=ins[1][t], output1=o[0][t], output2=o[1][t])
            need(close(o[0][t], x * ins[1][t]), 'output1=input*fraction', t, input=x, got=o[0][t])


@model('RatingCurvePartition')
class RatingCurvePartition:
    @staticmethod
    def gen(rng):
        n = series_len(rng)
        k = rng.choice([2, 2, 3, 4, 5, 8, 12, 30])
        kind = rng.choice(['inside', 'inside', 'inside', 'atknots', 'outside', 'degenerate', 'short', 'unsorted'])
        xs = sorted(set([rng.choice([0.0, rng.uniform(-5, 0)])] + [rng.uniform(0, 1000) for _ in range(k - 1)]))
        while len(xs) < k:
            xs.append(xs[-1] + rng.uniform(0.5, 10))
        ys = [rng.choice([0.0, 1.0, rng.random(), rng.random()]) for _ in range(k)]
        npts = float(k) + rng.choice([0.0, 0.0, 0.0, 0.5, 0.99])
        extra = []
        if kind == 'inside':
            inp = [rng.choice([rng.uniform(xs[0], xs[-1]), rng.choice(xs), xs[0], xs[-1]]) for _ in range(n)]
        elif kind == 'atknots':
            inp = [rng.choice(xs) for _ in range(n)]
        elif kind == 'outside':
            inp = [rng.uniform(xs[0], xs[-1]) for _ in range(n)]
            if n:
                inp[rng.randrange(n)] = rng.choice([xs[0] - rng.uniform(1e-9, 10), xs[-1] + rng.uniform(1e-9, 10),
                                                    math.nextafter(xs[-1], INF), math.nextafter(xs[0], -INF)])
        elif kind == 'degenerate':
            j = rng.randrange(k - 1)
            xs[j + 1] = xs[j]                      # repeated knot -> 0/0 at that knot
            inp = [rng.choice([xs[j], rng.uniform(xs[0], xs[-1])]) for _ in range(n)]
        elif kind == 'short':
            npts = float(rng.choice([0, 1, -1, k + 1, k + 3]))
            inp = [rng.uniform(xs[0], xs[-1]) for _ in range(n)]
            if npts <= k:
                extra = []
        else:
            rng.shuffle(xs)
            inp = [rng.uniform(min(xs), max(xs)) for _ in range(n)]
        if rng.random() < 0.1:
            extra = [rng.random() for _ in range(rng.randint(1, 3))]
        params = [npts] + xs + ys + extra
        kk = int(npts)
        wellformed = kind in ('inside', 'atknots', 'outside') and kk == k
        inside = wellformed and all(xs[0] <= v <= xs[-1] for v in inp)
        return params, [inp], {'kind': kind, 'k': kk, 'wellformed': wellformed, 'inside': inside, 'xs': xs, 'ys': ys}

    @staticmethod
    def must_be_defined(meta):
        return meta['inside']

    @staticmethod
    def oracle(p, ins, o, meta):
        for t, x in enumerate(ins[0]):
            need(close(o[0][t] + o[1][t], x, max(abs(o[0][t]), abs(o[1][t]), abs(x))), 'partition-sum', t,
                 input=x, output1=o[0][t], output2=o[1][t])
            if meta['wellformed']:
                xs, ys = meta['xs'], meta['ys']
                # independent interpolation: fraction between the neighbouring proportions
                j = next(j for j in range(1, len(xs)) if xs[j] >= x)
                lo, hi = min(ys[j - 1], ys[j]), max(ys[j - 1], ys[j])
                if x != 0.0:
                    fr = o[0][t] / x
                    need(lo - 1e-9 <= fr <= hi + 1e-9, 'fraction-between-neighbouring-table-entries', t, input=x,
                         fraction=fr, lo=lo, hi=hi)


@model('PartitionDemand')
class PartitionDemand:
    @staticmethod
    def gen(rng):
        n = series_len(rng)
        inp = rng.choice([flow_series, flow_series, any_series])(rng, n)
        dmd = [rng.choice([0.0, x, x * rng.random(), x + rng.uniform(0, 10), rng.uniform(0, 100), -rng.uniform(0, 50),
                           nice(rng)]) for x in inp]
        return [], [inp, dmd], {}

    @staticmethod
    def oracle(p, ins, o, meta):
        for t, (x, d) in enumerate(zip(ins[0], ins[1])):
            out, ext = o[0][t], o[1][t]
            need(close(out + ext, x, max(abs(out), abs(ext), abs(x))), 'partition-sum', t, input=x, demand=d, outflow=out, extraction=ext)
            need(ext <= d, 'extraction<=demand', t, input=x, demand=d, extraction=ext)
            need(ext <= x, 'extraction<=available', t, input=x, demand=d, extraction=ext)
            need(out >= 0.0, 'outflow>=0', t, input=x, demand=d, outflow=out)


@model('Input')
class Input:
    @staticmethod
    def gen(rng):
        return [], [any_series(rng, series_len(rng))], {}

    @staticmethod
    def oracle(p, ins, o, meta):
        for t, x in enumerate(ins[0]):
            need(o[0][t] == x, 'identity', t, input=x, output=o[0][t])


@model('Sum')
class Sum:
    @staticmethod
    def gen(rng):
        n = series_len(rng)
        return [], [any_series(rng, n), any_series(rng, n)], {}

    @staticmethod
    def oracle(p, ins, o, meta):
        for t, (a, b) in enumerate(zip(ins[0], ins[1])):
            need(o[0][t] == a + b, 'sum', t, i1=a, i2=b, out=o[0][t])


@model('Gate')
class Gate:
    @staticmethod
    def gen(rng):
        n = series_len(rng)
        return [], [[rng.choice([0.0, 1.0, -1.0, 1e-300, -0.0, rng.uniform(-1, 1)]) for _ in range(n)], any_series(rng, n)], {}

    @staticmethod
    def oracle(p, ins, o, meta):
        for t, (g, x) in enumerate(zip(ins[0], ins[1])):
            need(o[0][t] == (x if g > 0 else 0.0), 'mask', t, trigger=g, incoming=x, outgoing=o[0][t])


class _Scaling:
    @staticmethod
    def gen(rng):
        return [rng.choice([0.0, 1.0, -0.0, rng.random(), any_param(rng), any_param(rng), tiny_nonzero(rng)])], \
            [any_series(rng, series_len(rng))], {}

    @staticmethod
    def oracle(p, ins, o, meta):
        for t, x in enumerate(ins[0]):
            need(close(o[0][t], x * p[0]), 'linear-map', t, input=x, scale=p[0], output=o[0][t])


model('ApplyScalingFactor')(type('ApplyScalingFactor', (_Scaling,), {}))
model('DeliveryRatio')(type('DeliveryRatio', (_Scaling,), {}))


@model('DepthToRate')
class DepthToRate:
    @staticmethod
    def gen(rng):
        dt = rng.choice([86400.0, 3600.0, 1.0, rng.uniform(1, 86400), rng.uniform(1, 86400)])
        area = rng.choice([0.0, 1.0, 1e4, 1e6, rng.uniform(0, 1e9), rng.uniform(0, 1e9), rng.uniform(0, 1e9), -5.0, tiny_nonzero(rng)])
        return [dt, area], [any_series(rng, series_len(rng))], {}

    @staticmethod
    def oracle(p, ins, o, meta):
        dt, area = p
        for t, x in enumerate(ins[0]):
            # mm -> m (1/1000), times area, per DeltaT seconds
            need(close(o[0][t], x / 1000.0 * area / dt), 'depth-to-rate-factor', t, input=x, DeltaT=dt, area=area, outflow=o[0][t])


@model('ComputeProportion')
class ComputeProportion:
    @staticmethod
    def gen(rng):
        n = series_len(rng)
        num = any_series(rng, n)
        den = [rng.choice([0.0, -0.0, 1.0, x, rng.uniform(-5, 5), nice(rng)]) for x in num]
        return [rng.choice([86400.0, 0.0, any_param(rng)])], [num, den], {}

    @staticmethod
    def oracle(p, ins, o, meta):
        for t, (a, b) in enumerate(zip(ins[0], ins[1])):
            need(o[0][t] == (p[0] if b == 0 else a / b), 'ratio', t, numerator=a, denominator=b, proportion=o[0][t])


@model('BaseflowFilter')
class BaseflowFilter:
    # the Go function is an empty loop; nothing is claimed about it (not one of the property's partitions)
    @staticmethod
    def gen(rng):
        return [], [flow_series(rng, series_len(rng))], {}

    @staticmethod
    def oracle(p, ins, o, meta):
        pass


def conc_param(rng):
    return rng.choice([0.0, 0.1, 1.0, 10000.0, rng.uniform(0.1, 10000), rng.uniform(0.1, 10000), rng.uniform(0.1, 100),
                       rng.uniform(0.1, 100), -3.0, tiny_nonzero(rng)])


def check_conc_loads(t, q, c, load, what):
    """linear in flow and concentration with the mg/L -> kg/m3 factor 1/1000; zero when the driver is zero;
    non-negative when the drivers are"""
    need(close(load, q * c / 1000.0), what + '=flow*conc/1000', t, flow=q, conc=c, load=load)
    if q == 0.0 or c == 0.0:
        need(load == 0.0, what + '-zero-when-driver-zero', t, flow=q, conc=c, load=load)
    if q >= 0.0 and c >= 0.0:
        need(load >= 0.0, what + '-nonneg', t, flow=q, conc=c, load=load)


@model('EmcDwc')
class EmcDwc:
    @staticmethod
    def gen(rng):
        n = series_len(rng)
        e, d = conc_param(rng), conc_param(rng)
        if rng.random() < 0.1:
            e = d = 0.0
        return [e, d], [rng.choice([flow_series, flow_series, any_series])(rng, n), flow_series(rng, n)], {}

    @staticmethod
    def oracle(p, ins, o, meta):
        for t, (q, s) in enumerate(zip(ins[0], ins[1])):
            need(close(o[2][t], o[0][t] + o[1][t], max(abs(o[0][t]), abs(o[1][t]))), 'total=quick+slow', t,
                 quick=o[0][t], slow=o[1][t], total=o[2][t])
            check_conc_loads(t, q, p[0], o[0][t], 'quickLoad')
            check_conc_loads(t, s, p[1], o[1][t], 'slowLoad')


@model('SednetDissolvedNutrientGeneration')
class Dissolved:
    gen = EmcDwc.gen
    oracle = EmcDwc.oracle


@model('FixedConcentration')
class FixedConcentration:
    @staticmethod
    def gen(rng):
        return [conc_param(rng)], [rng.choice([flow_series, flow_series, any_series])(rng, series_len(rng))], {}

    @staticmethod
    def oracle(p, ins, o, meta):
        for t, q in enumerate(ins[0]):
            check_conc_loads(t, q, p[0], o[0][t], 'load')


@model('PassLoadIfFlow')
class PassLoadIfFlow:
    @staticmethod
    def gen(rng):
        n = series_len(rng)
        return [rng.choice([0.0, 1.0, any_param(rng), any_param(rng), tiny_nonzero(rng)])], [flow_series(rng, n), any_series(rng, n)], {}

    @staticmethod
    def oracle(p, ins, o, meta):
        for t, (f, l) in enumerate(zip(ins[0], ins[1])):
            exp = l * p[0] if f > 1e-8 else 0.0
            need(close(o[0][t], exp), 'mask-and-scale', t, flow=f, inputLoad=l, scalingFactor=p[0], outputLoad=o[0][t])
            if f == 0.0:
                need(o[0][t] == 0.0, 'zero-when-flow-zero', t, flow=f, outputLoad=o[0][t])


@model('SednetParticulateNutrientGeneration')
class Particulate:
    @staticmethod
    def gen(rng):
        n = series_len(rng)
        neg = rng.random() < 0.15
        def pp(lo, hi):
            v = pos_param(rng, lo, hi)
            return -v if neg and rng.random() < 0.3 else v
        p = [pp(0, 1e8), pp(0, 0.01), pp(0, 100), pp(0, 5), pp(0, 0.01), pp(0, 5), pp(0, 100), pp(0, 100),
             rng.choice([0.0, 1.0, 0.5, 0.6])]
        ins = [flow_series(rng, n), flow_series(rng, n), flow_series(rng, n), flow_series(rng, n),
               rng.choice([flow_series, any_series])(rng, n)]
        return p, ins, {}

    @staticmethod
    def oracle(p, ins, o, meta):
        area, nsc, hdr, ner, nssc, nerg, gdr, dwc, creams = p
        for t in range(len(ins[0])):
            fs, cs, fg, cg, sf = (ins[k][t] for k in range(5))
            q, s, tot, hill, gully = (o[k][t] for k in range(5))
            need(close(tot, q + s, max(abs(q), abs(s))), 'total=quick+slow', t, quick=q, slow=s, total=tot)
            need(close(q, hill + gully, max(abs(hill), abs(gully))), 'quick=hillslope+gully', t, quick=q, hillslope=hill, gully=gully)
            need(close(hill, (fs + cs) * nsc * ner * (hdr / 100.0)), 'hillslope=generated*conc*NER*deliveryRatio%', t,
                 fineSheet=fs, coarseSheet=cs, got=hill)
            need(close(gully, (fg + cg) * nssc * nerg * (gdr / 100.0)), 'gully=generated*conc*NER*deliveryRatio%', t,
                 fineGully=fg, coarseGully=cg, got=gully)
            check_conc_loads(t, sf, dwc, s, 'slowLoad')
            if fs + cs == 0.0:
                need(hill == 0.0, 'hillslope-zero-when-no-sheet-erosion', t, got=hill)
            if fg + cg == 0.0:
                need(gully == 0.0, 'gully-zero-when-no-gully-erosion', t, got=gully)
            if min(nsc, hdr, ner, nssc, nerg, gdr, fs, cs, fg, cg) >= 0:
                need(hill >= 0 and gully >= 0 and q >= 0, 'nonneg', t, hillslope=hill, gully=gully)


@model('BankErosion', exact=False)
class BankErosion:
    @staticmethod
    def gen(rng):
        n = series_len(rng)
        neg = rng.random() < 0.15
        def pp(lo, hi):
            v = pos_param(rng, lo, hi)
            return -v if neg and rng.random() < 0.3 else v
        p = [pp(0, 100), pp(0, 100) if rng.random() < 0.8 else pp(100, 150), pp(0, 100), pp(0, 1e-4), pp(0, 0.1), pp(0, 500),
             pp(0, 2), pp(1000, 2000), pp(0, 10), pp(0, 1e4), rng.choice([1.0, 0.5, 1.3, 2.0, rng.uniform(0.2, 2.5)]),
             rng.choice([0.0, pp(1, 1e6), pp(1, 1e6)]), pp(0, 100), rng.choice([86400.0, 3600.0, rng.uniform(1, 86400)])]
        flow = normal_only(rng.choice([gen_flow, gen_flow, any_series])(rng, n))
        vol = [rng.choice([0.0, x * 86400, x * 86400, rng.uniform(0, 1e6), rng.uniform(0, 1e6), -1.0]) for x in flow]
        return p, [flow, vol], {}

    @staticmethod
    def hyp(p):
        rv, mrv, se, coeff, slope, bff, mgt, dens, height, ln, power, ltadf, spf, dur = p
        return min(rv, mrv) <= 100 and min(se, coeff, slope, bff, mgt, dens, height, ln) >= 0 and 0 <= spf <= 100 and dur > 0

    @staticmethod
    def oracle(p, ins, o, meta):
        rv, mrv, se, coeff, slope, bff, mgt, dens, height, ln, power, ltadf, spf, dur = p
        mean_annual = (dens * height * ln) * (coeff * 1000.0 * 9.81 * slope * bff * mgt) * \
            ((1 - min(rv / 100, mrv / 100)) * (se / 100))
        for t, (q, v) in enumerate(zip(ins[0], ins[1])):
            fine, coarse = o[0][t], o[1][t]
            if v <= 0 or q <= 0 or ltadf <= 0:
                need(fine == 0.0 and coarse == 0.0, 'zero-when-driver-zero', t, flow=q, volume=v, fine=fine, coarse=coarse)
                continue
            total = mean_annual * (math.pow(q * dur, power) / ltadf) / 365.25 * 1000.0 / dur
            need(close(fine + coarse, total, max(abs(fine), abs(coarse), abs(total)), 1e-9), 'fine+coarse=total', t,
                 flow=q, fine=fine, coarse=coarse, expected_total=total)
            need(close(fine, (fine + coarse) * spf / 100.0, max(abs(fine), abs(coarse)) * max(1.0, abs(spf / 100.0)), 1e-12),
                 'fine=total*percentFine', t,
                 fine=fine, coarse=coarse, soilPercentFine=spf)
            if BankErosion.hyp(p):
                need(fine >= 0 and coarse >= 0, 'nonneg', t, fine=fine, coarse=coarse)


@model('USLEFineSedimentGeneration', exact=False)
class Usle:
    @staticmethod
    def gen(rng):
        n = series_len(rng)
        neg = rng.random() < 0.1
        def pp(lo, hi):
            v = pos_param(rng, lo, hi)
            return -v if neg and rng.random() < 0.3 else v
        p = [pp(0, 5000), pp(0, 5000), rng.choice([0.0, 12.7, rng.uniform(0, 12.7)]), pp(0.001, 2), rng.uniform(0.1, 3),
             rng.choice([rng.uniform(0.1, 1), rng.uniform(0.1, 10)]), pp(0.001, 10), pp(0.001, 10), pp(0.001, 100),
             rng.choice([0.0, pp(0.1, 10000)]), pp(0, 1), pp(0, 10), pp(0, 100),
             rng.choice([0.0, pp(0, 1e8), pp(1e4, 1e8)]), rng.choice([0.0, 10000.0, pp(0, 10000), pp(0, 10), 1e9]),
             pp(0, 100), pp(0, 100), rng.choice([86400.0, 86400.0, 3600.0, rng.uniform(1, 1e5)])]
        qf = normal_only(rng.choice([gen_flow, gen_flow, any_series])(rng, n))
        sf = flow_series(rng, n)
        rain = [rng.choice([0.0, rng.uniform(0, 13), rng.uniform(0, 150), rng.uniform(0, 150), rng.uniform(13, 60), 12.7, p[2]])
                for _ in range(n)]
        klsc = [rng.choice([0.0, rng.uniform(0, 5), rng.uniform(0, 5), rng.uniform(0, 500)]) for _ in range(n)]
        klscf = [rng.choice([0.0, k, k * rng.uniform(0, 0.9), k * rng.uniform(0, 0.9), k * 1.5]) for k in klsc]
        cov = [rng.random() for _ in range(n)]
        start = rng.randint(1, 366)
        doy = [float((start + i - 1) % 366 + 1) for i in range(n)]
        return p, [qf, sf, rain, klsc, klscf, cov, doy], {}

    @staticmethod
    def oracle(p, ins, o, meta):
        (S, P, thr, alpha, beta, eta, a1, a2, a3, dwc, avK, avLS, avF, area, maxc, hf, hc, ts) = p
        for t in range(len(ins[0])):
            qf, sf, rain, klsc, klscf, cov, doy = (ins[k][t] for k in range(7))
            qlf, slf, qlc, slc, tf, tc, gf, gc = (o[k][t] for k in range(8))
            need(close(tf, qlf + slf, max(abs(qlf), abs(slf))), 'totalFine=quick+slow', t, quick=qlf, slow=slf, total=tf)
            need(close(tc, qlc + slc, max(abs(qlc), abs(slc))), 'totalCoarse=quick+slow', t, quick=qlc, slow=slc, total=tc)
            check_conc_loads(t, sf, dwc, slf, 'slowLoadFine')
            need(close(qlf, gf * (hf / 100.0)), 'deliveredFine=generatedFine*HSDR%', t, generated=gf, delivered=qlf, hsdr=hf)
            need(close(qlc, gc * (hc / 100.0)), 'deliveredCoarse=generatedCoarse*HSDR%', t, generated=gc, delivered=qlc, hsdr=hc)
            # fine : (fine + coarse) = KLSC_Fine : KLSC
            need(close(gf * klsc, (gf + gc) * klscf, max(abs(gf), abs(gc)) * max(abs(klsc), abs(klscf)), 1e-9),
                 'generatedFine:total=KLSC_Fine:KLSC', t, fine=gf, coarse=gc, KLSC=klsc, KLSC_Fine=klscf)
            # independent closed form of the generated fine load (documented unit factors: m2->ha 1e-4, t->kg 1e3,
            # kg->mg 1e6, m3/s->ML/day 86.4, ML->L 1e6)
            if qf > 0 and rain > thr and ts != 0:
                Rf = alpha * (1 + eta * math.cos(2 * math.pi * (doy - 15) / 365)) * math.pow(rain, beta)
                if Rf * klsc > 0:
                    mass = Rf * klscf * area * 1e-4 * 1e3
                    litres = qf * 86.4 * 1e6
                    if mass * 1e6 / litres > maxc:
                        mass = maxc * litres / 1e6
                    need(close(gf, mass / ts, None, 1e-9), 'generatedFine-closed-form', t, quickflow=qf, rain=rain, KLSC_Fine=klscf,
                         got=gf, expected=mass / ts)
            if not (qf > 0) or not (rain > thr):
                need(qlf == 0 and qlc == 0 and gf == 0 and gc == 0, 'zero-when-no-quickflow-or-no-erosive-rain', t,
                     quickflow=qf, rain=rain, threshold=thr, got=[qlf, qlc, gf, gc])
            if klsc >= 0 and 0 <= klscf <= klsc and area >= 0 and ts > 0 and maxc >= 0 and hf >= 0 and hc >= 0:
                need(min(qlf, qlc, gf, gc) >= 0, 'nonneg', t, got=[qlf, qlc, gf, gc])


class _Gully:
    alt = False

    @classmethod
    def gen(cls, rng):
        n = series_len(rng)
        neg = rng.random() < 0.1
        def pp(lo, hi):
            v = pos_param(rng, lo, hi)
            return -v if neg and rng.random() < 0.3 else v
        yd = float(rng.choice([1950, 1990, 2000, 0]))
        ey = yd + rng.choice([0, 5, 20, 100])
        p = [yd, ey, rng.choice([pp(1, 1e8), 1e6]), rng.choice([0.0, 1.0, rng.uniform(0, 3)]),
             rng.choice([0.0, pp(0, 1e4), pp(0, 1e4)]), rng.choice([0.0, 100.0, pp(0, 100), pp(0, 100)]),
             rng.choice([1.0, pp(0, 2)]), rng.choice([0.0, -1.0, pp(0.1, 100), pp(0.1, 100)]),
             rng.choice([0.0, -1.0, 1.0, 0.5, rng.uniform(0.2, 2.5)]), pp(0, 100), pp(0, 100),
             rng.choice([86400.0, 86400.0, 3600.0, rng.uniform(1, 1e5)])]
        qf = normal_only(rng.choice([gen_flow, gen_flow, any_series])(rng, n))
        y0 = int(yd) + rng.randint(-8, 12)
        year = [float(y0 + i // 3) for i in range(n)]
        ar = [rng.choice([0.0, rng.uniform(1, 2000), rng.uniform(1, 2000), rng.uniform(1, 2000), rng.uniform(1, 2000)]) for _ in range(n)]
        al = [rng.choice([0.0, rng.uniform(0, 1e6), rng.uniform(0, 1e6), rng.uniform(0, 1e6)]) for _ in range(n)]
        return p, [qf, year, ar, al], {}

    @classmethod
    def oracle(cls, p, ins, o, meta):
        yd, ey, area, act, supply, pcf, mpf, ltrf, drpf, sdrf, sdrc, ts = p
        pf = pcf / 100.0
        for t in range(len(ins[0])):
            qf, yr, ar, al = (ins[k][t] for k in range(4))
            fl, cl, gf, gc = (o[k][t] for k in range(4))
            need(close(fl, gf * (sdrf / 100.0)), 'deliveredFine=generatedFine*SDR%', t, generated=gf, delivered=fl, sdr=sdrf)
            need(close(cl, gc * (sdrc / 100.0)), 'deliveredCoarse=generatedCoarse*SDR%', t, generated=gc, delivered=cl, sdr=sdrc)
            a = act if yr > ey else 1.0
            # what the code does: fine : coarse = propFine*activity : (1 - propFine)
            need(close(gf * (1 - pf), gc * pf * a, max(abs(gf * (1 - pf)), abs(gc * pf * a)), 1e-9),
                 'fine:coarse=propFine*activity:(1-propFine)', t, fine=gf, coarse=gc, propFine=pf, activity=a)
            # independent closed form on generating steps (documented unit factors: t->kg 1000, m->mm 1000, 86400 s/day, 365.25 d/yr)
            if qf != 0 and ar != 0 and yr >= yd and ts != 0:
                if cls.alt:
                    depth = qf / area * 1000.0 * 86400.0 if area != 0 else NAN
                    ef = depth / ar * pf * a * (mpf * al) / ts
                    ec = depth / ar * (1 - pf) * (mpf * al) / ts
                else:
                    drf = (math.pow(qf, drpf if drpf > 0 else 1.0) / ltrf) if (ltrf > 0 and qf > 0) else (1.0 if not ltrf > 0 else NAN)
                    ef = drf * pf * a * mpf * supply * 1000.0 / 365.25 / ts
                    ec = drf * (1 - pf) * supply * mpf * 1000.0 / 365.25 / ts
                if math.isfinite(ef) and math.isfinite(ec):
                    need(close(gf, ef, None, 1e-9) and close(gc, ec, None, 1e-9), 'generated-load-closed-form', t,
                         quickflow=qf, year=yr, annualRunoff=ar, annualLoad=al, got=[gf, gc], expected=[ef, ec])
            driver_supply = al if cls.alt else supply
            if qf == 0 or yr < yd or ar == 0 or (driver_supply == 0 and math.isfinite(gf) and math.isfinite(gc)):
                need(fl == 0 and cl == 0 and gf == 0 and gc == 0, 'zero-when-driver-zero', t, quickflow=qf, year=yr,
                     annualRunoff=ar, supply=driver_supply, got=[fl, cl, gf, gc])
            hyp = qf >= 0 and ar >= 0 and 0 <= pf <= 1 and act >= 0 and mpf >= 0 and driver_supply >= 0 and ts > 0 \
                and sdrf >= 0 and sdrc >= 0 and (area > 0 if cls.alt else True)
            if hyp:
                need(min(fl, cl, gf, gc) >= 0, 'nonneg', t, got=[fl, cl, gf, gc])


model('DynamicSednetGully', exact=False)(type('DynamicSednetGully', (_Gully,), {'alt': False}))
model('DynamicSednetGullyAlt', exact=True)(type('DynamicSednetGullyAlt', (_Gully,), {'alt': True}))


def branches(name, p, ins, o, meta):
    """labels of the model branches a case exercised (measured from the case and the implementation's output)"""
    b = set()
    n = len(ins[0]) if ins else 0
    if n == 0:
        b.add('empty-series')
    if name == 'PartitionDemand':
        for x, d in zip(ins[0], ins[1]):
            b.add('demand<0' if d < 0 else 'demand>available' if d > x else 'demand<=available')
            if x < 0:
                b.add('input<0')
    elif name in ('ApplyScalingFactor', 'DeliveryRatio', 'FixedConcentration', 'PassLoadIfFlow'):
        b.add('early-return(param==0)' if p[0] == 0 else 'loop')
        if name == 'PassLoadIfFlow' and p[0] != 0:
            for f in ins[0]:
                b.add('flow>1e-8' if f > 1e-8 else 'flow<=1e-8')
    elif name == 'DepthToRate':
        b.add('early-return(area==0)' if p[1] == 0 else 'loop')
    elif name == 'EmcDwc':
        b.add('early-return(emc==dwc==0)' if p[0] == 0 and p[1] == 0 else 'loop')
    elif name == 'Gate':
        for t in ins[0]:
            b.add('trigger>0' if t > 0 else 'trigger<=0')
    elif name == 'ComputeProportion':
        for d in ins[1]:
            b.add('denominator==0' if d == 0 else 'denominator!=0')
    elif name == 'RatingCurvePartition':
        b.add('table:' + meta['kind'])
        b.add('returned' if o is not None else 'panicked')
    elif name == 'BankErosion':
        for q, v in zip(ins[0], ins[1]):
            b.add('zero-factor' if (v <= 0 or q <= 0 or p[11] <= 0) else 'generating')
        for t in range(1, n):
            if ins[0][t] == ins[0][t - 1] > 0 and ((ins[1][t] > 0) != (ins[1][t - 1] > 0)) and p[11] > 0:
                b.add('same-outflow-volume-crosses-zero')
    elif name == 'SednetParticulateNutrientGeneration':
        b.add('creams-flag-on' if p[8] > 0.5 else 'creams-flag-off')
    elif name == 'USLEFineSedimentGeneration' and o is not None:
        thr, maxc, ts = p[2], p[14], p[17]
        for t in range(n):
            qf, rain = ins[0][t], ins[2][t]
            b.add('erosive-rain' if rain > thr else 'no-erosive-rain')
            gf, gc = o[6][t], o[7][t]
            if gf != 0 or gc != 0:
                b.add('event')
                conc = gf * ts * 1e6 / (qf * 86.4 * 1e6) if qf > 0 else 0.0
                b.add('event:capped-at-maxConc' if maxc > 0 and abs(conc - maxc) <= 1e-6 * maxc else 'event:uncapped')
            else:
                b.add('no-event')
    elif name.startswith('DynamicSednetGully'):
        yd, ey = p[0], p[1]
        for t in range(n):
            qf, yr, ar = ins[0][t], ins[1][t], ins[2][t]
            if yr < yd:
                b.add('before-disturbance')
            elif qf == 0 or ar == 0:
                b.add('zero-runoff')
            else:
                b.add('generating:activity-factor' if yr > ey else 'generating:active')
                if not name.endswith('Alt'):
                    b.add('orig:power-factor' if p[7] > 0 else 'orig:no-longterm-factor')
    return b


def measured_coincidences(ins):
    """what a case's input series actually contain (measured, whatever generated it)"""
    labs = set()
    k_in = len(ins)
    n = len(ins[0]) if k_in else 0
    for k in range(k_in):
        r = ins[k]
        for t in range(1, n):
            if r[t] == r[t - 1] and r[t] != 0.0:
                labs.add('repeated-nonzero-value')
                for j in range(k_in):
                    if j != k and ((ins[j][t] > 0) != (ins[j][t - 1] > 0)):
                        labs.add('repeated-value-while-another-input-crosses-zero')
                    if j != k and ins[j][t] != ins[j][t - 1]:
                        labs.add('repeated-value-while-another-input-changes')
            if r[t] == 0.0 and r[t - 1] == 0.0:
                labs.add('zero-run')
        for j in range(k + 1, k_in):
            if any(a == b and a != 0.0 for a, b in zip(r, ins[j])):
                labs.add('two-inputs-equal-nonzero')
    return labs


def agree(ri, rm, exact):
    if exact:
        return kresults_agree(ri, rm)
    if ri[0] == 'OK' and rm[0] == 'OK':
        mx = max([abs(v) for r in ri[1] for v in r if math.isfinite(v)] + [0.0])
        return kresults_agree(ri, rm, rtol=1e-9, atol=1e-13 * mx + 1e-300)
    return kresults_agree(ri, rm)


def replay(path):
    """re-run one recorded case on the implementation and the model and re-evaluate the oracle"""
    import json
    obj = json.load(open(path))
    line = obj.get('case_line')
    if not line:
        print('replay file has no case (kind=%s): %s' % (obj.get('kind'), obj.get('what', '')))
        sys.exit(1)
    build_harness(['owrun'])
    build_driver(['c16'])
    sh(['go', 'build', '-tags', 'verif', '-o', OWRUN, './cmd/owrun'], cwd=HARNESS, env=GOENV, timeout=1800)
    li = run_filtered(OWRUN, [line], 'CRASH', env=GOENV)[0]
    lm = run_filtered(os.path.join(OCAML, 'driver'), [line], 'MODELCRASH')[0]
    name = obj['model']
    m = MODELS[name]
    ri, rm = parse_kresult(li), parse_kresult(lm)
    print('impl :', li[:300])
    print('model:', lm[:300])
    print('correspondence:', agree(ri, rm, m.exact) or 'agree')
    bad = False
    if ri[0] == 'OK':
        try:
            meta = {'kind': 'replay', 'wellformed': False, 'inside': False}
            m.oracle(obj['params'], obj['inputs'], ri[1], meta)
            print('oracle: holds')
        except Fail as f:
            print('oracle: FAILS clause=%s timestep=%d detail=%r' % (f.clause, f.t, f.detail))
            bad = True
    else:
        print('oracle: implementation did not return a result')
        bad = True
    sys.exit(1 if bad else 0)


def main():
    for i, a in enumerate(sys.argv):
        if a == '--replay' and i + 1 < len(sys.argv):
            replay(sys.argv[i + 1])
    c = Check('C16')
    quick = c.tier == 'quick'
    rng = c.rng
    # 1. build the Go side against /repo's working tree and regenerate Gen/Units.v
    try:
        build_harness(['owrun', 'unitsgen'])
        # a private copy of the runner: harness/bin/owrun is shared with the other checks, which may rebuild it
        # (against a concurrently mutated /repo) while this check is running
        import vlib
        with vlib._Lock():
            sh(['go', 'build', '-tags', 'verif', '-o', OWRUN, './cmd/owrun'], cwd=HARNESS, env=GOENV, timeout=1800)
        with_lock_out = sh([os.path.join(HARNESS, 'bin', 'unitsgen'), '-o', os.path.join(COQ, 'Gen', 'Units.v'),
                            '-x', os.path.join(REPO, 'models/generation/pass_load_if_flow.go'),
                            os.path.join(REPO, 'conv/units'), os.path.join(REPO, 'conv/rough')])
        log('unitsgen:', with_lock_out.strip())
    except BuildError as e:
        log('BUILD BROKEN:', e.what)
        log(e.output[-2000:])
        c.violation('build_broken.json', {'kind': 'go-build-or-unitsgen-failed', 'what': e.what, 'output_tail': e.output[-3000:]},
                    no_input=True)
        c.cov['rule'] = 'the Go harness did not build against /repo'
        c.finish()
    # 2. theorems
    c.prove()
    build_driver(['c16'])

    # 3. cases
    per_model = 120 if quick else 3000
    cases = []     # (model, params, inputs, meta, stream)
    for name, m in MODELS.items():
        for _ in range(per_model):
            p, ins, meta = m.gen(rng)
            if rng.random() < COINCIDE_FRACTION:
                ins, labels = coincide(rng, name, p, ins, meta)
                meta['series_classes'] = labels
            cases.append((name, p, ins, meta, 'main'))
        if m.exact and name != 'RatingCurvePartition':
            for _ in range(per_model // 10):
                p, ins, meta = m.gen(rng)
                if ins and ins[0]:
                    k = rng.randrange(len(ins))
                    ins = [special(rng, r) if i == k else r for i, r in enumerate(ins)]
                    cases.append((name, p, ins, meta, 'special'))
    lines = [kcase(name, p, [], ins) for (name, p, ins, meta, st) in cases]
    impl = run_filtered(OWRUN, lines, 'CRASH', env=GOENV)
    mod = run_filtered(os.path.join(OCAML, 'driver'), lines, 'MODELCRASH')

    stats = {}
    class_totals = {}
    measured_totals = {}
    oracle_evals = 0
    for i, ((name, p, ins, meta, stream), li, lm) in enumerate(zip(cases, impl, mod)):
        m = MODELS[name]
        ri, rm = parse_kresult(li), parse_kresult(lm)
        st = stats.setdefault(name, {'cases': 0, 'nontrivial': 0, 'impl_panics': 0, 'oracle_steps': 0, 'branches': {},
                                     'series_classes': {}})
        st['cases'] += 1
        for lab in meta.get('series_classes', []):
            st['series_classes'][lab] = st['series_classes'].get(lab, 0) + 1
            class_totals[lab] = class_totals.get(lab, 0) + 1
        if stream == 'main':
            for lab in measured_coincidences(ins):
                measured_totals[lab] = measured_totals.get(lab, 0) + 1
        if stream == 'main':
            for lab in branches(name, p, ins, ri[1] if ri[0] == 'OK' else None, meta):
                st['branches'][lab] = st['branches'].get(lab, 0) + 1
        nontriv = ri[0] == 'OK' and any(v != 0.0 for r in ri[1] for v in r)
        c.count((name, p, ins), nontrivial=nontriv)
        if nontriv:
            st['nontrivial'] += 1
        if ri[0] != 'OK':
            st['impl_panics'] += 1
        diff = agree(ri, rm, m.exact)
        if diff:
            c.corr_broken.append({'model': name, 'diff': diff, 'params': p, 'inputs': ins, 'line': lines[i]})
        if stream != 'main':
            continue
        if ri[0] != 'OK':
            if name != 'RatingCurvePartition' or m.must_be_defined(meta):
                c.violation('oracle_%s_%d.json' % (name, i), {'kind': 'crash-where-the-property-requires-a-result', 'model': name,
                                                              'params': p, 'inputs': ins, 'impl': li, 'case_line': lines[i]})
            continue
        outs = ri[1]
        if not finite_case(p, ins, outs):
            continue
        try:
            m.oracle(p, ins, outs, meta)
            oracle_evals += 1
            st['oracle_steps'] += len(ins[0]) if ins else 0
        except Fail as f:
            c.violation('oracle_%s_%d.json' % (name, i), {'kind': 'property-oracle', 'model': name, 'clause': f.clause, 'timestep': f.t,
                                                          'detail': f.detail, 'params': p,
                                                          'inputs_at_timestep': [r[f.t] for r in ins], 'inputs': ins,
                                                          'impl_outputs_at_timestep': [r[f.t] for r in outs], 'case_line': lines[i]})
        if i % 131 == 0:
            c.sample({'model': name, 'params': p, 'inputs_head': [r[:3] for r in ins], 'impl_outputs_head': [r[:3] for r in outs]})
    c.cov['rule'] = ('per catalogue model (21): parameter vectors from the documented range, its end points, zero and (low frequency) '
                     'negative values; input series of lengths 0,1,2,7,40,400 in six regimes (dry, wet, intermittent, pulse, storm, '
                     'tiny values around 1e-8) with exact zeros and negatives; negative / zero / excessive demand; rating tables of 2-30 '
                     'points queried inside, at the knots, just outside, with repeated knots, unsorted, and malformed columns; '
                     'a NaN/+Inf stream compared model-vs-code only; 30 % of the cases of every model additionally get PLATEAUS and '
                     'COINCIDENCES in their input series (one input bit-identical over 2..6 consecutive steps, alone or while every '
                     'other input toggles between 0 and positive; two inputs equal on some steps; inputs exactly on / one ulp beside '
                     'the thresholds of the model: 0, 1e-8, RainThreshold, YearDisturbance, GullyEndYear, rating knots; independent '
                     'zero runs), counted in series_classes / measured_series_coincidences.  Each case runs through sim.Catalog (owrun) and the extracted '
                     'Coq kernel; the property oracle is evaluated on the implementation output.  non-trivial = the implementation '
                     'returned a result with at least one non-zero output value; distinct by (model, params, inputs)')
    c.finish(extra_cov={'per_model': stats, 'oracle_case_evaluations': oracle_evals, 'exhaustive': False,
                        'series_classes': class_totals, 'measured_series_coincidences': measured_totals,
                        'comparison': {n: ('bit-exact' if m.exact else 'rtol 1e-9 (pow/cos through libm)') for n, m in MODELS.items()}},
             assumptions=['theorems are over exact real arithmetic (RArith); float round-off is covered only by the tolerance oracle '
                          '(1e-12 relative for sums/products, 1e-9 where pow/cos are involved)',
                          'output series are zero-initialised by the caller (sim.InitialiseOutputs); models that return early or '
                          '`continue` leave them untouched',
                          'single-cell parameter column layout of the generated wrapper (FindDimensions/ApplyParameters) is '
                          'modelled for RatingCurvePartition; the multi-cell wrapper is C04',
                          'unitsgen (go/types constant evaluation) is trusted to report the constants of conv/units, conv/rough'])


if __name__ == '__main__':
    main()
