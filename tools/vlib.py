"""Shared machinery for the /verif checks: building (Coq, extraction, OCaml
driver, Go harness against /repo's working tree), running cases on both sides,
comparison, known findings, evidence, VIOLATION protocol."""
import fcntl, json, math, os, random, re, struct, subprocess, sys, time, glob, hashlib

VERIF = os.path.dirname(os.path.dirname(os.path.abspath(__file__)))
COQ = os.path.join(VERIF, 'coq')
OCAML = os.path.join(VERIF, 'ocaml')
HARNESS = os.path.join(VERIF, 'harness')
REPO = '/repo'
GOENV = dict(os.environ, GOFLAGS='-mod=mod', GOPROXY='off', GOSUMDB='off',
             GOTOOLCHAIN='local', CGO_ENABLED='1')
OUT = os.path.join(VERIF, 'out')          # scratch for replay files etc. (gitignored)


def log(*a):
    print(*a, file=sys.stderr, flush=True)


# ---------------------------------------------------------------- float helpers
def f2h(x):
    return '%016x' % struct.unpack('>Q', struct.pack('>d', float(x)))[0]


def h2f(s):
    return struct.unpack('>d', struct.pack('>Q', int(s, 16)))[0]


# ---------------------------------------------------------------- building
class BuildError(Exception):
    def __init__(self, what, output):
        super().__init__(what)
        self.what = what
        self.output = output


class _Lock:
    def __enter__(self):
        os.makedirs(OUT, exist_ok=True)
        self.f = open(os.path.join(OUT, '.buildlock'), 'w')
        fcntl.flock(self.f, fcntl.LOCK_EX)

    def __exit__(self, *a):
        fcntl.flock(self.f, fcntl.LOCK_UN)
        self.f.close()


def sh(cmd, cwd=None, env=None, timeout=3600, check=True, inp=None):
    p = subprocess.run(cmd, cwd=cwd, env=env, shell=isinstance(cmd, str), timeout=timeout,
                       stdout=subprocess.PIPE, stderr=subprocess.STDOUT, input=inp, text=True)
    if check and p.returncode != 0:
        raise BuildError(cmd if isinstance(cmd, str) else ' '.join(cmd), p.stdout)
    return p.stdout


def newest(paths):
    m = 0
    for p in paths:
        try:
            m = max(m, os.path.getmtime(p))
        except OSError:
            pass
    return m


def coq_make(targets=None):
    """Full .vo build of the development (no -vos).  Raises BuildError naming the file."""
    with _Lock():
        sh([sys.executable, os.path.join(VERIF, 'tools', 'assemble.py')])
        if (not os.path.exists(os.path.join(COQ, 'Makefile')) or
                os.path.getmtime(os.path.join(COQ, 'Makefile')) < os.path.getmtime(os.path.join(COQ, '_CoqProject'))):
            sh('coq_makefile -f _CoqProject -o Makefile', cwd=COQ)
        tgt = ' '.join(targets) if targets else ''
        try:
            return sh('timeout 3000 make -j16 %s' % tgt, cwd=COQ)
        except BuildError as e:
            m = re.search(r'File "\./([^"]+)", line (\d+)', e.output)
            raise BuildError('coq: ' + (m.group(1) + ':' + m.group(2) if m else 'make'), e.output)


CURRENT_DRIVER = [os.path.join(OCAML, 'driver')]


def build_driver(components=None):
    """Extract the executable model and build the OCaml driver when stale.
    components=None: every fragment (shared driver ocaml/driver).  With a list of fragment
    names (coq/Extract/lists/<c>.list, ocaml/registry.d/<c>.*) a private driver holding only
    those components is built under ocaml/build/<names>/, so that a component that does not
    build cannot break the checks of the others."""
    with _Lock():
        sh([sys.executable, os.path.join(VERIF, 'tools', 'assemble.py')])
        if components is None:
            drv = os.path.join(OCAML, 'driver')
            CURRENT_DRIVER[0] = drv
            srcs = glob.glob(os.path.join(COQ, '**', '*.v'), recursive=True) + \
                [os.path.join(OCAML, f) for f in ('driver.ml', 'registry.ml')]
            if os.path.exists(drv) and os.path.getmtime(drv) >= newest(srcs):
                return drv
            sh('coqc -Q ../coq OW ../coq/Extract/Extract.v -o ./Extract.vo && rm -f Extract.vo Extract.glob .Extract.aux ../coq/Extract/*.glob',
               cwd=OCAML, timeout=1200)
            sh('ocamlfind ocamlopt -O2 -w -a -rectypes -thread -package coq-core.kernel -linkpkg '
               'model.mli model.ml registry.ml driver.ml -o driver', cwd=OCAML, timeout=1200)
            return drv
        comps = sorted(components)
        bdir = os.path.join(OCAML, 'build', '+'.join(comps))
        os.makedirs(bdir, exist_ok=True)
        drv = os.path.join(bdir, 'driver')
        CURRENT_DRIVER[0] = drv
        mods, idents = [], []
        for cname in comps:
            lf = os.path.join(COQ, 'Extract', 'lists', cname + '.list')
            for l in open(lf):
                l = l.split('#')[0].split()
                if not l:
                    continue
                if l[0] not in mods:
                    mods.append(l[0])
                idents += [i for i in l[1:] if i not in idents]
        vos = [m.replace('.', '/') + '.vo' for m in mods]
        if not os.path.exists(os.path.join(COQ, 'Makefile')) or \
                os.path.getmtime(os.path.join(COQ, 'Makefile')) < os.path.getmtime(os.path.join(COQ, '_CoqProject')):
            sh('coq_makefile -f _CoqProject -o Makefile', cwd=COQ)
        sh('timeout 3000 make -j16 Base/FInst.vo ' + ' '.join(vos), cwd=COQ)
        frag = []
        for cname in comps:
            for ext in ('.ml', '.kernels', '.commands'):
                frag.append(os.path.join(OCAML, 'registry.d', cname + ext))
        deps = [os.path.join(COQ, v) for v in vos] + [f for f in frag if os.path.exists(f)] + [os.path.join(OCAML, 'driver.ml')]
        if os.path.exists(drv) and os.path.getmtime(drv) >= newest(deps):
            return drv
        ext = ('From Coq Require Import Extraction ExtrOcamlBasic ExtrOCamlFloats ExtrOCamlInt63.\n'
               'From OW Require Import Base.Arith Base.FInst.\n' + ''.join('From OW Require Import %s.\n' % m for m in mods) +
               'Extraction Language OCaml.\nExtraction "model.ml" FArith ' + ' '.join(idents) + '.\n')
        open(os.path.join(bdir, 'Extract.v'), 'w').write(ext)
        sh('coqc -Q %s OW Extract.v && rm -f Extract.vo Extract.glob .Extract.aux' % COQ, cwd=bdir, timeout=1200)
        reg = ['open Model\ntype string = Stdlib.String.t\ntype char = Stdlib.Char.t\ntype int = Stdlib.Int.t\n'
               'type kern = Float64.t arith -> Float64.t list -> Float64.t list -> Float64.t list list\n'
               '  -> (Float64.t list list * Float64.t list) option\n']
        for cname in comps:
            f = os.path.join(OCAML, 'registry.d', cname + '.ml')
            if os.path.exists(f):
                reg.append(open(f).read())
        reg.append('let kernels : (string * kern) list = [\n')
        for cname in comps:
            f = os.path.join(OCAML, 'registry.d', cname + '.kernels')
            if os.path.exists(f):
                reg.append(open(f).read())
        reg.append(']\nlet commands : (string * (Float64.t arith -> string list -> string)) list = [\n')
        for cname in comps:
            f = os.path.join(OCAML, 'registry.d', cname + '.commands')
            if os.path.exists(f):
                reg.append(open(f).read())
        reg.append(']\n')
        open(os.path.join(bdir, 'registry.ml'), 'w').write(''.join(reg))
        sh('cp %s %s/driver.ml' % (os.path.join(OCAML, 'driver.ml'), bdir))
        sh('ocamlfind ocamlopt -O2 -w -a -rectypes -thread -package coq-core.kernel -linkpkg '
           'model.mli model.ml registry.ml driver.ml -o driver', cwd=bdir, timeout=1200)
        return drv


def build_harness(cmds=('owrun',), tags='verif', race=False, suffix=''):
    """go build of the harness commands against /repo's current working tree."""
    with _Lock():
        sh('cp /repo/go.sum %s/go.sum' % HARNESS)
        for c in cmds:
            out = os.path.join(HARNESS, 'bin', c + suffix + ('-race' if race else ''))
            sh(['go', 'build', '-tags', tags] + (['-race'] if race else []) + ['-o', out, './cmd/' + c],
               cwd=HARNESS, env=GOENV, timeout=1800)


# ---------------------------------------------------------------- running cases
def _big_stack():
    # the extracted model is structurally recursive over its input lists (not tail-recursive): series of several hundred
    # thousand steps need more than the default 8 MB of stack
    import resource
    try:
        resource.setrlimit(resource.RLIMIT_STACK, (resource.RLIM_INFINITY, resource.RLIM_INFINITY))
    except (ValueError, OSError):
        pass


def run_lines(binary, lines, timeout=600, crash_token='CRASH', env=None, cwd=None, big_stack=False):
    """Feed one case per line, get one result line per case.  If the process dies
    (a Go panic inside a goroutine cannot be recovered), the case it died on is
    reported as CRASH and the rest are run in a fresh process."""
    results = []
    i = 0
    n = len(lines)
    while i < n:
        chunk = lines[i:]
        try:
            p = subprocess.run([binary], input='\n'.join(chunk) + '\n', stdout=subprocess.PIPE,
                               stderr=subprocess.PIPE, text=True, timeout=timeout, env=env, cwd=cwd,
                               preexec_fn=_big_stack if big_stack else None)
        except subprocess.TimeoutExpired as e:
            # the process hangs on some case: the answers received so far stand, the case it hangs on is TIMEOUT (not an
            # exception of the check), the rest is run in a fresh process
            out = e.stdout or ''
            if isinstance(out, bytes):
                out = out.decode('utf-8', 'replace')
            got = [l for l in out.split('\n') if l != '']
            if out and not out.endswith('\n') and got:
                got = got[:-1]
            got = got[:len(chunk) - 1]
            results.extend(got)
            results.append('TIMEOUT no answer within %ds' % timeout)
            i += len(got) + 1
            continue
        got = [l for l in p.stdout.split('\n') if l != '']
        if len(got) >= len(chunk):
            results.extend(got[:len(chunk)])
            break
        results.extend(got)
        tail = p.stderr.strip().split('\n')
        msg = ''
        for l in tail:
            if l.startswith('panic:') or l.startswith('fatal error:') or 'SIGSEGV' in l:
                msg = l.strip()
                break
        results.append(crash_token + ' ' + msg[:160])
        i += len(got) + 1
    return results


def run_impl(lines, binary='owrun', **kw):
    return run_lines(os.path.join(HARNESS, 'bin', binary), lines, env=GOENV, **kw)


def run_model(lines, **kw):
    kw.setdefault('big_stack', True)
    return run_lines(CURRENT_DRIVER[0], lines, crash_token='MODELCRASH', **kw)


# ---------------------------------------------------------------- kernel cases
def kcase(model, params, states, inputs):
    """K <model> P n v.. S n v.. I k len v.."""
    k = len(inputs)
    ln = len(inputs[0]) if k else 0
    parts = ['K', model, 'P', str(len(params))] + [f2h(v) for v in params]
    parts += ['S', str(len(states))] + [f2h(v) for v in states]
    parts += ['I', str(k), str(ln)]
    for row in inputs:
        assert len(row) == ln
        parts += [f2h(v) for v in row]
    return ' '.join(parts)


def parse_kresult(line):
    """-> ('OK', outputs[list of rows], states) | (kind, None, None)"""
    t = line.split()
    if not t or t[0] != 'OK':
        return (t[0] if t else 'EMPTY', None, None)
    assert t[1] == 'O'
    nout, ln = int(t[2]), int(t[3])
    p = 4
    outs = []
    for i in range(nout):
        outs.append([h2f(x) for x in t[p:p + ln]])
        p += ln
    assert t[p] == 'S'
    ns = int(t[p + 1])
    sts = [h2f(x) for x in t[p + 2:p + 2 + ns]]
    return ('OK', outs, sts)


def feq(a, b, rtol=0.0, atol=0.0):
    if a != a or b != b:
        return (a != a) and (b != b)
    if a == b:
        if rtol == 0.0 and atol == 0.0 and a == 0.0:
            return math.copysign(1, a) == math.copysign(1, b)
        return True
    if math.isinf(a) or math.isinf(b):
        return False
    return abs(a - b) <= atol + rtol * max(abs(a), abs(b))


def kresults_agree(r1, r2, rtol=0.0, atol=0.0):
    """None if they agree, else a short description of the first difference."""
    k1, o1, s1 = r1
    k2, o2, s2 = r2
    bad1 = k1 != 'OK'
    bad2 = k2 != 'OK'
    if bad1 or bad2:
        if bad1 and bad2:
            return None          # both fail (panic kinds are not compared)
        return 'outcome %s vs %s' % (k1, k2)
    if len(o1) != len(o2) or len(s1) != len(s2):
        return 'shape'
    for i, (a, b) in enumerate(zip(o1, o2)):
        if len(a) != len(b):
            return 'shape'
        for t, (x, y) in enumerate(zip(a, b)):
            if not feq(x, y, rtol, atol):
                return 'output %d t=%d impl=%r model=%r' % (i, t, x, y)
    for i, (x, y) in enumerate(zip(s1, s2)):
        if not feq(x, y, rtol, atol):
            return 'state %d impl=%r model=%r' % (i, x, y)
    return None


def strip_comments(src):
    """remove (nested) Coq comments and string literals"""
    out = []
    depth = 0
    i = 0
    n = len(src)
    instr = False
    while i < n:
        ch = src[i]
        if depth == 0 and ch == '"':
            instr = not instr
            i += 1
            continue
        if instr:
            if ch == '\n':
                out.append(ch)
            i += 1
            continue
        if src.startswith('(*', i):
            depth += 1
            i += 2
            continue
        if depth and src.startswith('*)', i):
            depth -= 1
            i += 2
            continue
        if depth == 0 or ch == '\n':
            out.append(ch)
        i += 1
    return ''.join(out)


def forbidden_scan():
    """No Axiom/Parameter/Conjecture/Admitted/admit/Admit Obligations, no Variable/Hypothesis/Context
    outside a Section, no switched-off kernel checks, anywhere under coq/ (comments and strings ignored)."""
    bad = []
    decl = re.compile(r'(?:^|\.\s+|\n)\s*(?:(?:Local|Global|Polymorphic|Monomorphic|#\[[^\]]*\])\s+)*'
                      r'(Axiom|Axioms|Parameter|Parameters|Conjecture|Conjectures)\b')
    for path in glob.glob(os.path.join(COQ, '**', '*.v'), recursive=True):
        rel = os.path.relpath(path, COQ)
        if rel.startswith('scratch/'):
            continue
        src = strip_comments(open(path).read())
        for m in decl.finditer(src):
            bad.append('%s: %s declaration' % (rel, m.group(1)))
        for w in ('Admitted', 'Admit Obligations', 'Unset Guard Checking', 'Unset Positivity Checking', 'Unset Universe Checking',
                  'bypass_check', 'type-in-type', 'impredicative-set'):
            if re.search(r'\b' + re.escape(w), src):
                bad.append('%s: %s' % (rel, w))
        if re.search(r'\badmit\b', src):
            bad.append('%s: admit' % rel)
        depth = 0
        for line in src.split('\n'):
            ls = line.strip()
            if re.match(r'(Section|Module Type|Module)\s+\w+\s*\.', ls) and not ls.startswith('Module Type') and ls.startswith('Section'):
                depth += 1
            elif re.match(r'End\s+\w+\s*\.', ls) and depth > 0:
                depth -= 1
            elif depth == 0 and re.match(r'(?:(?:Local|Global|#\[[^\]]*\])\s+)*(Variable|Variables|Hypothesis|Hypotheses|Context)\b', ls):
                bad.append('%s: %s outside a Section' % (rel, ls[:60]))
    return bad


# ---------------------------------------------------------------- proofs
def check_theorems(pid, extra_files=()):
    """Compile coq/Properties/<pid>.v afresh (after making its dependencies) and
    return (n_theorems, axioms list, output).  Raises BuildError when a proof
    obligation no longer checks."""
    # Properties/<pid>.v plus any companion files Properties/<pid>_<topic>.v (statements only, same rules)
    vfiles = ['Properties/%s.v' % pid] + sorted('Properties/' + os.path.basename(f)
                                                for f in glob.glob(os.path.join(COQ, 'Properties', pid + '_*.v')))
    coq_make(targets=[f + 'o' for f in vfiles])     # the .vo closure of this property only
    out, src = '', ''
    with _Lock():
        for vfile in vfiles:
            out += sh('timeout 1500 coqc -Q . OW %s' % vfile, cwd=COQ) + '\n'
            src += open(os.path.join(COQ, vfile)).read() + '\n'
    names = re.findall(r'^\s*(?:Theorem|Lemma|Corollary|Example)\s+(\w+)', src, re.M)
    # forbid escape hatches anywhere in the development
    bad = forbidden_scan()
    if bad:
        raise BuildError('forbidden declaration in development', '\n'.join(bad))
    axioms = set()
    closed = 0
    for blk in re.split(r'\n(?=Closed under the global context|Axioms:)', '\n' + out):
        if blk.startswith('Closed under'):
            closed += 1
        elif blk.startswith('Axioms:'):
            for m in re.finditer(r'^([A-Za-z_][\w.\']*)\s*:', blk, re.M):
                if m.group(1) != 'Axioms':
                    axioms.add(m.group(1))
    return names, sorted(axioms), out


# ---------------------------------------------------------------- known findings
def load_known(pid):
    """known_findings.txt lines:
       finding: property=C06 id=<slug> key=<matching key> : text
       fixed:   property=C01 <commit> text"""
    res = []
    p = os.path.join(VERIF, 'known_findings.txt')
    if not os.path.exists(p):
        return res
    for l in open(p):
        l = l.strip()
        if not l.startswith('finding:'):
            continue
        m = re.match(r'finding:\s+property=(\S+)\s+id=(\S+)\s+key=(\S+)\s*:\s*(.*)', l)
        if m and m.group(1) == pid:
            res.append({'id': m.group(2), 'key': m.group(3), 'text': m.group(4)})
    return res


# ---------------------------------------------------------------- check driver
class Check:
    def __init__(self, pid, level='proof'):
        self.pid = pid
        self.level = level
        self.t0 = time.time()
        self.tier = os.environ.get('VERIF_TIER', 'quick')
        for i, a in enumerate(sys.argv):
            if a == '--tier' and i + 1 < len(sys.argv):
                self.tier = sys.argv[i + 1]
        if self.tier not in ('quick', 'thorough'):
            self.tier = 'quick'
        try:
            self.seed = int(os.environ.get('VERIF_SEED', '0'))
        except ValueError:
            self.seed = 0
        self.rng = random.Random(self.seed * 1000003 + int(hashlib.sha1(pid.encode()).hexdigest()[:6], 16))
        self.violations = []       # (replay_path, suffix)
        self.known_hits = {}       # finding id -> text
        self.cov = {'evaluations': 0, 'distinct_nontrivial': 0, 'rule': '', 'samples': []}
        self.assumptions = []
        self.known = load_known(pid)
        self.thm_names = []
        self.axioms = []
        self.proof_broken = None
        self.corr_broken = []      # descriptions of correspondence mismatches
        self.distinct = set()
        os.makedirs(os.path.join(OUT, pid), exist_ok=True)
        for f in glob.glob(os.path.join(OUT, pid, '*')):
            try:
                os.remove(f)
            except OSError:
                pass

    # -- proofs
    def prove(self):
        try:
            names, axioms, out = check_theorems(self.pid)
            self.thm_names = names
            self.axioms = axioms
        except BuildError as e:
            self.proof_broken = (e.what, e.output[-3000:])
            log('PROOF BROKEN:', e.what)
            log(e.output[-1500:])
            src = os.path.join(COQ, 'Properties/%s.v' % self.pid)
            if os.path.exists(src):
                self.thm_names = re.findall(r'^\s*(?:Theorem|Lemma|Corollary|Example)\s+(\w+)', open(src).read(), re.M)

    def coqchk(self):
        """thorough tier: independent re-check of the compiled property file and everything it depends on"""
        if self.proof_broken:
            return
        t = time.time()
        try:
            with _Lock():
                out = sh('timeout 3000 coqchk -silent -o -Q . OW OW.Properties.%s 2>&1' % self.pid, cwd=COQ, timeout=3100)
            ax = out.split('* Axioms:')[1].split('* Constants')[0].strip() if '* Axioms:' in out else '?'
            self.cov['coqchk'] = {'ok': True, 'axioms': ' '.join(ax.split())[:600], 'wall_s': round(time.time() - t, 1)}
        except BuildError as e:
            self.proof_broken = ('coqchk OW.Properties.%s' % self.pid, e.output[-3000:])

    # -- bookkeeping
    def count(self, case_key, nontrivial=True):
        self.cov['evaluations'] += 1
        if nontrivial:
            self.distinct.add(case_key if isinstance(case_key, (str, int)) else hashlib.sha1(repr(case_key).encode()).hexdigest())

    def sample(self, obj, limit=4):
        if len(self.cov['samples']) < limit:
            self.cov['samples'].append(obj)

    def replay_path(self, name):
        return os.path.join(OUT, self.pid, name)

    def write_replay(self, name, obj):
        p = self.replay_path(name)
        with open(p, 'w') as f:
            if isinstance(obj, str):
                f.write(obj)
            else:
                json.dump(obj, f, indent=1)
        return p

    def violation(self, name, obj, key=None, no_input=False):
        """Report a failure of the property.  If [key] matches a known finding it is
        printed as KNOWN-FINDING instead."""
        if key is not None:
            for k in self.known:
                if k['key'] == key:
                    self.known_hits[k['id']] = k['text']
                    return False
        if len(self.violations) < 5:
            p = self.write_replay(name, obj)
            self.violations.append((p, ' no-failing-input-found' if no_input else ''))
        else:
            self.violations.append((None, ''))
        return True

    def finish(self, extra_cov=None, assumptions=None):
        # broken proof / correspondence with no concrete failing input
        if self.proof_broken and not any(v[0] for v in self.violations):
            self.violation('proof_broken.json', {'kind': 'proof-obligation-broken', 'what': self.proof_broken[0],
                                                  'coqc_output_tail': self.proof_broken[1]}, no_input=True)
        if self.corr_broken and not any(v[0] for v in self.violations):
            self.violation('correspondence_broken.json', {'kind': 'correspondence-broken',
                                                           'mismatches': self.corr_broken[:20]}, no_input=True)
        cov = self.cov
        cov['distinct_nontrivial'] = len(self.distinct)
        cov['obligations'] = len(self.thm_names)
        cov['discharged'] = 0 if self.proof_broken else len(self.thm_names)
        cov['obligation_names'] = self.thm_names
        cov['checker_cmd'] = 'cd /verif/coq && make -j16 && coqc -Q . OW Properties/%s.v   (full .vo build; coqchk in thorough tier)' % self.pid
        cov['trusted_base'] = ['Coq 8.16.1 kernel (+ VM for vm_compute)'] + \
            ['axiom (stdlib): ' + a for a in self.axioms] + \
            ['extraction ExtrOcamlBasic+ExtrOCamlFloats+ExtrOCamlInt63, OCaml driver, Go harness (correspondence only)']
        cov['correspondence_mismatches'] = len(self.corr_broken)
        cov['known_findings_hit'] = sorted(self.known_hits)
        if extra_cov:
            cov.update(extra_cov)
        ev = {'property_id': self.pid, 'tier': self.tier, 'seed': self.seed, 'level': self.level,
              'coverage': cov, 'assumptions': (assumptions or []) + self.assumptions,
              'wall_s': round(time.time() - self.t0, 2), 'violations': len(self.violations)}
        os.makedirs(os.path.join(VERIF, 'evidence'), exist_ok=True)
        with open(os.path.join(VERIF, 'evidence', self.pid + '.json'), 'w') as f:
            json.dump(ev, f, indent=1, default=str)
        for kid, text in sorted(self.known_hits.items()):
            print('KNOWN-FINDING: property=%s %s: %s' % (self.pid, kid, text))
        if self.violations:
            p, suffix = self.violations[0]
            print('VIOLATION property=%s replay=%s%s' % (self.pid, p, suffix))
            sys.stdout.flush()
            sys.exit(1)
        print('OK property=%s tier=%s evaluations=%d theorems=%d wall=%.1fs' %
              (self.pid, self.tier, cov['evaluations'], len(self.thm_names), time.time() - self.t0))
        sys.exit(0)
