#!/usr/bin/env python3
"""Instantiate harness/cmd/arrops/typed.go.tmpl for the 8 element types."""
import os
D = os.path.join(os.path.dirname(os.path.dirname(os.path.abspath(__file__))), 'harness', 'cmd', 'arrops')
TYPES = [('float64', 'Float64', 'C.double', True), ('float32', 'Float32', 'C.float', True), ('int32', 'Int32', 'C.int', True),
         ('uint32', 'Uint32', 'C.uint', True), ('int64', 'Int64', 'C.long', True), ('uint64', 'Uint64', 'C.ulong', True),
         ('int', 'Int', 'C.int', False), ('uint', 'Uint', 'C.uint', False)]
AOPS = '''case "SCALE":
				data.ScaleNNArray(arrs[o.id], arrs[o.src], TT(o.k)); res = "ok"
			case "ADDTO":
				data.AddToNNArray(arrs[o.id], arrs[o.src]); res = "ok"
			case "APPLYFUNC":
				data.ApplyFunc1NN(arrs[o.id], arrs[o.src], func(v TT) TT { return v*2 + 1 }); res = "ok"'''
def main():
    t = open(os.path.join(D, 'typed.go.tmpl')).read()
    for tt, nn, ct, six in TYPES:
        s = t.replace('ARRAYOPS', AOPS if six else '')
        s = s.replace('NN', nn).replace('CT', ct).replace('TT', tt)
        p = os.path.join(D, 'gen_%s.go' % tt)
        if not os.path.exists(p) or open(p).read() != s:
            open(p, 'w').write(s)
if __name__ == '__main__':
    main()
