#!/usr/bin/env python3
"""C14 check -- model results are a pure, causal function of parameters, states and inputs.

1. theorems of coq/Properties/C14.v (causal_spec for all 41 catalogue kernels + the generic run_causal lemmas).
2. ORACLE on the implementation, all 41 catalogue models, through sim.Catalog and the generated wrappers
   (harness command PURITY, 25-step series, GOMAXPROCS untouched):
   purity     the same (parameters, initial states, inputs) run  (r1) on a model object, (r2) again on the SAME object,
              (r3) on a fresh object, then -- after three other randomly chosen catalogue models have run in the
              same process -- (r4) on the first object again, (r5) on another fresh object, (r6) on the first object
              after ApplyParameters was called again: the six result lines must be IDENTICAL BIT PATTERNS
              (outputs at every step and final states, NaN payloads and signed zeros included);
   others     the runs between the repetitions are three other catalogue models AND two other cases of the SAME model
              type (different parameters / tables / data), and for the table models (Storage, RatingCurvePartition) the
              neighbours of the case itself: the same tables with the data just off the table points the case sits on
              (Storage cases are generated exactly on first / interior / last table volumes, also on tables with a
              repeated volume = a vertical step of the release curves, also standing still there);
   re-init    "re-initialise on the same object": ApplyParameters -> InitialiseStates -> Run -> InitialiseStates -> Run on
              ONE object: the second freshly initialised state array must equal the first as it was before its run and
              that of a fresh object, and the three runs from these arrays must agree bit for bit (custom-init models
              Lag and GR4J and the zero-init ones; for Storage only the arrays are compared);
   intact     a later run must not alter the results of an earlier one: every output array (obtained from
              sim.InitialiseOutputs, as ow-sim and libopenwater obtain theirs) and state array of all the runs of a PURITY
              line is kept alive with a bit-pattern snapshot and re-read after EVERY later run (same model type and
              shape, other models, truncated runs);
   large      size thresholds: a few models per run are also run at LARGE shapes (harness command LARGE: 40 cells x 1700
              steps, 1 x 70000, 16 x 70000: output arrays >= 2^16 and >= 2^20 elements), two consecutive generations
              of the same model type with generation 1's arrays kept alive while generation 2 runs, then generation 1
              again on a privately allocated array: digests of the bit patterns must agree (kept = original = repeat);
   long       run-length dependent quantities: long STIFF Storage runs (two of 1100 daily steps in the quick tier, three of 1825 in thorough; every
              step refined to ~60 s sub-steps) and one 1000-step run of every other stateful model go through the same
              purity situations and are truncated at / tail-replaced after t = 1, 150, 416, 417, 1000, n-1;
   causality  for EVERY truncation point t = 1..24: the run on the first t steps only gives exactly the first t
              outputs of r1, and the run on inputs[:t] ++ other[t:] (tail replaced by a rotated / reversed copy of
              the series) gives the same first t outputs.
3. CORRESPONDENCE: r1 and a sample of the truncated runs against the extracted Coq kernels (private OCaml driver
   with all kernel components), to the tolerance of the model's own check; and on the extracted kernels themselves
   truncated outputs are prefixes of the whole outputs.

  tools/c14.py [--tier quick|thorough] ; tools/c14.py --replay out/C14/<file>.json
  C14_OWRUN=<binary>: use that owrun instead of building harness/bin/owrun-c14 from /repo (mutation testing)."""
import sys, os, json
sys.path.insert(0, os.path.dirname(os.path.abspath(__file__)))
from hslib import *

N = 25
REINIT_SITUATIONS = ['re-initialised-states-on-the-same-object', 'initial-states-of-a-fresh-object',
                     'run-after-re-initialising-the-same-object', 'run-from-initial-states-on-a-fresh-object']
SITUATIONS = ['same-object-again', 'fresh-object', 'same-object-after-3-other-models', 'fresh-object-after-3-other-models',
              'same-object-after-ApplyParameters-again']


def alt_inputs(rng, inputs):
    """replacement series in the same value range: each series rotated and / or reversed"""
    out = []
    for r in inputs:
        k = rng.randint(1, max(1, len(r) - 1))
        s = r[k:] + r[:k]
        if rng.random() < 0.5:
            s = s[::-1]
        out.append(s)
    return out


def series_tokens(rows):
    k = len(rows)
    n = len(rows[0]) if k else 0
    return '%d %d %s' % (k, n, ' '.join(f2h(v) for r in rows for v in r)) if k and n else '%d %d' % (k, n)


ILL = {'accepted': 0, 'max_amplification': 0.0, 'perturbed_model_runs': 0}


def cond_accept(drv, cs, make_line, parser, impl_results, model_results):
    """hslib.rr_conditioned (measured sensitivity over several perturbed model runs) with bookkeeping for the evidence"""
    info = {}
    d = rr_conditioned(drv, cs, make_line, parser, impl_results, model_results, info=info)
    if d is None:
        ILL['accepted'] += 1
        ILL['max_amplification'] = max(ILL['max_amplification'], info.get('amplification', 0.0))
        ILL['perturbed_model_runs'] += info.get('perturbed_runs', 0)
    return d


def purity_line(cs, alt, truncs, others):
    parts = ['PURITY', cs['model'], case_tokens(cs), 'ALT', series_tokens(alt), 'TRUNCS', str(len(truncs))] + [str(t) for t in truncs]
    parts += ['OTHERS', str(len(others))]
    for o in others:
        parts += [o['model'], case_tokens(o)]
    # re-initialise on the same object; the three runs from the model's own initial states are left out for Storage
    # (zero volume on a table that releases / evaporates at zero volume is its agreed process crash)
    parts += ['REINIT', '0' if cs['model'] == 'Storage' else '1']
    return ' '.join(p for p in parts if p != '')


def pick_others(rng, ok, cs):
    """the runs between the repetitions: three other catalogue models and two OTHER cases of the SAME model type
    (different parameters / tables / data: package-level leftovers keyed by nothing but the code path show only then)"""
    pool = [o for o in ok if o['model'] != cs['model']]
    same = [o for o in ok if o['model'] == cs['model'] and o is not cs]
    same = rng.sample(same, 2) if len(same) >= 2 else same
    # table models: the neighbours of the case itself (same tables, data just off the table points, nothing moving),
    # so that the last table lookups before the repetitions end in the segments next to the points the case sits on
    nb = table_neighbours(cs)        # just below, then just above the table points
    # models whose state layout depends on a parameter: the same parameters on a state vector of another legal layout
    return (rng.sample(pool, 3) if len(pool) >= 3 else []) + same + nb + layout_neighbours(cs, rng)


def table_neighbours(cs):
    m, p = cs['model'], cs['params']
    out = []
    if m == 'Storage':
        n = int(p[1])
        vols = p[2 + n:2 + 2 * n]
        v0 = cs['states'][0]
        if v0 in vols:
            # one quiet step of ONE SECOND (so that nothing can drain it out of the segment) in the middle of the segment
            # below and of the segment above the point the case starts on
            quiet = [[0.0] for _ in cs['inputs']]
            lo = vols.index(v0)
            hi = n - 1 - vols[::-1].index(v0)
            if lo >= 1:
                out.append(dict(cs, params=[1.0] + p[1:], states=[0.5 * (vols[lo - 1] + v0)] + cs['states'][1:], inputs=quiet))
            if hi + 1 < n:
                out.append(dict(cs, params=[1.0] + p[1:], states=[0.5 * (v0 + vols[hi + 1])] + cs['states'][1:], inputs=quiet))
    elif m == 'RatingCurvePartition':
        n = int(p[0])
        xs = p[1:1 + n]
        if any(x in xs[1:-1] for x in cs['inputs'][0]):
            for f in (1 - 1e-9, 1 + 1e-9):
                out.append(dict(cs, inputs=[[min(max(x * f, xs[0]), xs[-1]) for x in cs['inputs'][0]]]))
    return out


def outputs_part(part):
    """the 'O nout len hex..' tokens of one result, as (nout, len, rows of hex strings)"""
    t = part.split()
    if not t or t[0] != 'OK':
        return None
    nout, ln = int(t[2]), int(t[3])
    rows = [t[4 + i * ln: 4 + (i + 1) * ln] for i in range(nout)]
    return rows


def replay(path):
    d = json.load(open(path))
    owrun = os.environ.get('C14_OWRUN') or build_private_owrun('owrun-c14')
    if 'large_line' in d:
        res = run_filtered(owrun, [d['large_line']], 'CRASH', env=GOENV)[0]
        tk = res.split()
        print('model', d['model'], 'cells', d['cells'], 'steps', d['steps'], '->', res[:300])
        okl = res.startswith('OK N') and len(tk) == 20 and tk[6:8] == tk[12:14] and tk[9:11] == tk[18:20] and tk[6:8] == tk[15:17]
        print('earlier generations intact and repeatable' if okl else 'FAIL: kept / repeated arrays differ (G1 vs K1, G2 vs K2, G1 vs G3)')
        sys.exit(0 if okl else 1)
    res = run_filtered(owrun, [d['purity_line']], 'CRASH', env=GOENV)[0]
    parts = [p.strip() for p in res.split(' | ')]
    print('model', d['model'], 'kind', d.get('kind'))
    bad = judge_parts(parts, d['truncs'])
    for b in bad[:8]:
        print(b)
    print('%d failing comparisons' % len(bad))
    sys.exit(1 if bad else 0)


def judge_parts(parts, truncs):
    """-> list of (kind, detail) failures of the purity / causality oracle on one PURITY answer"""
    bad = []
    if parts and parts[-1].startswith('KEPT'):
        kt = parts[-1].split()
        parts = parts[:-1]
        if int(kt[2]) > 0:
            bad.append(('purity:earlier-results-altered', '%s of %s re-reads of kept output/state arrays differ from their snapshot: %s'
                        % (kt[2], kt[1], ' '.join(kt[3:]))))
    if parts and parts[-1].startswith('INIT'):
        it = parts[-1].split()[1:]
        inits, pos = [], 0
        while pos < len(it):
            k = int(it[pos])
            inits.append(it[pos + 1:pos + 1 + k])
            pos += 1 + k
        i1, i2, i3 = parts[-4:-1]
        parts = parts[:-4]
        if len(inits) == 3:
            if inits[1] != inits[0]:
                bad.append(('purity:re-initialised-states-on-the-same-object', 'InitialiseStates after a run gives %s, before the run %s'
                            % ([h2f(x) for x in inits[1]][:8], [h2f(x) for x in inits[0]][:8])))
            if inits[2] != inits[0]:
                bad.append(('purity:initial-states-of-a-fresh-object', 'fresh object %s, first object %s'
                            % ([h2f(x) for x in inits[2]][:8], [h2f(x) for x in inits[0]][:8])))
        if i1 != 'SKIP':
            if i2 != i1:
                bad.append(('purity:run-after-re-initialising-the-same-object', first_diff(i1, i2)))
            if i3 != i1:
                bad.append(('purity:run-from-initial-states-on-a-fresh-object', first_diff(i1, i3)))
    r1 = parts[0]
    for name, p in zip(SITUATIONS, parts[1:6]):
        if p != r1:
            bad.append(('purity:' + name, first_diff(r1, p)))
    o1 = outputs_part(r1)
    if o1 is None:
        return bad
    rest = parts[6:]
    for k, t in enumerate(truncs):
        for kind, p in (('truncated', rest[2 * k]), ('tail-replaced', rest[2 * k + 1])):
            o = outputs_part(p)
            if o is None:
                bad.append(('causality:%s-run-fails' % kind, 't=%d %s' % (t, p[:40])))
                continue
            for i, (a, b) in enumerate(zip(o1, o)):
                if a[:t] != b[:t]:
                    j = next(x for x in range(t) if a[x] != b[x])
                    bad.append(('causality:' + kind, 't=%d output %d differs at step %d: whole %r, %s %r'
                                % (t, i, j, h2f(a[j]), kind, h2f(b[j]))))
                    break
    return bad


def first_diff(a, b):
    ta, tb = a.split(), b.split()
    if len(ta) != len(tb):
        return 'different shape / outcome: %s vs %s' % (a[:40], b[:40])
    for i, (x, y) in enumerate(zip(ta, tb)):
        if x != y:
            try:
                return 'token %d: %r vs %r' % (i, h2f(x), h2f(y))
            except ValueError:
                return 'token %d: %s vs %s' % (i, x, y)
    return 'equal'


def main():
    for i, a in enumerate(sys.argv):
        if a == '--replay' and i + 1 < len(sys.argv):
            replay(sys.argv[i + 1])
    c = Check('C14')
    quick = c.tier == 'quick'
    rng = c.rng
    c.prove()
    drv = build_driver(COMPONENTS)
    try:
        owrun = os.environ.get('C14_OWRUN') or build_private_owrun('owrun-c14')
    except BuildError as e:
        log('BUILD BROKEN:', e.what)
        log(e.output[-2000:])
        c.violation('build_broken.json', {'kind': 'go-build-failed', 'what': e.what, 'output_tail': e.output[-3000:]}, no_input=True)
        c.cov['rule'] = 'the Go harness did not build against /repo'
        c.finish()
    g = Gen(rng, N, owrun)
    g.signed = True
    per_model = 24 if quick else 200
    cases = []
    for m in ALL_MODELS:
        k = per_model
        if m == 'Storage':
            k = 14 if quick else 80
        cases += g.cases(m, k)

    # ---- phase 1: plain runs on both sides (correspondence; finds the cases that return)
    klines = [kline(cs) for cs in cases]
    impl = run_filtered(owrun, klines, 'CRASH', env=GOENV)
    mod = run_filtered(drv, klines, 'MODELCRASH')
    stats = {}
    ok = []
    for cs, li, lm, line in zip(cases, impl, mod, klines):
        st = stats.setdefault(cs['model'], {'cases': 0, 'returning': 0, 'purity_comparisons': 0, 'causality_comparisons': 0,
                                            'model_runs_compared': 0})
        st['cases'] += 1
        ri, rm = parse_kresult(li), parse_kresult(lm)
        st['model_runs_compared'] += 1
        d = agree(cs, ri, rm)
        if d and cond_accept(drv, cs, kline, lambda l: [parse_kresult(l)], [ri], [rm]) is not None:
            c.corr_broken.append({'model': cs['model'], 'diff': d, 'line': line[:3000]})
        if ri[0] == 'OK':
            st['returning'] += 1
            cs['whole'] = ri
            cs['whole_model'] = rm
            ok.append(cs)

    # ---- phase 2: purity and causality on the implementation
    truncs = list(range(1, N))
    plines = []
    for cs in ok:
        others = pick_others(rng, ok, cs)
        cs['alt'] = alt_inputs(rng, cs['inputs'])
        cs['others'] = [o['model'] for o in others]
        cs['others_cases'] = others
        if table_neighbours(cs):
            stats[cs['model']]['cases_on_table_points'] = stats[cs['model']].get('cases_on_table_points', 0) + 1
        plines.append(purity_line(cs, cs['alt'], truncs, others))
    pres = run_filtered(owrun, plines, 'CRASH', env=GOENV)
    # a tail-replaced series can drive Storage into its "drawn down to empty" process crash (agreed behaviour, C13)
    # although the reference run returns: such cases are re-run with the tail left as it is (truncation only)
    redo = [i for i, r in enumerate(pres) if r.startswith('CRASH')]
    fallback = 0
    for i in redo:
        cs = ok[i]
        cs['alt'] = [list(r) for r in cs['inputs']]
        plines[i] = purity_line(cs, cs['alt'], truncs, cs['others_cases'])
    if redo:
        again = run_filtered(owrun, [plines[i] for i in redo], 'CRASH', env=GOENV)
        for i, r in zip(redo, again):
            pres[i] = r
            fallback += 1
    for i, (cs, line, res) in enumerate(zip(ok, plines, pres)):
        m = cs['model']
        st = stats[m]
        nt = nontrivial(cs['whole'])
        desc = dict(brief(cs), purity_line=line, truncs=truncs, other_models_run_in_between=cs['others'])
        if not res.startswith('OK '):
            c.count((m, cs['params'], cs['states'], cs['inputs'], 'purity'), nontrivial=False)
            c.violation('purity_%s_%d.json' % (m, i), dict(desc, kind='run-fails-in-PURITY-but-returned-alone', answer=res[:200]))
            continue
        parts = [p.strip() for p in res.split(' | ')]
        if len(parts) != 6 + 2 * len(truncs) + 5 or not parts[-1].startswith('KEPT'):
            c.violation('purity_%s_%d.json' % (m, i), dict(desc, kind='malformed-answer', answer=res[:200]))
            continue
        # the first run must be the run of phase 1 (a separate process): purity across processes
        if parts[0] != impl[klines.index(kline(cs))].strip():
            c.violation('purity_%s_%d.json' % (m, i), dict(desc, kind='purity:different-process',
                                                           difference=first_diff(impl[klines.index(kline(cs))].strip(), parts[0])))
        bad = judge_parts(parts, truncs)
        for s in SITUATIONS + REINIT_SITUATIONS[:2 if m == 'Storage' else 4]:
            c.count((m, cs['params'], cs['states'], cs['inputs'], s), nontrivial=nt)
            st['purity_comparisons'] += 1
        for t in truncs:
            for kind in ('truncated', 'tail-replaced'):
                c.count((m, cs['params'], cs['states'], cs['inputs'], kind, t), nontrivial=nt)
                st['causality_comparisons'] += 1
        c.count((m, cs['params'], cs['states'], cs['inputs'], 'earlier-results-stay-intact'), nontrivial=nt)
        st['kept_array_rereads'] = st.get('kept_array_rereads', 0) + int(parts[-1].split()[1])
        if bad:
            c.violation('purity_%s_%d.json' % (m, i), dict(desc, kind=bad[0][0], difference=bad[0][1],
                                                           all_failures=[list(b) for b in bad[:20]]))
        if i % 41 == 0:
            c.sample({'model': m, 'params': cs['params'][:6], 'initial_states': cs['states'][:6],
                      'inputs_head': [r[:4] for r in cs['inputs']], 'other_models_run_in_between': cs['others'],
                      'outputs_head': [r[:4] for r in cs['whole'][1]], 'final_states': cs['whole'][2][:6],
                      'truncation_points': [truncs[0], truncs[-1]]})
        cs['parts'] = parts

    # ---- phase 3: correspondence of truncated / tail-replaced runs with the extracted kernels (a sample of t)
    tl, tmeta = [], []
    for cs in ok:
        if 'parts' not in cs:
            continue
        nt = 3 if (quick and cs['model'] != 'Storage') else (1 if cs['model'] == 'Storage' else 8)
        for t in rng.sample(truncs, nt):
            tl.append(kline(cs, upto=t))
            tmeta.append((cs, t, 'truncated'))
            mixed = [a[:t] + b[t:] for a, b in zip(cs['inputs'], cs['alt'])]
            tl.append(kline(cs, inputs=mixed))
            tmeta.append((cs, t, 'tail-replaced'))
    tres = run_filtered(drv, tl, 'MODELCRASH')
    for (cs, t, kind), lm, line in zip(tmeta, tres, tl):
        rm = parse_kresult(lm)
        k = 6 + 2 * truncs.index(t) + (0 if kind == 'truncated' else 1)
        ri = parse_kresult(cs['parts'][k])
        stats[cs['model']]['model_runs_compared'] += 1
        d = agree(cs, ri, rm)
        if d and cond_accept(drv, cs, (lambda pc: kline(pc, upto=t)) if kind == 'truncated' else
                                (lambda pc: kline(pc, inputs=[a[:t] + b[t:] for a, b in zip(pc['inputs'], pc.get('alt', cs['alt']))])),
                                lambda l: [parse_kresult(l)], [ri], [rm]) is not None:
            c.corr_broken.append({'model': cs['model'], 'diff': '%s at t=%d: %s' % (kind, t, d), 'line': line[:3000]})
        # the extracted kernel itself is causal on this case (what the theorem says)
        wm = cs['whole_model']
        if rm[0] == 'OK' and wm[0] == 'OK':
            for a, b in zip(wm[1], rm[1]):
                if [f2h(x) for x in a[:t]] != [f2h(x) for x in b[:t]]:
                    c.corr_broken.append({'model': cs['model'], 'diff': 'extracted kernel not causal at t=%d (%s)' % (t, kind),
                                          'line': line[:3000]})
                    break

    # ---- phase 4: LARGE shapes (size thresholds are a class of change the 25-step cases cannot see): two consecutive
    # generations of the same model type, output arrays from sim.InitialiseOutputs of >= 2^16 and >= 2^20 elements,
    # generation 1 kept alive while generation 2 runs, then generation 1 again on a privately allocated array
    large_stats = {'cases': 0, 'digest_comparisons': 0, 'shapes': [], 'largest_output_array_elements': 0}
    pool = [cs for cs in ok if cs['model'] != 'Storage' and nontrivial(cs['whole'])]   # Storage: tiled series can hit its agreed crash
    shapes = [(40, 1700, 3), (1, 70000, 3), (16, 70000, 2)] if quick else [(40, 1700, 6), (1, 70000, 6), (16, 70000, 3), (3, 400000, 2)]
    llines, lmeta = [], []
    for (nc, T, k) in shapes:
        for cs in (rng.sample(pool, k) if len(pool) >= k else pool):
            llines.append('LARGE %s %s CELLS %d STEPS %d' % (cs['model'], case_tokens(cs), nc, T))
            lmeta.append((cs, nc, T))
    lres = run_filtered(owrun, llines, 'CRASH', env=GOENV)
    for (cs, nc, T), line, res in zip(lmeta, llines, lres):
        m = cs['model']
        tk = res.split()
        desc = dict(brief(cs), large_line=line, cells=nc, steps=T)
        large_stats['cases'] += 1
        if not res.startswith('OK N') or len(tk) != 20:
            c.count((m, nc, T, cs['params'], 'large'), nontrivial=False)
            c.violation('large_%s_%dx%d.json' % (m, nc, T), dict(desc, kind='large-run-fails', answer=res[:200]))
            continue
        nel, nz = int(tk[2]), int(tk[4])
        g1, g2, k1, g3, k2 = tk[6:8], tk[9:11], tk[12:14], tk[15:17], tk[18:20]
        large_stats['shapes'].append({'model': m, 'cells': nc, 'steps': T, 'output_array_elements': nel, 'nonzero_outputs': nz})
        large_stats['largest_output_array_elements'] = max(large_stats['largest_output_array_elements'], nel)
        for what, a, b in (('generation-1-arrays-altered-by-generation-2', g1, k1),
                           ('generation-2-arrays-altered-by-a-later-run', g2, k2),
                           ('generation-1-differs-when-repeated-on-a-private-array', g1, g3)):
            c.count((m, nc, T, cs['params'], cs['inputs'], what), nontrivial=nz > 0)
            large_stats['digest_comparisons'] += 1
            if a != b:
                c.violation('large_%s_%dx%d.json' % (m, nc, T),
                            dict(desc, kind='purity:' + what, output_array_elements=nel,
                                 difference='digests (outputs, states) %s vs %s' % (a, b)))
                break

    # ---- phase 5: LONG runs.  Anything derived from the LENGTH of the call (a budget shared between the time steps, a
    # counter accumulated over the call) breaks causality only for long calls, and for Storage only when the reservoir
    # is stiff (every daily step refined to ~60 s sub-steps): three long stiff Storage runs and one long run of every
    # other stateful model through the same purity situations and the truncation / tail-replacement oracle
    lsteps = 1100 if quick else 1825
    LN = 1000 if quick else 2000
    lcases = long_storage_cases(rng, lsteps)
    if quick:
        lcases = lcases[:2]           # budget: the seasonal irrigation storage and the spillway reservoir
    glong = Gen(rng, LN, owrun)
    for m in STATEFUL:
        if m != 'Storage':
            lcases += glong.cases(m, 1 if quick else 2)
    Gen(rng, N, owrun)            # restore the series lengths patched into the borrowed generators
    lk = [kline(cs) for cs in lcases]
    limpl = run_filtered(owrun, lk, 'CRASH', env=GOENV)
    idx_model = [i for i, cs in enumerate(lcases) if cs['model'] != 'Storage']     # the extracted Storage kernel is too slow here (C13, C06 run it)
    lmod = dict(zip(idx_model, run_filtered(drv, [lk[i] for i in idx_model], 'MODELCRASH')))
    long_stats = {}
    lok, lines5 = [], []
    for i, (cs, li) in enumerate(zip(lcases, limpl)):
        m = cs['model']
        n = len(cs['inputs'][0])
        st = long_stats.setdefault(m, {'cases': 0, 'steps': n, 'returning': 0, 'purity_comparisons': 0, 'causality_comparisons': 0,
                                       'truncation_points': [], 'model_runs_compared': 0})
        st['cases'] += 1
        ri = parse_kresult(li)
        if i in lmod:
            st['model_runs_compared'] += 1
            rm = parse_kresult(lmod[i])
            d = agree(cs, ri, rm)
            if d and cond_accept(drv, cs, kline, lambda l: [parse_kresult(l)], [ri], [rm]) is not None:
                c.corr_broken.append({'model': m, 'diff': 'long run: ' + d, 'line': lk[i][:2000]})
        if ri[0] != 'OK':
            continue
        st['returning'] += 1
        cs['whole'], cs['kres'] = ri, li.strip()
        cs['truncs'] = sorted(set(t for t in (1, 150, 416, 417, 1000, n - 1) if 0 < t < n))
        st['truncation_points'] = cs['truncs']
        cs['alt'] = alt_inputs(rng, cs['inputs'])
        cs['others_cases'] = pick_others(rng, ok, cs)
        cs['others'] = [o['model'] for o in cs['others_cases']]
        lok.append(cs)
        lines5.append(purity_line(cs, cs['alt'], cs['truncs'], cs['others_cases']))
    res5 = run_filtered(owrun, lines5, 'CRASH', env=GOENV)
    for i, r in enumerate(res5):
        if r.startswith('CRASH'):            # tail replacement drove Storage into its agreed crash: truncation only
            cs = lok[i]
            cs['alt'] = [list(x) for x in cs['inputs']]
            lines5[i] = purity_line(cs, cs['alt'], cs['truncs'], cs['others_cases'])
            res5[i] = run_filtered(owrun, [lines5[i]], 'CRASH', env=GOENV)[0]
            fallback += 1
    for i, (cs, line, res) in enumerate(zip(lok, lines5, res5)):
        m = cs['model']
        st = long_stats[m]
        nt = nontrivial(cs['whole'])
        tr = cs['truncs']
        desc = dict(brief(cs), purity_line=line, truncs=tr, other_models_run_in_between=cs['others'], long=True,
                    design=cs['meta'].get('design'))
        name = 'purity_long_%s_%d.json' % (m, i)
        if not res.startswith('OK '):
            c.count((m, 'long', cs['params'], 'purity'), nontrivial=False)
            c.violation(name, dict(desc, kind='run-fails-in-PURITY-but-returned-alone', answer=res[:200]))
            continue
        parts = [p.strip() for p in res.split(' | ')]
        if len(parts) != 6 + 2 * len(tr) + 5 or not parts[-1].startswith('KEPT'):
            c.violation(name, dict(desc, kind='malformed-answer', answer=res[:200]))
            continue
        if parts[0] != cs['kres']:
            c.violation(name, dict(desc, kind='purity:different-process', difference=first_diff(cs['kres'], parts[0])))
        bad = judge_parts(parts, tr)
        rs5 = REINIT_SITUATIONS[:2 if m == 'Storage' else 4]
        for s in SITUATIONS + rs5 + ['earlier-results-stay-intact']:
            c.count((m, 'long', cs['params'], cs['states'], cs['inputs'][0][:50], s), nontrivial=nt)
        st['purity_comparisons'] += len(SITUATIONS) + len(rs5)
        for t in tr:
            for kind in ('truncated', 'tail-replaced'):
                c.count((m, 'long', cs['params'], cs['states'], cs['inputs'][0][:50], kind, t), nontrivial=nt)
                st['causality_comparisons'] += 1
        if bad:
            c.violation(name, dict(desc, kind=bad[0][0], difference=bad[0][1], all_failures=[list(b) for b in bad[:20]]))

    c.cov['rule'] = ('per catalogue model (all 41): parameter vectors, initial states and 25-step input series from the generators of the '
                     'model\'s own check (C10/C11/C12/C13/C16/C19/C20); each returning case is run six times in one process (same object '
                     'twice, fresh object, same and fresh object after three other randomly chosen catalogue models, two other cases of the '
                     'same model type and -- for Storage / RatingCurvePartition cases sitting exactly on table points -- their own tables '
                     'with data just off those points have run, same object after ApplyParameters again; InitialiseStates again on a used '
                     'object vs before vs a fresh object, and the runs from those arrays) plus once in another process, and 2 x 24 times with the inputs truncated at / replaced '
                     'after every t = 1..24; one evaluation = one bit comparison of a run with the reference run (5 purity situations + 48 '
                     'causality runs per case + 1 for "earlier results stay intact": every output array (sim.InitialiseOutputs) and state '
                     'array of all those runs is kept alive and re-read bit for bit after every later run); plus LARGE cases: models drawn '
                     'from the returning cases, the 25-step series tiled to 40 x 1700, 1 x 70000 and 16 x 70000 (cells x steps; output '
                     'arrays >= 2^16 and >= 2^20 elements), two consecutive generations of the same model type with generation 1 kept '
                     'alive, compared by digests of the bit patterns; plus LONG runs: stiff Storage reservoirs (quick tier two, thorough three: the long seasonal case '
                     'of tools/c13.py, a spillway reservoir, a scaled/shifted variant; daily steps, hundreds of accepted sub-steps per step) '
                     'and one long run of every other stateful model through the same six purity situations and truncated at / '
                     'tail-replaced after t = 1, 150, 416, 417, 1000 and n-1; non-trivial = the reference run has at least one non-zero output; '
                     'distinct by (model, parameters, states, inputs, situation or (kind, t))')
    c.finish(extra_cov={'rr_ill_conditioned_model_vs_code': ILL, 'per_model': stats, 'models': len(stats), 'series_length': N, 'exhaustive': False,
                        'cases_rerun_without_tail_replacement_after_a_process_crash': fallback,
                        'truncation_points_per_case': len(truncs), 'large_cases': large_stats,
                        'purity_situations': SITUATIONS + REINIT_SITUATIONS + ['earlier-results-stay-intact', 'other-process'],
                        'runs_between_repetitions': '3 other catalogue models + 2 other cases of the same model type + (table models) the '
                                                    'case\'s own tables with data just below / above the table points it sits on',
                        'cases_on_table_points': {m: s['cases_on_table_points'] for m, s in stats.items() if s.get('cases_on_table_points')},
                        'long_runs': long_stats, 'long_storage_steps': lsteps, 'long_run_steps': LN,
                        'kept_array_rereads': sum(s.get('kept_array_rereads', 0) for s in stats.values()),
                        'oracle': 'identical IEEE-754 bit patterns of all outputs and final states (purity); identical bit patterns of the '
                                  'first t outputs (causality)'},
             assumptions=['purity of the Gallina kernels is by construction (closed functions); what is tested is the implementation',
                          'model-vs-code comparison uses the tolerance of the model\'s own check (bit-exact where only + - * / sqrt min max '
                          'are used; 1e-9 relative where libm is involved)',
                          'cases whose reference run panics or kills the process (Storage drawn down to empty) are compared with the model '
                          'outcome only',
                          'single cell, single process-wide GOMAXPROCS as set by the Go runtime; concurrency is C05'])


if __name__ == '__main__':
    main()
