#!/bin/bash
# MANIFEST.setup_cmd: build the whole framework offline from files on disk.
set -e
cd "$(dirname "$0")/.."
export GOFLAGS=-mod=mod GOPROXY=off GOSUMDB=off GOTOOLCHAIN=local
mkdir -p out evidence harness/bin
python3 tools/assemble.py
python3 tools/assemble.py
( cd coq && coq_makefile -f _CoqProject -o Makefile >/dev/null && rm -f .Makefile.d && { timeout 3400 make -k -j16 > ../out/setup-make.log 2>&1 && echo 'coq build ok' || { echo 'coq build FAILED for some files (each check rebuilds its own closure):'; grep -B2 -A6 'Error' ../out/setup-make.log | head -40; }; } )
python3 - <<'PY'
import sys; sys.path.insert(0,'tools')
import vlib
vlib.build_driver()
import glob, os
cmds=[os.path.basename(os.path.dirname(p)) for p in glob.glob('harness/cmd/*/main.go')]
vlib.build_harness(cmds)
print('setup ok:', cmds)
PY
