#!/bin/bash
# MANIFEST.setup_cmd: build the whole framework offline from files on disk.
set -e
cd "$(dirname "$0")/.."
export GOFLAGS=-mod=mod GOPROXY=off GOSUMDB=off GOTOOLCHAIN=local
mkdir -p out evidence harness/bin
python3 tools/assemble.py
python3 tools/assemble.py
( cd coq && coq_makefile -f _CoqProject -o Makefile >/dev/null && rm -f .Makefile.d && { timeout 3400 make -k -j16 > ../out/setup-make.log 2>&1 && echo 'coq build ok' || { echo 'coq build FAILED for some files (each check rebuilds its own closure):'; grep -B2 -A6 'Error' ../out/setup-make.log | head -40; }; } )
python3 - <<'PY'
import sys; sys.path.insert(0,'tools')
import vlib
vlib.build_driver()
import glob, os
cmds=[os.path.basename(os.path.dirname(p)) for p in glob.glob('harness/cmd/*/main.go')]
vlib.build_harness(cmds)
# private OCaml drivers (one per component list used by the checks), so that the first quick run is not slowed down
kern = sorted({os.path.basename(f)[:-8] for f in glob.glob('ocaml/registry.d/*.kernels')})
lists = [['arrays'], ['c19'], ['rr'], ['c08'], ['c11'], ['c12'], ['c13'], ['c16'], ['c18'], ['c20'], ['zz_c04'],
         kern + ['c07'], kern + ['c17'], ['c06', 'c11', 'c12', 'c13', 'c16', 'c19', 'c20', 'rr']]
for l in lists:
    try:
        if all(os.path.exists('coq/Extract/lists/%s.list' % c) for c in l):
            vlib.build_driver(l)
    except Exception as e:
        print('driver', l, 'not built:', str(e)[:200])
print('setup ok:', cmds)
PY
