#!/usr/bin/env python3
"""C04 check: "vectorised Run equals independent single-cell runs and touches
nothing else".
  * theorems of coq/Properties/C04.v (model: coq/Wrapper/Run.v, one Gallina program per
    goroutine body of pre/ow-specgen/generated_struct.got), with coq/Gen/WrapperSpecs.v
    regenerated from the OW-SPEC blocks of /repo on every run;
  * correspondence + oracle on the real code, for EVERY model of sim.Catalog
    (harness/cmd/cellrun): vectorised Go run vs N single-cell Go runs on the extracted parameter
    column / state row / input block (bit-exact; with the same max-dimensions and re-packed to
    the cell's own dimensions), canaries in the padding of outputs and states, inputs and
    parameters bit-identical afterwards, Go- and C-backed arrays, and the RECORDED per-goroutine
    read / write sets against the model's closed-form footprint (extracted Coq, OCaml driver);
  * InitialiseStates(n) row i = single-cell InitialiseStates(1), under "equal state lengths";
    heterogeneous GR4J / Lag = known finding init-states-sized-from-cell0."""
import sys, os
sys.path.insert(0, os.path.dirname(os.path.abspath(__file__)))
from wraplib import *


def main():
    c = Check('C04')
    quick = c.tier == 'quick'
    rng = c.rng
    try:
        specs = regen_specs()
    except BuildError as e:
        c.corr_broken.append({'kind': 'harness-build-failed', 'what': e.what, 'output': e.output[-1500:]})
        c.finish()
    c.prove()
    chk = coqchk(c, 'C04') if not quick and not c.proof_broken else 'not run (quick tier)'
    try:
        build_driver(DRIVER_COMPONENTS)
    except BuildError as e:
        c.corr_broken.append({'kind': 'model-extraction-failed', 'what': e.what, 'output': e.output[-1500:]})
        c.finish()
    cat = catalogue()
    models = sorted(cat)
    for b in spec_vs_description(specs, cat):
        c.corr_broken.append({'kind': 'spec-vs-description', 'what': b})
    flav = {}
    for m in models:
        s = specs.get(m, {})
        flav[m] = 'fixed' if s.get('InitZero') else 'custom'

    # ---------------- Run: vectorised vs singles vs recorded footprints
    lines = gen_run_cases(rng, models, 5 if quick else 150, backends=('go', 'go', 'c'))
    # boundary stream: every (N,nSets,nIn) class and every T on four structurally different models
    for m in ('Sum', 'GR4J', 'Lag', 'Storage', 'RatingCurvePartition'):
        if m in models:
            for sh in (SHAPES if not quick else SHAPES[::3]):
                for T in (TS if not quick else [0, 7]):
                    lines.append(run_line(m, sh[0], sh[1], sh[2], T, PADS[(sh[0] + T) % len(PADS)], 2 * (T % 2),
                                          rng.randrange(1 << 30), 'go', 1, 1))
    # "many cells" stream: cell counts around / beyond any worker-pool or batch size
    many = gen_many_cells(rng, models, MANY_N if quick else MANY_N + [511, 1000], record_upto=129 if quick else 257,
                          per_n=3 if quick else None)
    lines += many
    # parameter-position streams (range ends / exactly 0 / default / inside; out of range)
    special = gen_edge_cases(rng, models, rots=(0, 1, 2, 3, 4) if quick else tuple(range(5)) * 3)
    special += gen_out_of_range(rng, models, per_model=1 if quick else 8)
    if not quick:
        special += gen_edge_cases(rng, models, rots=(0, 1, 2, 3, 4), backend='c', record=0)
    lines += special
    # re-used (stale) output arrays x degenerate forcing, every model
    stale = gen_stale_output_cases(rng, models, reps=1 if quick else 4)
    lines += stale
    unwritten = UnwrittenOutputs()
    results = run_cases(lines)
    fp_lines, fp_idx = [], []
    for i, (l, r, raw) in enumerate(results):
        if r is not None and r.get('cells') is not None and r['layout']['Record']:
            fp_lines.append(footprint_line(r))
            fp_idx.append(i)
    fp_out = run_model(fp_lines) if fp_lines else []
    fp_of = dict(zip(fp_idx, fp_out))
    classes = set()
    n_rec = n_c = 0
    max_cpg = 0
    max_n = 0
    n_second = 0
    n_timeout = 0
    n_views = 0
    view_variants = {}
    n_on_table = 0
    n_skipped = 0
    pos_table = {}
    for i, (l, r, raw) in enumerate(results):
        if r is None and raw == 'TIMEOUT':
            n_timeout += 1
            continue
        side = kernel_rejects(l) if (r is None and is_special(l)) else None
        if side == 'both':
            n_skipped += 1          # the kernel itself panics on this draw, vectorised and alone
            continue
        if side in ('single', 'vector'):
            c.count(l, nontrivial=True)
            c.violation('run_panic_%s_%d.json' % (side, i), {'kind': 'vectorised run and single-cell runs differ: only the %s run(s) panic' % ('single-cell' if side == 'single' else 'vectorised'),
                                                            'case_line': l, 'impl': raw, 'replay': 'echo "%s" | harness/bin/cellrun   (probes: last argument 1 = single-cell runs only, 2 = vectorised only)' % l})
            continue
        if r is None:
            c.count(l, nontrivial=False)
            c.violation('run_crash_%d.json' % i, {'kind': 'crash-in-Run', 'case_line': l, 'impl': raw,
                                                 'replay': 'echo "%s" | harness/bin/cellrun' % l},
                        key=None)
            continue
        L = r['layout']
        cls = ('eq' if L['NSets'] == L['N'] else 'div' if L['N'] % L['NSets'] == 0 else 'coprime',
               'eq' if L['NIn'] == L['N'] else 'div' if L['N'] % L['NIn'] == 0 else 'coprime',
               L['T'], (L['PadN'] > 0, L['PadK'] > 0, L['PadT'] > 0), L['Backend'])
        classes.add(cls)
        c.count((L['Model'],) + cls + (L['N'],), nontrivial=L['N'] > 1)
        n_c += L['Backend'] == 'c'
        max_n = max(max_n, L['N'])
        n_second += r.get('second_runs', 0)
        if r.get('view_runs'):
            n_views += 1
            view_variants[str(r.get('view_variant'))] = view_variants.get(str(r.get('view_variant')), 0) + 1
        n_on_table += r.get('on_table_point_values', 0)
        add_positions(pos_table, r)
        unwritten.add(l, r)
        max_cpg = max(max_cpg, r.get('max_cells_per_goroutine', 0))
        if not r['ok']:
            c.violation('run_%d.json' % i, {'kind': 'vectorised-run-differs-or-touches-more', 'fails': r['fails'], 'case_line': l,
                                           'layout': L, 'replay': 'echo "%s" | harness/bin/cellrun' % l})
            continue
        if i in fp_of:
            n_rec += 1
            fd, cells = parse_footprint(fp_of[i])
            if cells is None or len(cells) != L['N']:
                c.corr_broken.append({'kind': 'model-footprint-unavailable', 'case_line': l, 'model_says': fp_of[i][:200]})
                continue
            want_fd = dict(zip(L['DimNames'] or [], L['MaxDims'] or []))
            if fd != want_fd:
                c.corr_broken.append({'kind': 'find_dimensions model != code', 'case_line': l, 'model': fd, 'code': want_fd})
            bad = compare_footprints(r, cells, flav[L['Model']])
            if bad:
                c.violation('footprint_%d.json' % i, {'kind': 'recorded-accesses-differ-from-model-footprint', 'problems': bad[:10],
                                                     'case_line': l, 'layout': L,
                                                     'replay': 'echo "%s" | harness/bin/cellrun   (field "cells"); model: echo "%s" | ocaml/driver' % (l, fp_lines[fp_idx.index(i)][:300])})
        if i % 131 == 0:
            c.sample({'case': l, 'changed_elements': r.get('changed'), 'recorded_accesses': r.get('n_accesses')})

    unwritten_cov = unwritten.report(c, 'C04')

    # ---------------- parameters applied repeatedly to / edited under a long-lived model object: every Run must
    # equal a fresh object given the current parameters (dimensioned models first, then all the others)
    dimensioned = [m for m in models if cat[m].get('dimensions')]
    pseq_lines = []
    for rep in range(4 if quick else 20):
        for m in dimensioned:
            pseq_lines.append('PARAMSEQ %s %d %d %d %d %s' % (m, [3, 4, 5][rep % 3], [2, 3, 1][rep % 3], 6, rng.randrange(1 << 30), ['go', 'c'][rep % 2]))
    for k, m in enumerate(models):
        if m not in dimensioned:
            for rep in range(1 if quick else 4):
                pseq_lines.append('PARAMSEQ %s %d %d %d %d %s' % (m, [3, 4][k % 2], [2, 1, 3][(k + rep) % 3], 6, rng.randrange(1 << 30), ['go', 'c'][(k + rep) % 2]))
    pseq_steps = 0
    for (l, r, raw) in run_cases(pseq_lines):
        c.count(l, nontrivial=True)
        if r is None:
            # the process died: do the FRESH reference objects alone survive these parameters?
            ref = run_lines(CELLRUN, [l + ' ref'], env=GOENV)[0]
            if not ref.startswith('{'):
                n_skipped += 1      # the kernel panics on this draw even on fresh objects
                continue
            c.violation('paramseq_%s.json' % l.split()[1], {'kind': 'a long-lived model object panics where fresh objects given the same parameters run normally',
                                                            'case_line': l, 'impl': raw, 'replay': 'echo "%s" | harness/bin/cellrun' % l})
            continue
        pseq_steps += (r.get('extra') or {}).get('steps', 0)
        if not r['ok']:
            c.violation('paramseq_%s.json' % l.split()[1], {'kind': 'Run on a long-lived model object (parameters re-applied / edited in place) differs from a fresh object given the current parameters',
                                                            'case_line': l, 'fails': r['fails'], 'replay': 'echo "%s" | harness/bin/cellrun' % l})

    # ---------------- InitialiseStates on a long-lived model object (every call: a NEW array equal to a fresh object's)
    seq_lines = ['INITSEQ %s %d %d %d %d' % (m, [2, 3, 5][k % 3], [1, 2][k % 2], 6, rng.randrange(1 << 30))
                 for k, m in enumerate(models) for _ in range(1 if quick else 6)]
    for (l, r, raw) in run_cases(seq_lines):
        c.count(l, nontrivial=True)
        if r is None or not r['ok']:
            c.violation('initseq_%s.json' % l.split()[1], {'kind': 'InitialiseStates on a long-lived model object is not a fresh, unshared array',
                                                           'case_line': l, 'fails': r['fails'] if r else raw,
                                                           'replay': 'echo "%s" | harness/bin/cellrun' % l})

    # ---------------- InitialiseStates
    il = init_lines(rng, models, 2 if quick else 20, n_het=10 if quick else 80)
    ires = run_cases([l for _, l in il])
    # the faithful model (extracted Wrapper/Run.v initialise_states: matrix sized from cell 0, cell i gets
    # set i mod nSets) on the same parameter matrix, for every case of the custom-init models
    mlines, midx = [], []
    for k, ((kind, l), (_, r, raw)) in enumerate(zip(il, ires)):
        if r is not None and flav.get(r['model']) == 'custom' and r['extra'].get('set_rows_hex') is not None:
            f = l.split()
            mlines.append(initmodel_line(r, int(f[2]), int(f[3])))
            midx.append(k)
    mout = dict(zip(midx, run_model(mlines))) if mlines else {}
    n_het_fail = 0
    n_init_model = 0
    for k, ((kind, l), (_, r, raw)) in enumerate(zip(il, ires)):
        c.count(l, nontrivial=(kind != 'hom'))
        if r is None:
            c.violation('init_crash.json', {'kind': 'crash-in-InitialiseStates', 'case_line': l, 'impl': raw})
            continue
        agrees, how = True, 'zero-initialised flavour'
        if k in mout:
            n_init_model += 1
            agrees, how = init_model_agrees(r, mout[k])
        if not agrees:
            # implementation != faithful model: a violation wherever it happens, also inside the region
            # of the known finding (the key only covers what the MODEL of the finding does)
            c.violation('init_model_%s.json' % r['model'], {'kind': 'InitialiseStates differs from the faithful model (matrix sized from cell 0, cell i <- parameter set i mod nSets)',
                                                            'how': how, 'case_line': l, 'state_lengths_per_cell': r['extra'].get('state_lengths'),
                                                            'code_fails': r['fails'], 'replay': 'echo "%s" | harness/bin/cellrun' % l})
            continue
        if r['ok']:
            if not r['extra'].get('all_same_length') and len(r['extra'].get('state_lengths') or []) > 1:
                c.corr_broken.append({'kind': 'initialise_states: unequal lengths but rows agree?', 'case_line': l})
            continue
        if kind == 'het' and not r['extra'].get('all_same_length'):
            # rows differ from the single-cell initial states exactly as the faithful model of the finding predicts
            n_het_fail += 1
            c.violation('init_%s.json' % r['model'], {'kind': 'initialise-states-row-differs', 'fails': r['fails'], 'case_line': l},
                        key=KEY_INIT)
        else:
            c.violation('init_%s.json' % r['model'], {'kind': 'initialise-states-row-differs', 'fails': r['fails'], 'case_line': l,
                                                      'replay': 'echo "%s" | harness/bin/cellrun' % l})
    c.cov['rule'] = ('every model of sim.Catalog x (N,nSets,nIn) in %d shapes (nSets/nIn equal to, dividing, coprime with N) x T in {0,1,7,40} '
                     '(plus a many-cells stream N in %s on %d cheap models, footprints recorded up to N=%d) every case (N <= 300) re-run with inputs / states / outputs / parameters handed over as VIEWS of larger sentinel-filled tables (two adjacent offset blocks run one after the other, strided rows with a spare column, time window, stepped time axis, parameter sub-matrix; Go- and C-backed): same results, parents untouched outside the views; plus a stale-output stream (output arrays pre-filled with NaN / huge values instead of zeros x degenerate forcing: all inputs zero, one input zero, constant series; cold and warm starts; default and random parameters; reference = single-cell runs on fresh zero arrays; which output series a kernel writes must not depend on the inputs); plus PARAMSEQ: one long-lived model object gets parameters applied repeatedly (same / different number of sets, other dimension values, each cell alone with its column) and edited in place (with and without re-applying), every Run bit-identical to a fresh object given the current parameters; plus parameter-position streams (tables with a repeated breakpoint and inputs / states exactly on table points for the dimensioned models; every scalar parameter at exactly its range ends, exactly 0, its default, inside; a low-frequency out-of-range stream x100 / negated with nSets, nIn in {1,N}; mostly shared parameter sets / input blocks) x exact / padded outputs (canaries) x padded state columns x Go-/C-backed arrays; per case: vectorised run vs N '
                     'single-cell runs (two parameter packings) bit-for-bit, inputs/parameters bit-identical AND array descriptors (Shape, NDims, Len per axis of inputs, parameters, states, outputs) identical after every vectorised, single-cell and recorded Run; in every third case (and all many-cells cases) Run is called again on the same input/parameter objects (and with a second model instance) and must reproduce the first call bit for bit; recorded per-goroutine access '
                     'sets vs extracted Coq footprint; non-trivial = more than one cell; plus InitialiseStates(n) vs single-cell '
                     'InitialiseStates(1) (homogeneous / same state length: must agree; GR4J and Lag: every case compared bit for bit with the extracted model of InitialiseStates, nSets in {1,n,2,3} incl. non-divisors; heterogeneous lengths that behave exactly like the model: known finding)' % (len(SHAPES), MANY_N if quick else MANY_N + [511, 1000], len(MANY_MODELS), 129 if quick else 257))
    c.finish(extra_cov={'models': len(models), 'case_classes_hit': len(classes), 'recorded_footprint_cases': n_rec,
                        'c_backed_cases': n_c, 'many_cells_cases': len(many), 'stale_output_degenerate_forcing_cases': len(stale), **unwritten_cov, 'cases_also_run_on_views_of_larger_tables': n_views, 'view_variants': view_variants,
                        'values_placed_exactly_on_table_points': n_on_table, 'long_lived_model_initseq_cases': len(seq_lines), 'long_lived_model_paramseq_cases': len(pseq_lines), 'paramseq_runs_compared_with_fresh_objects': pseq_steps, 'parameter_position_cases': len(special), 'skipped_kernel_rejects_draw': n_skipped, 'skipped_out_of_range_case_over_deadline': n_timeout,
                        'parameter_positions_drawn': positions_summary(pos_table), 'cases_with_repeated_run_on_same_objects': n_second, 'largest_cell_count': max_n,
                        'max_cells_handled_by_one_goroutine': max_cpg, 'heterogeneous_init_failures': n_het_fail, 'init_cases_compared_with_extracted_model': n_init_model, 'exhaustive': False, 'coqchk': chk},
             assumptions=['array library addresses the row-major offsets its arguments denote (C01/C02; the recorder measures element addresses through the public API and validates every logged value)',
                          'kernels touch only the views they are handed (checked per run by the recorder for the explored inputs)',
                          'custom-state kernels (GR4J, Lag) return a packed state no longer than the state row (same side condition as the known finding)',
                          'C-backed runs are compared by value and guard zones only (no access recording: C-backed Unroll copies)'])


if __name__ == '__main__':
    main()
