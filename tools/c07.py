#!/usr/bin/env python3
"""C07 check: theorems in coq/Properties/C07.v (impl_sim = ref_sim for every
legal schedule; protocol LTS invariants) + correspondence of the extracted
models with the REAL ow-sim binary (cmd/ow-sim of /repo's working tree, built
with the verifTrace hooks against the fake HDF5) + the sequential-reference
oracle (every node run alone through sim.Catalog inside harness/cmd/simgen) on
the implementation's output files + the protocol trace acceptor on the
verifTrace events of every run.

Per generated graph file:
  oracle          IMPL (datasets ow-sim wrote) == ORACLE where the property says data must appear
  correspondence  IMPL == MSCHED (extracted impl model run under the schedule observed in the trace)
                  IMPL == MIMPL  (extracted impl model, canonical schedule)
                  MIMPL == MREF  (the theorem's instance, evaluated)
  protocol        accepts(trace) && exited && legal schedule (extracted acceptor of Protocol.v)
  liveness        ow-sim exits 0 within the timeout, no child process left behind
"""
import sys, os, subprocess, shutil, tempfile, time, hashlib, json, glob, math
sys.path.insert(0, os.path.dirname(os.path.abspath(__file__)))
from vlib import *
import c07hooks

# name -> (nParams, nStates (None: chosen per case), nInputs, nOutputs)
CAT = {'Input': (0, 0, 1, 1), 'Sum': (0, 0, 2, 1), 'Gate': (0, 0, 2, 1), 'FixedPartition': (1, 0, 1, 2),
       'VariablePartition': (0, 0, 2, 2), 'ApplyScalingFactor': (1, 0, 1, 1), 'PartitionDemand': (0, 0, 2, 2),
       'Lag': (1, None, 1, 1), 'Muskingum': (3, 3, 2, 1),
       # state row = [s, r, n1, n2, q1[n2], q9[n1]] with n1 = ceil(X4), n2 = ceil(2 X4): as wide as the largest X4 needs
       'GR4J': (4, None, 2, 1),
       # names related by PREFIX (output selection must match whole names): the oracle is the Go kernel itself
       'DynamicSednetGully': (12, 0, 4, 4), 'DynamicSednetGullyAlt': (12, 0, 4, 4),
       'StorageTrapAll': (0, 1, 4, 2),
       # kernels that return before touching their outputs when a parameter is exactly 0 (they rely on zeroed outputs)
       'FixedConcentration': (1, 0, 1, 1), 'EmcDwc': (2, 0, 2, 3), 'PassLoadIfFlow': (1, 0, 2, 1), 'DepthToRate': (2, 0, 1, 1),
       # models with a DIMENSION (table parameters): nParams = None, it follows from the model-wide maximum of the
       # dimension parameter over all nodes (rows: nPts, inputAmount[max], proportion[max] / DeltaT, nLVA, 5 x [max])
       'Storage': (None, 3, 6, 4), 'RatingCurvePartition': (None, 0, 1, 2)}
DIMENSIONED = {'Storage', 'RatingCurvePartition'}
# may emit NaN (math.Pow of a negative flow); a rating curve panics on NaN, so in a graph that has one these models are sinks
NAN_SOURCES = {'DynamicSednetGully', 'DynamicSednetGullyAlt'}
SOURCE_ONLY = {'Storage', 'GR4J'}   # never a link destination (their inputs must stay physically meaningful); always stored inputs
# every key of sim.Catalog (flag entries are drawn from these too)
CATALOGUE_NAMES = ['ApplyScalingFactor', 'BankErosion', 'BaseflowFilter', 'ClimateVariables', 'ComputeProportion', 'ConstituentDecay',
                   'DateGenerator', 'DeliveryRatio', 'DepthToRate', 'DynamicSednetGully', 'DynamicSednetGullyAlt', 'EmcDwc',
                   'FixedConcentration', 'FixedPartition', 'GR4J', 'Gate', 'Input', 'InstreamCoarseSediment',
                   'InstreamDissolvedNutrientDecay', 'InstreamFineSediment', 'InstreamParticulateNutrient', 'Lag',
                   'LumpedConstituentRouting', 'Muskingum', 'PartitionDemand', 'PassLoadIfFlow', 'RatingCurvePartition',
                   'RunoffCoefficient', 'Sacramento', 'SednetDissolvedNutrientGeneration', 'SednetParticulateNutrientGeneration',
                   'Simhyd', 'Storage', 'StorageDissolvedDecay', 'StorageParticulateTrapping', 'StorageRouting', 'StorageTrapAll',
                   'Sum', 'Surm', 'USLEFineSedimentGeneration', 'VariablePartition']
# level / volume / area / minimum release / maximum release tables with 2 and 3 points, and a matching initial volume
STORAGE_TABLES = {3: ([0., 10., 20.], [0., 1e6, 3e6], [0., 1e5, 2e5], [0., 0., 50.], [0., 20., 60.], [1e6, 1.2e6, 2.5e6]),
                  2: ([0., 10.], [0., 2e6], [0., 1e5], [0., 5.], [0., 30.], [5e5, 1e6])}


def dim_params(rng, nm, n, nmax):
    """parameter column of one node of a dimensioned model: its own table has n points, the rows are laid out for nmax"""
    pad = [0.0] * (nmax - n)
    if nm == 'RatingCurvePartition':
        xs = [-1e12] + sorted(rng.sample([0.0, 2.0, 5.0, 20.0, 60.0, 200.0], n - 2)) + [1e12]   # covers every finite input
        ys = [rng.choice([0.0, 0.25, 0.5, 0.75, 1.0]) for _ in range(n)]
        return [float(n)] + xs + pad + ys + pad, []
    lv, vol, ar, mn, mx, v0s = STORAGE_TABLES[n]
    return [86400.0, float(n)] + lv + pad + vol + pad + ar + pad + mn + pad + mx + pad, [rng.choice(v0s), 0.0, 0.0]
MUSK = [(1.0, 0.0, 1.0), (1.0, 0.25, 1.0), (2.0, 0.125, 2.0), (1.0, 0.5, 1.0), (3.0, 0.25, 2.0),
        # ends of the documented ranges (K in [0,200000], X in [0,1], DeltaT in [1,86400])
        (0.0, 0.0, 1.0), (1.0, 1.0, 86400.0), (200000.0, 0.5, 86400.0)]
ZERO_PARAM_MODELS = {'ApplyScalingFactor', 'FixedConcentration', 'EmcDwc', 'PassLoadIfFlow', 'DepthToRate'}
# models that take any IEEE value (NaN, +-Inf, -0) in their inputs without panicking
IEEE_TOLERANT = ['Input', 'Sum', 'Gate', 'FixedPartition', 'VariablePartition', 'ApplyScalingFactor', 'PartitionDemand', 'Lag',
                 'Muskingum', 'FixedConcentration', 'EmcDwc', 'PassLoadIfFlow', 'DepthToRate', 'StorageTrapAll']


def special_series(rng, T):
    """an input series with IEEE special values: NaN / +Inf / -Inf / -0 at the first, a middle or the last position (or
    several), in an otherwise all-zero, all-minus-zero or ordinary series"""
    base = rng.choice(['zero', 'zero', 'negzero', 'mixed', 'mixed'])
    ser = [0.0 if base == 'zero' else -0.0 if base == 'negzero' else value(rng) for _ in range(T)]
    if T == 0:
        return ser
    nan, inf = float('nan'), float('inf')
    for _ in range(rng.choice([0, 1, 1, 1, 2, 3])):
        pos = rng.choice([0, T - 1, T // 2, rng.randrange(T), rng.randrange(T)])
        ser[pos] = rng.choice([nan, nan, nan, inf, -inf, -0.0, 0.0])
    return ser


def draw_params(rng, nm, ns, pzero):
    """parameter column of a node: ordinary values, exactly 0 and the ends of the documented ranges"""
    z = rng.random() < pzero
    if nm == 'FixedPartition':
        return [rng.choice([0.0, 0.25, 0.5, 1.0, 0.3])]
    if nm == 'ApplyScalingFactor':
        return [0.0 if z else rng.choice([0.0, 1.0, 0.5, 2.0, 1.7])]
    if nm == 'Lag':
        return [float(rng.randint(0, ns))]
    if nm == 'Muskingum':
        return list(rng.choice(MUSK))
    if nm.startswith('DynamicSednetGully'):
        return [float(rng.randint(0, 2)), float(rng.randint(1, 3)), 1e4, rng.choice([0.0, 0.5, 1.0, 2.0, 3.0]), 10.0, 40.0, 1.0,
                rng.choice([0.0, 2.0]), rng.choice([0.0, 1.0, 1.5]), 50.0, 20.0, rng.choice([86400.0, 86400.0, 1e8])]
    if nm == 'FixedConcentration':
        return [0.0 if z else rng.choice([0.0, 0.1, 2.5, 10000.0])]
    if nm == 'EmcDwc':
        return [0.0, 0.0] if z else [rng.choice([0.0, 0.1, 3.0, 10000.0]), rng.choice([0.0, 0.1, 1.5, 10000.0])]
    if nm == 'PassLoadIfFlow':
        return [0.0 if z else rng.choice([0.0, 1.0, 0.5, 2.0])]
    if nm == 'DepthToRate':
        return [rng.choice([1.0, 3600.0, 86400.0]), 0.0 if z else rng.choice([0.0, 1.0, 1e4, 2.5e6])]
    return []


def value(rng):
    r = rng.random()
    if r < 0.45:
        return rng.randint(0, 40) / 8.0
    if r < 0.55:
        return 0.0
    return round(rng.uniform(0.0, 10.0), 3)        # not dyadic: the order of accumulation is observable


def gen_case(rng, cid, big=False, split=None, force=None):
    """A layered DAG over the catalogued models, as a dict."""
    force = force or {}
    G = force.get('G', rng.choice([1, 2, 2, 3, 3, 3, 4, 5] + ([6, 8] if big else [])))
    T = force.get('T', rng.choice([1, 2, 3, 5, 5, 20] + ([0] if rng.random() < 0.15 else [])))
    maxn = 6 if big else 4
    pool = sorted(force.get('pool') or CAT)
    names = rng.sample(pool, rng.randint(2, 6 if big else 5))
    if 'Input' not in names and rng.random() < (1.0 if force.get('special') else 0.8):
        names[0] = 'Input'
    for k, must in enumerate(force.get('must', [])):
        if must not in names:
            names[-1 - k] = must
    rng.shuffle(names)
    lagw = force.get('lagw') or rng.choice([1, 2, 3, 3, 4, 6])      # width of the Lag state rows (= the largest lag)
    models = []
    for nm in names:
        np_, ns, ni, no = CAT[nm]
        if ns is None:
            ns = lagw
        style = rng.random()
        counts = []
        for g in range(G):
            if style < 0.1:
                c = 0                                           # a model without any node
            elif style < 0.35 and g == 0:
                c = 0                                           # no first-generation nodes (final inputs written by default)
            elif style < 0.5 and g == G - 1:
                c = 0                                           # last batch empty
            else:
                c = rng.choice([0, 1, 1, 2, 3, maxn])
            counts.append(c)
        if nm == 'Input' and counts[0] == 0 and style >= 0.1:
            counts[0] = rng.randint(1, maxn)
        if force.get('equal') and nm in force.get('must', []):
            counts = [rng.choice([1, 2, 3])] * G          # the same number of nodes in every generation
        batches, acc = [], 0
        for c in counts:
            acc += c
            batches.append(acc)
        hasin = 1 if (nm in SOURCE_ONLY or rng.random() < (0.85 if nm == 'Input' else 0.3)) else 0
        models.append({'name': nm, 'batches': batches, 'counts': counts, 'np': np_, 'ns': ns, 'ni': ni, 'no': no,
                       'hasin': hasin, 'N': acc})
    if not any(m['N'] for m in models):
        models[0]['counts'][0] = 2
        models[0]['batches'] = [b + 2 for b in models[0]['batches']]
        models[0]['N'] += 2
    if not any(m['hasin'] for m in models):
        if rng.random() < 0.85:
            models[rng.randrange(len(models))]['hasin'] = 1
        else:
            T = 0            # nothing stored: the file does not say how long the series are; ow-sim simulates 0 steps
    # kernels that index element 0 of a series (StorageTrapAll) cannot run on empty series; Storage.FindDimensions
    # needs at least one parameter column: keep such files out (they crash inside the kernel / at start-up, which is
    # not what this property is about)
    if T == 0 and any(m['name'] in ('StorageTrapAll', 'Storage') and m['N'] > 0 for m in models):
        T = 1
        if not any(m['hasin'] for m in models):
            models[0]['hasin'] = 1
    for m in models:
        if m['name'] in DIMENSIONED and m['N'] == 0:     # FindDimensions of an empty table panics at start-up
            g0 = rng.randrange(G)
            m['counts'][g0] += 1
            m['batches'] = [b + (1 if g >= g0 else 0) for g, b in enumerate(m['batches'])]
            m['N'] = 1
            if T == 0 and m['name'] == 'Storage':
                T = 1
    if T > 0 and not any(m['hasin'] for m in models):
        models[0]['hasin'] = 1           # something must say how long the series are
    for m in models:
        nodes = []
        if m['name'] in DIMENSIONED:
            # every node has its own table size; the parameter rows are laid out for the largest one
            choices = [2, 3] if m['name'] == 'Storage' else [2, 2, 3, 4]
            m['dims'] = [rng.choice(choices) for _ in range(m['N'])]
            m['dimmax'] = max(m['dims'])
            m['np'] = (2 + 5 * m['dimmax']) if m['name'] == 'Storage' else (1 + 2 * m['dimmax'])
        if m['name'] == 'GR4J':
            m['x4'] = [rng.choice([0.5, 1.0, 1.4, 2.5, 4.0]) for _ in range(m['N'])]
            m['ns'] = 4 + max([math.ceil(x) + math.ceil(2 * x) for x in m['x4']] or [3])
        for row in range(m['N']):
            nm = m['name']
            p = draw_params(rng, nm, m['ns'], force.get('pzero', 0.1))
            s = [value(rng) for _ in range(m['ns'])]
            if nm == 'GR4J':
                x4 = m['x4'][row]
                n1, n2 = math.ceil(x4), math.ceil(2 * x4)
                x1, x3 = rng.choice([1.0, 350.0, 1500.0]), rng.choice([1.0, 90.0, 500.0])
                p = [x1, rng.choice([-10.0, 0.0, 1.5, 5.0]), x3, x4]
                s = [x1 * rng.choice([0.0, 0.3, 1.0]), x3 * rng.choice([0.0, 0.5, 1.0]), float(n1), float(n2)] + \
                    [rng.randint(0, 8) / 8.0 for _ in range(n1 + n2)]
                s += [0.0] * (m['ns'] - len(s))
            if nm in DIMENSIONED:
                p, s0 = dim_params(rng, nm, m['dims'][row], m['dimmax'])
                s = s0 or s
            inp = [[(rng.choice([0.0, 0.25, 0.5, 1.0]) if (nm == 'VariablePartition' and k == 1) else
                     0.0 if (nm == 'Storage' and k >= 4) else value(rng))
                    for _ in range(T)] for k in range(m['ni'])] if m['hasin'] else None
            if inp is not None and force.get('special'):
                inp = [special_series(rng, T) if rng.random() < 0.7 else row for row in inp]
            nodes.append((p, s, inp))
        m['nodes'] = nodes

    def gen_of(m, row):
        for g, b in enumerate(m['batches']):
            if row < b:
                return g
    links = []
    fanin = 0
    has_rating = any(m['name'] == 'RatingCurvePartition' for m in models)
    for di, dm in enumerate(models):
        if dm['name'] in SOURCE_ONLY:
            continue
        for drow in range(dm['N']):
            dg = gen_of(dm, drow)
            if dg == 0:
                continue
            cands = [(si, srow) for si, sm in enumerate(models) for srow in range(sm['N']) if gen_of(sm, srow) < dg
                     and not (has_rating and sm['name'] in NAN_SOURCES)]
            if not cands:
                continue
            for dv in range(dm['ni']):
                k = rng.choice([0, 1, 1, 2, 3])
                fanin = max(fanin, k)
                for _ in range(k):
                    si, srow = rng.choice(cands)
                    sm = models[si]
                    sg = gen_of(sm, srow)
                    sstart = sm['batches'][sg - 1] if sg > 0 else 0
                    dstart = dm['batches'][dg - 1]
                    links.append((sg, si, srow, srow - sstart, rng.randrange(sm['no']),
                                  dg, di, drow, drow - dstart, dv))
    rng.shuffle(links)
    links.sort(key=lambda l: l[0])
    flags = []
    # entries: names of the graph, other catalogue names (in particular those of which a graph name is a proper
    # prefix, and proper prefixes of graph names), made-up extensions / truncations of graph names, unknown names
    here = [m['name'] for m in models]
    related = [n for n in CATALOGUE_NAMES if n not in here and any(n.startswith(h) or h.startswith(n) for h in here)]
    madeup = [h + sfx for h in here for sfx in ('Alt', '2')] + [h[:-1] for h in here if len(h) > 2] + [h[:3] for h in here]

    def entry():
        r = rng.random()
        if r < 0.45 or not (related or madeup):
            return rng.choice(here)
        if r < 0.65 and related:
            return rng.choice(related)
        if r < 0.85:
            return rng.choice(madeup)
        return rng.choice(CATALOGUE_NAMES + ['NoSuchModel'])
    pflag = force.get('pflag', 0.3)
    for fl in ('-outputs-for', '-no-outputs-for', '-inputs-for', '-no-inputs-for'):
        if rng.random() < pflag:
            ents = []
            for _ in range(rng.choice([1, 1, 2, 3])):
                e = entry()
                if e not in ents:
                    ents.append(e)
            flags += [fl, ','.join(ents)]
    if rng.random() < 0.1:
        flags.append(rng.choice(['-v', '-verbose']))
    if rng.random() < 0.04:
        flags += ['-cpuprofile', 'cpu.prof']
    outfile = force.get('outfile', 0 if rng.random() < 0.06 else 1)
    # where ow-sim is told to find the time series / parameters / initial states (0: structure file, 1: only in the file
    # named by -input-timeseries / -parameters / -initial-states, 2: there, with a decoy copy in the structure file) and
    # what is in the way of the output file (1: stale file + -overwrite, 2: stale file, no -overwrite: must refuse,
    # 3: -overwrite with nothing to overwrite)
    layout = force.get('layout') or (rng.choice([0, 0, 0, 1, 1, 2]), rng.choice([0, 0, 0, 1, 2]), rng.choice([0, 0, 0, 1, 2]),
                                     rng.choice([0, 0, 0, 0, 0, 1, 1, 2, 3]) if outfile and not split else 0)
    return {'id': cid, 'T': T, 'G': G, 'models': models, 'links': links,
            'outfile': outfile, 'flags': flags, 'split': list(split or []),
            # 1: -final-states <fresh file>; 2: into the file the initial states are read from (hot-start file updated in
            # place); 3: into the structure file; 4: into the time-series file
            'finalstates': force.get('finalstates', 0 if (split or rng.random() < 0.7) else rng.choice([1, 1, 2, 2, 2, 3, 3, 4])),
            'fanin': fanin, 'layout': tuple(layout),
            'special': bool(force.get('special')), 'recycle_prone': bool(force.get('equal'))}



def gen_wide(rng, cid):
    """One generation with many (>= 300) outgoing links converging on the SAME few input series: hundreds of Input
    nodes in generation 0, all linked into the 2 inputs of 1-3 Sum nodes of generation 1, and a small tail.  All values
    are small integers, so the sum is exact in ANY order of accumulation: only a lost or duplicated contribution can
    make the result differ from the sequential reference."""
    S = rng.randint(300, 600)
    k = rng.randint(1, 3)
    T = rng.choice([48, 64, 96])

    def mk(nm, counts, hasin, **kw):
        np_, ns, ni, no = CAT[nm]
        batches, acc = [], 0
        for c in counts:
            acc += c
            batches.append(acc)
        return dict({'name': nm, 'batches': batches, 'counts': counts, 'np': np_, 'ns': ns or 0, 'ni': ni, 'no': no,
                     'hasin': hasin, 'N': acc}, **kw)
    models = [mk('Input', [S, 0, 0], 1), mk('Sum', [0, k, 0], 0), mk('ApplyScalingFactor', [0, 0, 2], 0),
              mk('Gate', [0, 1, 1], 0)]
    rng.shuffle(models)
    idx = {m['name']: i for i, m in enumerate(models)}
    for m in models:
        m['nodes'] = []
        for row in range(m['N']):
            p = [2.0] if m['name'] == 'ApplyScalingFactor' else []
            inp = [[float(rng.randint(0, 7)) for _ in range(T)] for _ in range(m['ni'])] if m['hasin'] else None
            m['nodes'].append((p, [], inp))
    links = []
    for srow in range(S):
        for _ in range(rng.choice([1, 1, 2])):
            dn, dv = rng.randrange(k), rng.randrange(2)
            links.append((0, idx['Input'], srow, srow, 0, 1, idx['Sum'], dn, dn, dv))
        if rng.random() < 0.1:
            links.append((0, idx['Input'], srow, srow, 0, 1, idx['Gate'], 0, 0, rng.randrange(2)))
    for dn in range(k):                        # tail: generation 1 -> generation 2
        for trow in range(2):
            links.append((1, idx['Sum'], dn, dn, 0, 2, idx['ApplyScalingFactor'], trow, trow, 0))
        links.append((1, idx['Sum'], dn, dn, 0, 2, idx['Gate'], 1, 0, rng.randrange(2)))
    rng.shuffle(links)
    links.sort(key=lambda l: l[0])
    return {'id': cid, 'T': T, 'G': 3, 'models': models, 'links': links, 'outfile': 1,
            'flags': ['-inputs-for', 'Sum,Gate'], 'split': [], 'finalstates': 0, 'fanin': S, 'wide': True}

def zero_nan_links(cd):
    """number of links whose source is an Input node with a stored series made of zeros and NaNs only, the first a zero"""
    n = 0
    for l in cd['links']:
        m = cd['models'][l[1]]
        if m['name'] == 'Input' and m.get('hasin') and m.get('nodes'):
            ser = m['nodes'][l[2]][2][0]
            if ser and ser[0] == 0 and any(x != x for x in ser) and all(x != x or x == 0 for x in ser):
                n += 1
    return n


def case_tokens(c):
    t = ['CASE', c['id'], 'T', str(c['T']), 'NMODELS', str(len(c['models']))]
    for m in c['models']:
        t += ['MODEL', m['name'], 'G', str(len(m['batches']))] + [str(b) for b in m['batches']]
        t += ['NP', str(m['np']), 'NS', str(m['ns']), 'NI', str(m['ni']), 'NO', str(m['no']),
              'HASIN', str(m['hasin']), 'N', str(m['N'])]
        for (p, s, inp) in m['nodes']:
            t.append('NODE')
            t += [f2h(v) for v in p] + [f2h(v) for v in s]
            if m['hasin']:
                for row in inp:
                    t += [f2h(v) for v in row]
    t += ['NLINKS', str(len(c['links']))]
    for l in c['links']:
        t += ['LINK'] + [str(x) for x in l]
    t += ['OUTFILE', str(c['outfile']), 'FLAGS', str(len(c['flags']))] + c['flags']
    t += ['SPLIT', str(len(c['split']))] + c['split'] + ['FINALSTATES', str(c['finalstates'])]
    if any(c.get('layout', ())):
        t += ['LAYOUT'] + [str(x) for x in c['layout']]
    t.append('END')
    return t


def parse_case_tokens(toks, cid=None):
    """tokens of a case file -> the dict fields needed by the checks (corpus files)."""
    it = iter(toks)

    def nxt():
        return next(it)

    def expect(k):
        x = nxt()
        assert x == k, (k, x)
    expect('CASE')
    c = {'id': nxt(), 'models': [], 'links': []}
    expect('T')
    c['T'] = int(nxt())
    expect('NMODELS')
    nm = int(nxt())
    for _ in range(nm):
        expect('MODEL')
        m = {'name': nxt()}
        expect('G')
        g = int(nxt())
        m['batches'] = [int(nxt()) for _ in range(g)]
        for k in ('np', 'ns', 'ni', 'no', 'hasin', 'N'):
            nxt()
            m[k] = int(nxt())
        for _ in range(m['N']):
            expect('NODE')
            for _ in range(m['np'] + m['ns'] + (m['ni'] * c['T'] if m['hasin'] else 0)):
                nxt()
        m['counts'] = [b - (m['batches'][i - 1] if i else 0) for i, b in enumerate(m['batches'])]
        c['models'].append(m)
    expect('NLINKS')
    for _ in range(int(nxt())):
        expect('LINK')
        c['links'].append(tuple(int(nxt()) for _ in range(10)))
    expect('OUTFILE')
    c['outfile'] = int(nxt())
    expect('FLAGS')
    c['flags'] = [nxt() for _ in range(int(nxt()))]
    expect('SPLIT')
    c['split'] = [nxt() for _ in range(int(nxt()))]
    expect('FINALSTATES')
    c['finalstates'] = int(nxt())
    c['layout'] = (0, 0, 0, 0)
    if nxt() == 'LAYOUT':
        c['layout'] = tuple(int(nxt()) for _ in range(4))
    c['G'] = len(c['models'][-1]['batches']) if c['models'] else 0
    c['fanin'] = 0
    return c


def requested(nm, flags, incl, excl, dflt):
    def val(k):
        for i in range(len(flags) - 1):
            if flags[i] == k:
                return [x for x in flags[i + 1].split(',')]
        return []
    if nm in val(incl):
        return True
    if nm in val(excl):
        return False
    return dflt


def canon(rec):
    """dataset record with every NaN bit pattern replaced by the canonical quiet NaN (payloads are not compared)"""
    if ':' not in rec:
        return rec
    h, v = rec.split(':', 1)
    toks = v.split()
    for i, t in enumerate(toks):
        if len(t) == 16 and t[0] in '7f' and t[:3].lower() in ('7ff', 'fff') and t[3:] != '0' * 13:
            toks[i] = '7ff8000000000000'
    return (h.strip() + ' : ' + ' '.join(toks)).strip()


def parse_simgen(text):
    """-> {casefile: {'run':..., 'trace': [...], 'IMPL': {(model,label): rec}, 'ORACLE':..., ...}}"""
    res, cur = {}, None
    for line in text.split('\n'):
        if not line:
            continue
        t = line.split(' ', 1)
        k = t[0]
        rest = t[1] if len(t) > 1 else ''
        if k == 'BEGIN':
            cur = {'run': {}, 'children': {}, 'trace': [], 'IMPL': {}, 'ORACLE': {}, 'IMPLMAIN': {}, 'IMPLATEXIT': {},
                   'log': [], 'other': []}
            res[rest.split()[0]] = cur
        elif cur is None:
            continue
        elif k == 'RUN':
            cur['run'] = dict(x.split('=') for x in rest.split())
        elif k == 'CHILDREN':
            cur['children'] = dict(x.split('=') for x in rest.split())
        elif k == 'TRACE':
            cur['trace'].append(tuple(rest.split()))
        elif k in ('IMPL', 'ORACLE', 'IMPLMAIN', 'IMPLATEXIT'):
            p = rest.split(' ', 2)
            cur[k][(p[0], p[1])] = canon(' '.join(p[2].split())) if len(p) > 2 else ''
        elif k == 'LOG':
            cur['log'].append(rest)
        elif k == 'END':
            cur = None
        else:
            cur['other'].append(line)
    return res


def parse_model(line):
    """driver output -> {'VALID':b, 'MIMPL': {(model,label): rec} | 'FAIL', 'MREF':..., 'MSCHED':..., 'PROTO': {...}}"""
    out = {'VALID': None, 'MIMPL': {}, 'MREF': {}, 'MSCHED': {}, 'RIMPL': {}, 'PROTO': None, 'raw': line[:200]}
    for rec in line.split(' | '):
        p = rec.split(' ', 3)
        if p[0] == 'VALID':
            out['VALID'] = p[1] == '1'
        elif p[0] in ('MIMPL', 'MREF', 'MSCHED', 'RIMPL'):
            if p[1] == 'FAIL':
                out[p[0]] = 'FAIL'
            else:
                out[p[0]][(p[1], p[2])] = canon(' '.join(p[3].split())) if len(p) > 3 else ''
        elif p[0] == 'PROTO':
            out['PROTO'] = dict(x.split('=') for x in rec.split()[1:])
    return out


def main():
    # (the replay file lives in out/C07, which Check() empties: read it first)
    replay = None
    if '--replay' in sys.argv:
        rp = sys.argv[sys.argv.index('--replay') + 1]
        try:
            rj = json.load(open(rp))
            replay = rj.get('case_file_content')
        except (OSError, ValueError):
            replay = open(rp).read() if os.path.exists(rp) else None
        if not replay:
            print('replay file has no case_file_content (no concrete input was found for that violation): %s' % rp)
            sys.exit(2)
        # a replay must not replace the evidence of the last full run
        evp = os.path.join(VERIF, 'evidence', 'C07.json')
        if os.path.exists(evp):
            import atexit
            old_ev = open(evp).read()
            atexit.register(lambda: open(evp, 'w').write(old_ev))
    c = Check('C07')
    c.prove()
    quick = c.tier == 'quick'
    rng = c.rng
    notes = []
    if not quick and not c.proof_broken:
        # independent re-check of the compiled theorems and everything they depend on
        try:
            with c07hooks._Lock():
                out = sh('timeout 2400 coqchk -silent -o -Q . OW OW.Properties.C07', cwd=COQ, timeout=2500)
            ax = out.split('* Axioms:')[1].split('*')[0].strip() if '* Axioms:' in out else '?'
            notes.append('coqchk OW.Properties.C07: ok, axioms: ' + ax)
        except BuildError as e:
            c.proof_broken = ('coqchk OW.Properties.C07', e.output[-3000:])
    try:
        import glob as _g
        build_driver(sorted({os.path.basename(f)[:-8] for f in _g.glob(os.path.join(OCAML, 'registry.d', '*.kernels'))}) + ['c07'])
        build_harness(['simgen'])
        owsim, note, missing = c07hooks.build_owsim(race=False)
        notes.append(note)
        if missing:
            notes.append('hook anchors not found in main.go: %r' % (missing,))
        owsim_plain, _, _ = c07hooks.build_owsim(plain=True)
        owsim_race = owsim_plain_race = None
        if not quick:
            owsim_race, _, _ = c07hooks.build_owsim(race=True)
            owsim_plain_race, _, _ = c07hooks.build_owsim(race=True, plain=True)
    except BuildError as e:
        c.violation('build_broken.json', {'kind': 'build-broken', 'what': e.what, 'output_tail': e.output[-3000:]}, no_input=True)
        c.finish(assumptions=['build failed'])
        return
    work = tempfile.mkdtemp(prefix='c07-', dir=OUT)
    casedir = os.path.join(work, 'cases')
    os.makedirs(casedir)
    cases = {}          # file name -> dict

    def add(cd, toks=None):
        fn = os.path.join(casedir, cd['id'] + '.case')
        toks = toks or case_tokens(cd)
        with open(fn, 'w') as f:
            f.write(' '.join(toks) + '\n')
        cd['tokens'] = toks
        cd['file'] = fn
        cases[fn] = cd

    if replay:
        toks = replay.split()
        cd = parse_case_tokens(toks)
        cd['id'] = 'replay_' + cd['id']
        toks[1] = cd['id']
        add(cd, toks)
    # corpus (hand-designed cases: fan-in graph, empty batches, flags, T=0/1, zero-node models, split mode)
    corpus = os.path.join(VERIF, 'corpus', 'C07')
    for fn in ([] if replay else sorted(glob.glob(os.path.join(corpus, '*.case')))):
        toks = open(fn).read().split()
        cd = parse_case_tokens(toks)
        cd['id'] = 'corpus_' + cd['id']
        toks[1] = cd['id']
        cd['corpus'] = True
        add(cd, toks)
    n = 0 if replay else (70 if quick else 600)
    for i in range(n):
        add(gen_case(rng, 'g%04d' % i, big=(not quick and i % 3 == 0)))
    # graphs that certainly contain a model with table parameters (per-node table sizes, several generations)
    for i in range(0 if replay else (8 if quick else 60)):
        add(gen_case(rng, 'd%04d' % i, force={'must': [['RatingCurvePartition'], ['Storage'], ['RatingCurvePartition', 'Storage']][i % 3],
                                               'G': rng.choice([3, 4, 5])}))
    # IEEE special values (NaN, +-Inf, -0; first / middle / last position; otherwise-zero and mixed series) in the stored
    # series of graphs over the models that take any value: they must travel through the links bit for bit
    for i in range(0 if replay else (10 if quick else 60)):
        add(gen_case(rng, 'n%04d' % i, force={'special': True, 'pool': IEEE_TOLERANT, 'T': rng.choice([5, 12, 20]),
                                               'G': rng.choice([2, 3, 4])}))
    # state rows wider than the run is long: several Lag (and GR4J) nodes per generation with differing lags up to 4-8
    # steps and only 1-3 time steps, so that the "lag longer than the window" paths run next to each other
    for i in range(0 if replay else (8 if quick else 50)):
        add(gen_case(rng, 'l%04d' % i, force={'must': [['Lag'], ['Lag'], ['Lag', 'GR4J']][i % 3], 'equal': True, 'pzero': 0.1,
                                               'lagw': rng.choice([4, 5, 6, 8]), 'T': rng.choice([1, 2, 3]),
                                               'G': rng.choice([2, 3, 4])}))
    # many generations of EQUAL size of the models whose kernels return early on a parameter that is exactly 0, some
    # nodes with that parameter 0 and others not, output file given; run with delays so that the writer goroutines keep
    # up with the main loop (generations are written and purged while later ones are still to be simulated)
    recycle_files = []
    for i in range(0 if replay else (10 if quick else 60)):
        must = rng.sample(sorted(ZERO_PARAM_MODELS), rng.choice([1, 2, 2]))
        cd = gen_case(rng, 'z%04d' % i, force={'must': must, 'equal': True, 'pzero': 0.4, 'G': rng.choice([5, 6, 8]),
                                                'outfile': 1, 'pflag': 0.1, 'T': rng.choice([5, 20])})
        add(cd)
        recycle_files.append(cd['file'])
    # wide graphs (one generation with hundreds of links into the same input series), each run several times
    # rep 0: the hooked binary (trace checked); reps 1..: the binary as shipped (no verif tag: no trace, goroutines not
    # serialised on the trace mutex), all cores; thorough: one more rep under the race detector
    wide_files, wide_plain_files, wide_race_files = [], [], []
    for i in range(0 if replay else (2 if quick else 6)):
        base = gen_wide(rng, 'w%02d' % i)
        for rep in range(4 if quick else 7):
            cd = dict(base)
            cd['id'] = 'w%02d_r%d' % (i, rep)
            toks = case_tokens(base)
            toks[1] = cd['id']
            cd['notrace'] = rep > 0
            add(cd, toks)
            (wide_files if rep == 0 else wide_race_files if rep == 6 else wide_plain_files).append(cd['file'])
    # the external-writer mode (known findings): a few cases, one with an empty last batch
    for i in range(0 if replay else (2 if quick else 8)):
        cd = gen_case(rng, 's%04d' % i)
        cands = [m['name'] for m in cd['models'] if m['N'] > 0]
        cd['split'] = [rng.choice(cands)]
        cd['outfile'] = 1
        cd['finalstates'] = min(cd['finalstates'], 1)
        add(cd)

    # ---- run the real ow-sim (several simgen processes in parallel, different scheduling conditions)
    files = sorted(cases)
    nproc = 8
    small = [f for f in files if f not in wide_files + wide_plain_files + wide_race_files + recycle_files]
    groups = [small[i::nproc] for i in range(nproc)]
    # the wide graphs: all cores, no injected delays; thorough: once more under the race detector
    groups.append(wide_files)
    groups.append(wide_plain_files)
    groups.append(wide_race_files)
    groups.append(recycle_files[0::2])
    groups.append(recycle_files[1::2])
    conds = []
    for gi in range(len(groups)):
        env = dict(GOENV)
        if gi >= nproc + 3:          # the equal-sized-generation graphs: delays at every trace point
            env['GOMAXPROCS'] = ['4', '16'][gi - nproc - 3]
            env['VERIF_JITTER_US'] = ['2500', '1200'][gi - nproc - 3]
            env['VERIF_JITTER_SEED'] = str(c.seed * 100 + gi)
            conds.append(env)
            continue
        if gi >= nproc:
            env['GOMAXPROCS'] = '16'
            env['VERIF_JITTER_US'] = '0'
            conds.append(env)
            continue
        if quick:
            env['GOMAXPROCS'] = ['1', '2', '16', '4'][gi % 4]
            env['VERIF_JITTER_US'] = ['0', '400', '3000', '0', '1500', '0', '800', '3000'][gi]
        else:
            env['GOMAXPROCS'] = ['1', '2', '16'][gi % 3]
            env['VERIF_JITTER_US'] = ['0', '400', '3000', '0', '1500', '6000', '800', '3000'][gi]
        env['VERIF_JITTER_SEED'] = str(c.seed * 100 + gi)
        conds.append(env)
    procs = []
    for gi, grp in enumerate(groups):
        if not grp:
            continue
        binp = owsim_race if (owsim_race and gi % 2 == 1) else owsim
        if gi >= nproc:
            binp = [owsim, owsim_plain, owsim_plain_race, owsim, owsim_race or owsim][gi - nproc]
        wd = os.path.join(work, 'w%d' % gi)
        os.makedirs(wd)
        outf = open(os.path.join(work, 'simgen%d.out' % gi), 'w')
        p = subprocess.Popen([os.path.join(HARNESS, 'bin', 'simgen'), '-bin', binp, '-work', wd, '-timeout', '60'] + grp,
                             stdout=outf, stderr=subprocess.STDOUT, env=conds[gi])
        procs.append((p, outf, gi, binp))
    results = {}
    for p, outf, gi, binp in procs:
        try:
            p.wait(timeout=3000)
        except subprocess.TimeoutExpired:
            p.kill()
        outf.close()
        r = parse_simgen(open(outf.name).read())
        for k, v in r.items():
            v['cond'] = {'GOMAXPROCS': conds[gi].get('GOMAXPROCS'), 'jitter_us': conds[gi].get('VERIF_JITTER_US'),
                         'race': binp.endswith('-race')}
        results.update(r)

    # ---- the extracted models on the same graphs, under the observed traces
    # The kernel family K of the extracted models is the table of what the Go kernels returned when
    # simgen's oracle ran every node alone (so this check decides the simulation layer only; the Coq
    # models of the kernels themselves belong to C10-C16 and are reported here as RIMPL for information).
    def oracle_section(cd, r):
        parts, k = [], 0
        for m in cd['models']:
            recs = [r['ORACLE'].get((m['name'], lab)) for lab in ('inputs', 'outputs', 'states')]
            if m['N'] == 0 or any(x is None or x == 'NONE' or ':' not in x for x in recs):
                continue
            try:
                hd = [x.split(':')[0].split() for x in recs]
                vals = [x.split(':', 1)[1].split() for x in recs]
                n, ni, t = int(hd[0][1]), int(hd[0][2]), int(hd[0][3])
                no, ns = int(hd[1][2]), int(hd[2][2])
                if int(hd[1][1]) != n or int(hd[2][1]) != n or int(hd[1][3]) != t or n != m['N']:
                    continue
                if len(vals[0]) != n * ni * t or len(vals[1]) != n * no * t or len(vals[2]) != n * ns:
                    continue
            except (ValueError, IndexError):
                continue
            parts += ['OM', m['name'], str(n), str(ni), str(no), str(ns), str(t)] + vals[0] + vals[1] + vals[2]
            k += 1
        return ['ORACLE', str(k)] + parts
    lines = []
    for fn in files:
        r0 = results.get(fn, {'trace': [], 'ORACLE': {}})
        tr = r0['trace']
        lines.append('SIM ' + ' '.join(cases[fn]['tokens']) + ' ' + ' '.join(oracle_section(cases[fn], r0)) +
                     ' TRACE %d ' % len(tr) + ' '.join(' '.join(t) for t in tr))
    mres = run_model(lines, timeout=1800)

    stats = {'runs': 0, 'putback_runs': 0, 'main_putback_runs': 0, 'distinct_traces': set(), 'max_G': 0, 'links': 0,
             'fanin_ge2': 0, 'empty_batches': 0, 'last_batch_empty': 0, 'no_stored_inputs_models': 0, 'nooutfile': 0,
             'flag_cases': 0, 'split_cases': 0, 'finalstates_cases': 0, 'T_values': set(), 'race_runs': 0,
             'coq_kernel_models_disagree_with_go_kernels': 0}
    for fn, ml in zip(files, mres):
        cd = cases[fn]
        r = results.get(fn)
        name = os.path.basename(fn)
        if r is None:
            c.violation('missing_%s.json' % cd['id'], {'kind': 'harness-produced-no-result', 'case_file': fn,
                                                        'case': ' '.join(cd['tokens'])})
            continue
        mo = parse_model(ml)
        stats['runs'] += 1
        stats['max_G'] = max(stats['max_G'], cd['G'])
        stats['links'] += len(cd['links'])
        stats['T_values'].add(cd['T'])
        stats['race_runs'] += 1 if r['cond']['race'] else 0
        evs = [t[0].split(':')[0] for t in r['trace']]
        stats['putback_runs'] += 1 if 'putback' in evs else 0
        stats['main_putback_runs'] += 1 if 'main-putback' in evs else 0
        stats['distinct_traces'].add(hashlib.sha1(repr(r['trace']).encode()).hexdigest())
        purged_gens, early_purge = set(), False
        for t in r['trace']:
            if t[0].startswith('purged:'):
                purged_gens.add(int(t[1]))
            elif t[0] == 'ran' and purged_gens:
                early_purge = True          # a generation was purged while a later one was still to be simulated
        stats['runs_with_a_purge_before_a_later_generation_ran'] = \
            stats.get('runs_with_a_purge_before_a_later_generation_ran', 0) + (1 if early_purge else 0)
        if cd.get('special'):
            stats['ieee_special_value_cases'] = stats.get('ieee_special_value_cases', 0) + 1
            stats['ieee_special_value_links_from_zero_plus_nan_series'] = \
                stats.get('ieee_special_value_links_from_zero_plus_nan_series', 0) + zero_nan_links(cd)
        if cd.get('recycle_prone'):
            stats['equal_generation_zero_parameter_cases'] = stats.get('equal_generation_zero_parameter_cases', 0) + 1
            stats['equal_generation_zero_parameter_cases_purged_early'] = \
                stats.get('equal_generation_zero_parameter_cases_purged_early', 0) + (1 if early_purge else 0)
        anyempty = any(x == 0 for m in cd['models'] for x in m['counts'])
        lastempty = any(m['counts'] and m['counts'][-1] == 0 and m['N'] > 0 for m in cd['models'])
        stats['empty_batches'] += 1 if anyempty else 0
        stats['last_batch_empty'] += 1 if lastempty else 0
        stats['no_stored_inputs_models'] += sum(1 for m in cd['models'] if not m['hasin'] and m['N'] > 0)
        stats['nooutfile'] += 1 if not cd['outfile'] else 0
        stats['flag_cases'] += 1 if cd['flags'] else 0
        stats['split_cases'] += 1 if cd['split'] else 0
        stats['finalstates_cases'] += 1 if cd['finalstates'] else 0
        if cd['finalstates'] >= 2 and cd['outfile']:
            key_ = 'final_states_written_into_' + ['', '', 'the_initial_states_file', 'the_structure_file', 'the_timeseries_file'][cd['finalstates']]
            stats[key_] = stats.get(key_, 0) + 1
            if cd['finalstates'] == 2 or (cd['finalstates'] == 3 and cd.get('layout', (0, 0, 0, 0))[2] == 0):
                if any(m['ns'] > 0 and sum(1 for x in m['counts'] if x) >= 2 for m in cd['models']):
                    stats['hot_start_file_updated_in_place_stateful_multi_generation'] = \
                        stats.get('hot_start_file_updated_in_place_stateful_multi_generation', 0) + 1
        for m in cd['models']:
            if m['name'] == 'Lag' and m.get('nodes') and cd['T'] > 0:
                lo = 0
                for b in m['batches']:
                    lags = [int(m['nodes'][r_][0][0]) for r_ in range(lo, b)]
                    if len(lags) >= 2 and any(x > cd['T'] for x in lags[:-1]):
                        stats['lag_longer_than_run_beside_another_node'] = stats.get('lag_longer_than_run_beside_another_node', 0) + 1
                        break
                    lo = b
        stats['fanin_ge2'] += 1 if cd.get('fanin', 0) >= 2 else 0
        nontrivial = cd['G'] >= 2 and len(cd['links']) >= 1
        c.count(cd['id'], nontrivial=nontrivial)
        replay = {'case_file_content': ' '.join(cd['tokens']), 'run': r['run'], 'children': r['children'],
                  'conditions': r['cond'], 'trace': [' '.join(t) for t in r['trace']], 'log': r['log'][-15:],
                  'how_to_replay': 'write case_file_content to x.case; %s -bin %s -work /tmp/w x.case' %
                                   (os.path.join(HARNESS, 'bin', 'simgen'), owsim)}
        if mo['VALID'] is None:
            c.corr_broken.append({'case': cd['id'], 'diff': 'model driver: ' + ml[:200]})
            continue
        exit_ok = r['run'].get('exit') == '0' and r['run'].get('timeout') == '0'
        lay = cd.get('layout', (0, 0, 0, 0))
        for k, nm_ in enumerate(('timeseries', 'parameters', 'initial_states')):
            if lay[k]:
                key_ = 'separate_%s_file_%s' % (nm_, 'only' if lay[k] == 1 else 'with_decoy_in_structure_file')
                stats[key_] = stats.get(key_, 0) + 1
        if lay[3]:
            key_ = ['', 'stale_output_overwritten', 'stale_output_refused', 'overwrite_flag_nothing_to_overwrite'][lay[3]]
            stats[key_] = stats.get(key_, 0) + 1
        for fl_ in ('-v', '-verbose', '-cpuprofile'):
            if fl_ in cd['flags']:
                stats['flag' + fl_.replace('-', '_')] = stats.get('flag' + fl_.replace('-', '_'), 0) + 1
        dimm = [m for m in cd['models'] if m.get('dims') and m['N'] > 0]
        if dimm:
            stats['dimensioned_model_cases'] = stats.get('dimensioned_model_cases', 0) + 1
            below = 0
            for m in dimm:
                lo = 0
                for b in m['batches']:
                    if b > lo and max(m['dims'][lo:b]) < m['dimmax']:
                        below += 1
                    lo = b
            if below:
                stats['dimensioned_cases_with_a_generation_below_model_maximum'] = \
                    stats.get('dimensioned_cases_with_a_generation_below_model_maximum', 0) + 1
        if mo['VALID'] and lay[3] == 2:
            # an output file is in the way and -overwrite was not given: ow-sim must refuse and leave the file alone
            pre = [l for l in r['other'] if l.startswith('PREEXIST')]
            if r['run'].get('exit') != '1' or not pre or 'unchanged=1' not in pre[0]:
                c.violation('existing_output_%s.json' % cd['id'],
                            dict(replay, kind='existing-output-file-not-protected-without-overwrite', preexist=pre))
            continue
        if not mo['VALID']:
            # not a valid graph file (corpus only): the model must fail iff the program fails
            if (mo['MIMPL'] == 'FAIL') != (not exit_ok):
                c.corr_broken.append({'case': cd['id'], 'diff': 'invalid graph: model %s, program exit %s' %
                                      (mo['MIMPL'] == 'FAIL', r['run'])})
            continue
        # ---- liveness
        if not exit_ok:
            kind = 'timeout-possible-deadlock' if r['run'].get('timeout') == '1' else 'ow-sim-failed'
            c.violation('%s_%s.json' % (kind, cd['id']), dict(replay, kind=kind))
            continue
        split_last_empty = any(m['name'] in cd['split'] and m['counts'][-1] == 0 for m in cd['models'])
        if int(r['children'].get('alive_at_exit', '0')) > 0:
            c.violation('child_alive_%s.json' % cd['id'],
                        dict(replay, kind='external-writer-still-running-when-ow-sim-exited',
                             at_exit={'%s %s' % k: v[:120] for k, v in r['IMPLATEXIT'].items()}),
                        key='split-last-empty-no-wait' if split_last_empty else None)
        # ---- the property oracle on the implementation's files
        bad = None
        for m in cd['models']:
            for label in ('inputs', 'outputs', 'states'):
                impl = r['IMPL'].get((m['name'], label))
                orc = r['ORACLE'].get((m['name'], label))
                if label == 'outputs':
                    want = requested(m['name'], cd['flags'], '-outputs-for', '-no-outputs-for', True)
                elif label == 'inputs':
                    want = requested(m['name'], cd['flags'], '-inputs-for', '-no-inputs-for', m['batches'][0] == 0)
                else:
                    want = True
                must = bool(cd['outfile']) and m['N'] > 0 and want
                if must and impl != orc:
                    if bad is not None:
                        continue            # one replay file per case (the first differing dataset)
                    key = None
                    if m['name'] in cd['split'] and label == 'states' and impl == 'NONE' and \
                            mo['MIMPL'] != 'FAIL' and mo['MIMPL'].get((m['name'], 'states')) == 'NONE':
                        key = 'split-no-states'
                    v = c.violation('oracle_%s.json' % cd['id'],
                                    dict(replay, kind='result-differs-from-sequential-reference', model=m['name'],
                                         dataset=label, implementation=(impl or '')[:400], reference=(orc or '')[:400]),
                                    key=key)
                    if v and bad is None:
                        bad = (m['name'], label)
        # ---- correspondence model <-> code
        for tag in (('MIMPL',) if cd.get('notrace') else ('MSCHED', 'MIMPL')):
            if mo[tag] == 'FAIL':
                c.corr_broken.append({'case': cd['id'], 'diff': '%s fails but ow-sim succeeded' % tag})
                continue
            for m in cd['models']:
                for label in ('inputs', 'outputs', 'states'):
                    a = r['IMPL'].get((m['name'], label))
                    b = mo[tag].get((m['name'], label))
                    if not cd['outfile']:
                        a = 'NONE'
                    if label == 'states' and cd['finalstates'] >= 2 and m['N'] == 0:
                        a = 'NONE'      # the (empty) initial-states dataset of the input file the final states go to
                    if a != b:
                        c.corr_broken.append({'case': cd['id'], 'diff': '%s %s %s impl=%s model=%s' %
                                              (tag, m['name'], label, (a or '')[:120], (b or '')[:120])})
        if mo['RIMPL'] and mo['RIMPL'] != mo['MIMPL']:
            stats['coq_kernel_models_disagree_with_go_kernels'] += 1      # information for C10-C16, not a C07 matter
        if not cd['split'] and mo['MIMPL'] != mo['MREF']:
            c.corr_broken.append({'case': cd['id'], 'diff': 'extracted impl_sim <> ref_sim on a valid graph (theorem instance)'})
        # ---- protocol
        pr = mo['PROTO'] or {}
        if cd.get('notrace'):
            stats['runs_without_trace_hooks'] = stats.get('runs_without_trace_hooks', 0) + 1
        elif not (pr.get('accepts') == '1' and pr.get('exited') == '1' and pr.get('legal') == '1'):
            c.violation('protocol_%s.json' % cd['id'],
                        dict(replay, kind='trace-not-a-run-of-the-protocol-model', acceptor=pr))
        if stats['runs'] % 23 == 1:
            c.sample({'case': cd['id'], 'G': cd['G'], 'T': cd['T'], 'models': [(m['name'], m['batches']) for m in cd['models']],
                      'links': len(cd['links']), 'flags': cd['flags'], 'conditions': r['cond'],
                      'trace': ' '.join(':'.join(t) for t in r['trace'])[:300]})
    shutil.rmtree(work, ignore_errors=True)
    for b in (owsim, owsim_race, owsim_plain, owsim_plain_race):
        if b and '-private' in os.path.basename(b):
            try:
                os.remove(b)
            except OSError:
                pass
    stats['distinct_traces'] = len(stats['distinct_traces'])
    stats['T_values'] = sorted(stats['T_values'])
    c.cov['rule'] = ('layered DAGs over Input, Sum, Gate, FixedPartition, VariablePartition, ApplyScalingFactor, PartitionDemand, '
                     'Lag, Muskingum (2-5 model types, 1-5 generations (thorough: up to 8), 0-4 nodes per batch incl. empty first / '
                     'middle / last batches and models without nodes, 0-3 links per input variable from any earlier node, models '
                     'with and without stored inputs, T in {0,1,5,20}, random -outputs-for/-no-outputs-for/-inputs-for/'
                     '-no-inputs-for/-final-states, no output file; model pool incl. prefix-related names and the two models with '
                     'a dimension (RatingCurvePartition nPts, Storage nLVA) with per-node table sizes spread over generations, the '
                     'oracle decoding every parameter column with the model-wide dimension sizes; every file-layout flag: '
                     '-input-timeseries / -parameters / -initial-states with the table only in the separate file or with a decoy '
                     'copy left in the structure file, -overwrite over a stale output file, refusal without -overwrite, '
                     '-v/-verbose/-cpuprofile; wide graphs with 300-600 links into the same input series run with the untagged '
                     'binary; parameters also drawn at exactly 0 and at the ends of the documented ranges, incl. the kernels that '
                     'return early on a zero parameter (ApplyScalingFactor, FixedConcentration, EmcDwc, PassLoadIfFlow, DepthToRate) '
                     'in 5-8 equal-sized generations run with delays so that generations are written and purged while later ones '
                     'are still to run; stored series with NaN / +-Inf / -0 at the first, middle and last positions of otherwise '
                     'zero, minus-zero or ordinary series over the models that accept any value, compared bit for bit with NaN = NaN; '
                     '-final-states into a fresh file, into the file the initial states are read from (hot-start file updated in '
                     'place), into the structure file and into the time-series file; Lag state rows up to 8 wide with runs of 1-3 '
                     'steps and several Lag / GR4J nodes (per-node X4, padded state rows) per generation) '
                     'written through io.H5Ref* into fake-HDF5 files, run by the '
                     'real ow-sim binary under GOMAXPROCS in {1,2,4,16} with random delays at the trace points; every dataset '
                     'of the output compared bit-for-bit with (i) every node run alone through sim.Catalog (oracle), (ii) the '
                     'extracted impl_sim under the observed schedule and under the canonical one, (iii) ref_sim - the kernel '
                     'family K of the extracted models being the table of the Go kernels\' own answers; the trace '
                     'checked by the extracted acceptor; non-trivial = at least 2 generations and 1 link')
    c.finish(extra_cov=dict(stats, notes=notes, exhaustive=False),
             assumptions=['Go channel semantics: an unbuffered channel send and receive complete together (rendezvous); nothing else '
                          '(no fairness, no FIFO) is assumed by Protocol.v',
                          'actions ARun/ALinks/AWrite/APurge are atomic w.r.t. each other (data-race freedom of the arrays they touch; '
                          'thorough tier runs the -race build as testing)',
                          'vectorised Model.Run = independent one-cell runs (property C04), goroutines of one generation touch '
                          'disjoint arrays (C05)',
                          'HDF5 is the pure-Go fake (harness/fakehdf5); hyperslab row selection = rows [start,stop) (property C08)',
                          'GOMAXPROCS sweep, jitter and the race detector are testing, not proof',
                          'the kernel family K given to the extracted models is the table of results of the Go kernels run '
                          'alone on each node (one-cell runs through sim.Catalog); the Coq kernel models of Registry.kernels are '
                          'only compared for information (coq_kernel_models_disagree_with_go_kernels)'])


if __name__ == '__main__':
    main()
