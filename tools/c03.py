#!/usr/bin/env python3
"""C03: C-memory-backed arrays behave like Go-native ones; the C entry point
RunSingleModel equals the Go API.  Part 1 = the shared array history check (lock-step
Go/C pairs, canary zones).  Part 2 = cdriver (plain C, dlopen of a freshly built
libopenwater.so) vs the Go-API sequence on Go-allocated arrays, bit-exact."""
import sys, os
sys.path.insert(0, os.path.dirname(os.path.abspath(__file__)))
from vlib import *
import arrays_check


def entry_point_cases(c, rng, quick):
    with vlib_lock():
        sh('go build -buildmode=c-shared -o %s ./libopenwater' % os.path.join(OUT, 'libopenwater.so'), cwd=REPO, env=GOENV, timeout=1800)
        sh('gcc -O1 -o %s %s -ldl' % (os.path.join(HARNESS, 'bin', 'cdriver'), os.path.join(HARNESS, 'cdriver', 'cdriver.c')))
    build_harness(['owrun'])
    desc = run_impl(['DESC'])[0]
    models = []
    for part in desc.split(' ## '):
        part = part.strip()
        if not part:
            continue
        name, nin, nst, nout, ndim, ps = part.split('|')
        params = []
        for p in ps.split(';'):
            if p:
                pn, d, lo, hi, nd = p.split(',')
                params.append((pn, h2f(d), h2f(lo), h2f(hi), int(nd)))
        models.append((name, int(nin), int(nst), int(nout), int(ndim), params))
    cases = []
    per_model = 4 if quick else 25
    for (name, nin, nst, nout, ndim, params) in models:
        if ndim > 0 or nin == 0:
            continue        # table-parameter models need structured columns: covered by C04
        for _ in range(per_model):
            N = rng.choice([1, 2, 3, 3, 5, 8])
            big = rng.random() < 0.12
            if big:
                N = rng.choice([263, 300, 517, 1000])      # more cells than any plausible per-processor batch
            # parameter and input sets are cycled over the cells (cell i uses set i mod nSets): one shared set, one per
            # cell, or a count that does not divide the number of cells
            nPS = min(N, rng.choice([1, N, 2, 3]))
            nIS = min(N, rng.choice([1, N, 2, 3]))
            T = rng.choice([0, 1, 1, 5, 12]) if not big else rng.choice([1, 2, 3])
            init = rng.choice([0, 1])      # 0 = hot start from the caller's state buffer, also for the variable-width models
            pv = []
            for (pn, d, lo, hi, nd) in params:
                for _s in range(nPS):
                    if hi > lo:
                        pv.append(lo + (hi - lo) * rng.choice([0.5, 0.25, 0.75, rng.random()]))
                    else:
                        # no range declared in the spec: the default, or a plain non-negative value (loads, factors, flags)
                        pv.append(rng.choice([d, d, 0.0, 0.5, 1.0, 2.5, 10.0]))
            # parameter matrix is [nParams, nParamSets] row-major: regroup
            pmat = []
            k = 0
            for _p in params:
                for _s in range(nPS):
                    pmat.append(pv[k]); k += 1
            if name == 'GR4J':      # same X4 across parameter sets (InitialiseStates sizes from cell 0: C04 finding)
                for s_ in range(nPS):
                    pmat[3 * nPS + s_] = pmat[3 * nPS]
            if name == 'Lag':
                lagv = float(rng.choice([0, 1, 2, 7]))
                pmat = [lagv] * nPS
            nS = nst
            if name == 'GR4J':
                import math
                x4 = pmat[3 * nPS]
                nS = 4 + math.ceil(x4) + math.ceil(2 * x4)
            if name == 'Lag':
                nS = int(pmat[0])
            padc = rng.choice([0, 0, 1])
            padt = rng.choice([0, 0, 2])
            inputs = [rng.choice([0.0, rng.random() * 10, rng.random() * 50]) for _ in range(nIS * nin * T)]
            states = [0.0] * (N * nS)
            if init == 0 and name == 'Lag':
                states = [float(rng.randint(0, 9)) + rng.choice([0.0, 0.25]) for _ in range(N * nS)]     # water in transit
            if init == 0 and name == 'GR4J':
                import math
                n1, n2 = math.ceil(pmat[3 * nPS]), math.ceil(2 * pmat[3 * nPS])
                states = []
                for _c in range(N):
                    states += [rng.random() * 50, rng.random() * 20, float(n1), float(n2)] + [rng.random() * 3 for _ in range(n1 + n2)]
            if init == 0 and name not in ('GR4J', 'Lag') and nS and rng.random() < 0.5:
                states = [rng.random() * 5 for _ in range(N * nS)]     # a hot start from non-zero stores
            hdr = [name, nIS, nin, T, len(params), nPS, N, nS, N + padc, nout, T + padt, init]
            body = [f2h(x) for x in inputs + pmat + states]
            cases.append((name, ' '.join(map(str, hdr)) + ' ' + ' '.join(body)))
    cl = [x[1] for x in cases]
    env = dict(GOENV)
    cdrv = run_lines(os.path.join(HARNESS, 'bin', 'cdriver'), cl, env=env, crash_token='CRASH', timeout=900) \
        if False else None
    # cdriver takes the library path as argv[1]: run through a tiny wrapper
    import subprocess
    res_c = []
    i = 0
    while i < len(cl):
        p = subprocess.run([os.path.join(HARNESS, 'bin', 'cdriver'), os.path.join(OUT, 'libopenwater.so')],
                           input='\n'.join(cl[i:]) + '\n', stdout=subprocess.PIPE, stderr=subprocess.PIPE, text=True, timeout=900)
        # only protocol lines count: several kernels print diagnostics on stdout (StorageRouting before its NaN panics,
        # Storage 'No volumes', RatingCurvePartition), also when run through the C library
        got = [l for l in p.stdout.split('\n') if l.startswith(('OK ', 'PANIC', 'NOMODEL', 'NOCMD', 'BAD'))]
        res_c += got[:len(cl) - i]
        if len(got) >= len(cl) - i:
            break
        res_c.append('CRASH')
        i += len(got) + 1
    import hslib
    res_go = hslib.run_filtered(os.path.join(HARNESS, 'bin', 'owrun'), ['V ' + l for l in cl], 'CRASH', env=GOENV)
    agree = crashes = 0
    for (name, line), rc, rg in zip(cases, res_c, res_go):
        c.count(line, nontrivial=True)
        bad_c, bad_g = not rc.startswith('OK'), not rg.startswith('OK')
        if bad_c and bad_g:
            crashes += 1
            continue
        if rc.split(' C ')[0] != rg.split(' C ')[0]:
            c.violation('entry_%s_%d.json' % (name, agree), {'kind': 'c-entry-point-vs-go-api', 'model': name, 'case': line,
                                                             'c_abi': rc[:400], 'go_api': rg[:400]})
        elif rc.endswith(' C 0'):
            c.violation('entry_canary_%s.json' % name, {'kind': 'c-entry-point-touched-memory-outside-buffers-or-modified-inputs',
                                                        'model': name, 'case': line})
        else:
            agree += 1
    return {'entry_point_cases': len(cases), 'entry_point_agree': agree, 'entry_point_both_crash': crashes,
            'entry_point_models': sorted({x[0] for x in cases})}


class vlib_lock:
    def __enter__(self):
        import vlib
        self.l = vlib._Lock()
        self.l.__enter__()

    def __exit__(self, *a):
        self.l.__exit__(*a)


def huge_c_array(c):
    """element access at linear indices around 2^27 and at the end of a C-backed array of 2^27 + 4100 elements (1 GB of
    address space, a handful of pages touched), next to a Go-backed array of the same shape: a nominal array length in the
    C pointer type, an int32 index or a truncated size only shows beyond such a size"""
    n_extra = 4100
    n = (1 << 27) + n_extra
    probes = [0, (1 << 27) - 1, 1 << 27, (1 << 27) + 1, n - 1]
    vals = ','.join('%g' % (p % 1000 + 1) for p in probes) + ',777,777'
    exp = 'c=%s go=%s' % (vals, vals)
    line = 'HUGEC %d' % n_extra
    got = run_lines(os.path.join(HARNESS, 'bin', 'arrops'), [line], env=GOENV, timeout=300)[0]
    c.count(line, nontrivial=True)
    if got == 'NOMEM':
        return {'huge_c_array': 'skipped: calloc of 1 GB refused'}
    if got != exp:
        c.violation('huge_c_array.json', {'kind': 'c-backed-array-beyond-2^27-elements', 'elements': n, 'probed_linear_indices': probes,
                                          'implementation': got[:400], 'expected': exp, 'case_line': line,
                                          'replay': "echo '%s' | /verif/harness/bin/arrops" % line})
    return {'huge_c_array': {'elements': n, 'probed_linear_indices': probes, 'agrees_with_go_backed': got == exp}}


def extra(c):
    d = entry_point_cases(c, c.rng, c.tier == 'quick')
    d.update(huge_c_array(c))
    import cabi_sessions
    d.update(cabi_sessions.cabi_sessions(c))
    # the bulk operations on IEEE special values (signed zeros, NaN, infinities, degenerate value sets) over every combination
    # of Go- and C-backed operands: "observationally identical" includes the sign of a zero and whether a NaN arrives
    import fpspecial
    d.update(fpspecial.fp_specials(c))
    return d


arrays_check.run('C03', 'all',
                 'plus lock-step pairs: the same random history on all-Go and all-C roots (canary zones around every C buffer), and the exported C '
                 'entry point RunSingleModel (plain C driver, dlopen) against the Go-API sequence for every catalogued model without table parameters',
                 ['C memory outside the buffer is visible only as canary damage (writes); stray reads are not detectable without valgrind',
                  'C entry point = Go API and whole-history Go/C equality are established by the correspondence run, not by a theorem (C03_entry_point_partial)'],
                 extra=extra, allowed=None, use_iops=False, oracle='lockstep')
