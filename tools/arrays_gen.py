"""Generator of array operation histories + an independent abstract specification
(the oracle of C01/C02/C03): an array is a shape plus, for every multi-index in
row-major order, the storage cell (buffer, address) it denotes.  Nothing of the
Go index arithmetic (Start/Offset/Step) is reproduced here."""
import itertools, random


def enum(shape):
    return list(itertools.product(*[range(d) for d in shape]))


def prod(l):
    p = 1
    for x in l:
        p *= x
    return p


# operations the library supports on a view cut with a SHORT size vector (fewer axes than the storage descriptor): what
# the generated wrappers and util/fn do with table-parameter columns.  Re-slicing with a step, Apply and being the
# DESTINATION of a block copy re-slice internally with full-rank arguments and panic on such views (the model agrees:
# Arrays/GoCProofs.v apply_low_rank_view_differs), so they are not part of the valid stream.
SHORT_OK = ('GET', 'SET', 'GET1', 'SET1', 'APPLY1', 'LEN', 'SHAPE', 'UNROLL', 'CONTIG', 'RESHAPE', 'RESHAPEFAST', 'MUSTRESHAPE',
            'MAX', 'MIN', 'NEW')


class SArr:
    def __init__(self, shape, cells, backend):
        self.shape = list(shape)
        self.cells = list(cells)      # row-major list of (buf, addr)
        self.backend = backend        # 'g' or 'c'
        self.idx = {i: c for i, c in zip(enum(shape), self.cells)}

    def cell(self, idx):
        return self.idx[tuple(idx)]

    def contiguous(self):
        if not self.cells:
            return True
        b0, a0 = self.cells[0]
        return all(c == (b0, a0 + k) for k, c in enumerate(self.cells))


class Shadow:
    """abstract functional-array spec"""

    def __init__(self):
        self.bufs = []     # list of lists of ints
        self.roots = []    # buffer ids created by NEW
        self.arrs = []
        self.notes = set()  # finding classes this history exercises

    def val(self, c):
        return self.bufs[c[0]][c[1]]

    def setv(self, c, v):
        self.bufs[c[0]][c[1]] = v

    def values(self, a):
        return [self.val(c) for c in a.cells]

    def fresh(self, vals):
        self.bufs.append(list(vals))
        return len(self.bufs) - 1

    def observe(self, res):
        roots = '/'.join(','.join(map(str, self.bufs[b])) for b in self.roots)
        arrs = '/'.join(','.join(map(str, self.values(a))) for a in self.arrs)
        return res + '|' + roots + '|' + arrs

    # each op returns the result token
    def op_new(self, be, dims):
        n = prod(dims)
        b = self.fresh(range(1, n + 1))
        self.roots.append(b)
        self.arrs.append(SArr(dims, [(b, k) for k in range(n)], be))
        return 'new:%d' % (len(self.arrs) - 1)

    def slice_view(self, a, loc, dims, step):
        step = step or [1] * len(dims)
        # [dims] may be SHORTER than the rank of [a] (the form the generated wrappers use for table parameters:
        # block.Slice({0, set}, {npts}, nil)): the trailing axes stay fixed at [loc] and the view has len(dims) axes
        k = len(dims)
        cells = [a.cell([l + i * s for l, i, s in zip(loc[:k], idx, step)] + list(loc[k:])) for idx in enum(dims)]
        return SArr(dims, cells, a.backend)

    def op_slice(self, i, loc, dims, step):
        v = self.slice_view(self.arrs[i], loc, dims, step)
        # a view with fewer axes than its storage descriptor: second-class in the library (see SHORT_OK)
        v.short = len(dims) < len(self.arrs[i].shape) or getattr(self.arrs[i], 'short', False)
        self.arrs.append(v)
        return 'new:%d' % (len(self.arrs) - 1)

    def op_get(self, i, loc):
        return 'v:%d' % self.val(self.arrs[i].cell(loc))

    def op_set(self, i, loc, v):
        self.setv(self.arrs[i].cell(loc), v)
        return 'ok'

    def op_apply(self, i, loc, dim, stp, vals):
        a = self.arrs[i]
        for k, v in enumerate(vals):
            l = list(loc)
            l[dim] = loc[dim] + k * stp
            self.setv(a.cell(l), v)
        return 'ok'

    def copy_spec(self, dst, src):
        """dst[i] := value src[i] had before the operation (what copy()/memmove does on the
        contiguous fast path).  Also computes the live, element-by-element variant (what the
        index loop does); they differ only when the two views overlap partially."""
        snap = self.values(src)
        before = [list(b) for b in self.bufs]
        for c, s in zip(dst.cells, src.cells):
            self.setv(c, self.val(s))
        seq = self.bufs
        self.bufs = before
        for c, v in zip(dst.cells, snap):
            self.setv(c, v)
        return (seq != self.bufs), seq

    def op_applyslice(self, i, loc, step, j):
        src = self.arrs[j]
        dst = self.slice_view(self.arrs[i], loc, src.shape, step)
        differs, seq = self.copy_spec(dst, src)
        if differs:
            self.notes.add('overlapping-copy')
            self.alt_bufs = seq
        return 'ok'

    def op_copyfrom(self, i, j):
        return self.op_applyslice(i, [0] * len(self.arrs[i].shape), None, j)

    def op_unroll(self, i):
        return 'vs:' + ','.join(map(str, self.values(self.arrs[i])))

    def op_unrollw(self, i, k, v):
        a = self.arrs[i]
        if a.backend == 'g' and a.contiguous():
            self.setv(a.cells[k], v)      # the returned slice aliases the storage
        return 'ok'

    def op_reshape(self, i, shape, fast=False):
        a = self.arrs[i]
        if fast and not a.contiguous():
            return 'err'
        if prod(shape) != prod(a.shape):
            return 'err'
        if a.contiguous():
            self.arrs.append(SArr(shape, a.cells, a.backend))
        else:
            b = self.fresh(self.values(a))
            self.arrs.append(SArr(shape, [(b, k) for k in range(len(a.cells))], 'g'))
        return 'new:%d' % (len(self.arrs) - 1)

    def op_contig(self, i):
        return 'b:1' if self.arrs[i].contiguous() else 'b:0'

    def op_max(self, i):
        return 'v:%d' % max(self.values(self.arrs[i]))

    def op_min(self, i):
        return 'v:%d' % min(self.values(self.arrs[i]))

    def idx1(self, a, l):
        if len(a.shape) == 1:
            return [l]
        idx = [0] * len(a.shape)
        for k, d in enumerate(a.shape):
            if d > 1:
                idx[k] = l
                break
        return idx

    def op_get1(self, i, l):
        a = self.arrs[i]
        return 'v:%d' % self.val(a.cell(self.idx1(a, l)))

    def op_set1(self, i, l, v):
        a = self.arrs[i]
        self.setv(a.cell(self.idx1(a, l)), v)
        return 'ok'

    def op_apply1(self, i, l, stp, vals):
        for k, v in enumerate(vals):
            self.op_set1(i, l + k * stp, v)
        return 'ok'

    def op_elementwise(self, i, j, f):
        dst, src = self.arrs[i], self.arrs[j]
        snap_d, snap_s = self.values(dst), self.values(src)
        before = [list(b) for b in self.bufs]
        for c, d, s in zip(dst.cells, snap_d, snap_s):
            self.setv(c, f(d, s))
        snapres = self.bufs
        self.bufs = before
        for c, s in zip(dst.cells, src.cells):
            self.setv(c, f(self.val(c), self.val(s)))
        if snapres != self.bufs:
            self.notes.add('overlapping-copy')
            self.alt_bufs = snapres
        return 'ok'

    def op_shape(self, i):
        return 'vs:' + ','.join(map(str, self.arrs[i].shape))

    def op_len(self, i, k):
        return 'v:%d' % self.arrs[i].shape[k]


def ints(l):
    return ' '.join(map(str, l))


class HistoryGen:
    """draws one valid history; keeps the shadow in step so every op is in bounds"""

    def __init__(self, rng, backend_mode='mixed', types='all', opmix='all', max_ops=14, allowed=None):
        self.rng = rng
        self.sh = Shadow()
        self.ops = []           # token strings
        self.expected = []      # shadow observables
        self.alts = []          # alternative observable allowed for a finding class (or None)
        self.backend_mode = backend_mode
        self.types = types
        self.opmix = opmix
        self.max_ops = max_ops
        self.kinds = []
        self.allowed = allowed
        self.short_size_p = 0.12  # share of slices cut with a short size vector (table-parameter columns)

    def be(self):
        if self.backend_mode == 'mixed':
            return self.rng.choice('gc')
        return self.backend_mode

    def emit(self, tok, res):
        self.ops.append(tok)
        self.kinds.append(tok.split()[0])
        self.expected.append(self.sh.observe(res))
        if hasattr(self.sh, 'alt_bufs') and self.sh.alt_bufs is not None:
            keep = self.sh.bufs
            self.sh.bufs = self.sh.alt_bufs
            self.alts.append(self.sh.observe(res))
            self.sh.bufs = keep
            self.sh.alt_bufs = None
            self.diverged = True
        else:
            self.alts.append(None)

    def rand_shape(self):
        r = self.rng
        if r.random() < 0.06:
            # high rank (the quantifier says "1-3+ dims"): 5-10 axes, mostly 1-wide, at most ~100 elements; the wide
            # axes are placed anywhere, in particular at positions >= 8
            nd = r.randint(5, 10)
            shp = [1] * nd
            for ax in r.sample(range(nd), r.randint(1, 3)) + [nd - 1]:
                shp[ax] = r.choice([2, 2, 3])
            return shp
        nd = r.choice([1, 1, 2, 2, 2, 3, 3, 4])
        shp = [r.choice([1, 2, 2, 3, 3, 4, 5]) for _ in range(nd)]
        if r.random() < 0.35:
            shp[-1] = r.choice([6, 7, 8])      # room for stepped runs along the innermost axis
        return shp

    def rand_slice_args(self, a):
        r = self.rng
        loc, dims, step = [], [], []
        for d in a.shape:
            st = r.choice([1, 1, 1, 2, 2, 3])
            n = r.randint(1, max(1, (d - 1) // st + 1))
            n = r.choice([1, n, n, (d - 1) // st + 1]) if r.random() < 0.6 else n
            mx = d - 1 - (n - 1) * st
            l = r.randint(0, mx)
            loc.append(l); dims.append(n); step.append(st)
        if len(a.shape) >= 2 and r.random() < 0.25:
            # a column / single stepped row: exactly one axis keeps its extent
            keep = r.randrange(len(a.shape))
            for ax in range(len(a.shape)):
                if ax != keep:
                    dims[ax] = 1
                    loc[ax] = r.randint(0, a.shape[ax] - 1)
        if len(a.shape) >= 2 and r.random() < self.short_size_p:
            # short size vector, nil step: keep the first k axes, pin the others at loc (a table column / a row of a block)
            k = r.randint(1, len(a.shape) - 1)
            loc = [r.randint(0, d - 1) for d in a.shape]
            dims = []
            for ax in range(k):
                n = r.randint(1, a.shape[ax] - loc[ax])
                dims.append(r.choice([n, a.shape[ax] - loc[ax]]))
            return loc, dims, None
        use_nil = all(s == 1 for s in step) and r.random() < 0.5
        return loc, dims, (None if use_nil else step)

    def pick(self, pred=lambda a: True):
        c = [i for i, a in enumerate(self.sh.arrs) if pred(a)]
        return self.rng.choice(c) if c else None

    def step_tok(self, step):
        return 'N' if step is None else 'S ' + ints(step)

    def gen(self):
        r = self.rng
        sh = self.sh
        self.diverged = False
        # start with 1-2 roots
        for _ in range(r.choice([1, 1, 2])):
            be, dims = self.be(), self.rand_shape()
            self.emit('NEW %s %s' % (be, ints(dims)), sh.op_new(be, dims))
        nops = r.randint(4, self.max_ops)
        six = self.types == 'six'
        while len(self.ops) < nops and not self.diverged:
            kinds = ['SLICE'] * 5 + ['GET', 'SET', 'SET', 'APPLY', 'APPLY', 'APPLYSLICE', 'APPLYSLICE', 'COPYFROM', 'UNROLL',
                                     'UNROLLW', 'RESHAPE', 'RESHAPE', 'RESHAPEFAST', 'MUSTRESHAPE', 'CONTIG', 'CONTIG', 'MAX', 'MIN',
                                     'GET1', 'SET1', 'APPLY1', 'GETN', 'SETN', 'SHAPE', 'LEN', 'NEW']
            if six:
                kinds += ['SCALE', 'ADDTO', 'APPLYFUNC'] * 3
            if self.opmix == 'views':
                kinds += ['SLICE'] * 6 + ['SET', 'GET', 'APPLY'] * 3 + ['GET1', 'SET1'] * 2
            if self.opmix == 'bulk':
                kinds += ['APPLYSLICE', 'COPYFROM', 'RESHAPE', 'UNROLL', 'UNROLLW', 'CONTIG', 'MAX', 'MIN', 'APPLY', 'SLICE'] * 2
            if self.opmix == 'all':
                kinds += ['RESHAPE', 'SLICE', 'SLICE', 'APPLY', 'UNROLLW']
            if self.allowed is not None:
                kinds = [x for x in kinds if x in self.allowed]
            k = r.choice(kinds)
            if self.kinds and self.kinds[-1] in ('RESHAPE', 'MUSTRESHAPE', 'RESHAPEFAST', 'SLICE') and r.random() < 0.45 and 'SET' in kinds:
                k = 'SET'      # probe: write right after creating a view / reshape, through a random array
            i = self.pick()
            a = sh.arrs[i]
            if getattr(a, 'short', False) and k not in SHORT_OK:
                continue
            val = r.randint(100, 999)
            if k == 'NEW':
                if len(sh.roots) >= 3:
                    continue
                be, dims = self.be(), self.rand_shape()
                self.emit('NEW %s %s' % (be, ints(dims)), sh.op_new(be, dims))
            elif k == 'SLICE':
                if len(sh.arrs) >= 9:
                    continue
                loc, dims, step = self.rand_slice_args(a)
                self.emit('SLICE %d L %s D %s %s' % (i, ints(loc), ints(dims), self.step_tok(step)), sh.op_slice(i, loc, dims, step))
            elif k in ('GET', 'SET', 'GETN', 'SETN'):
                if k in ('GETN', 'SETN') and len(a.shape) not in (2, 3):
                    continue
                loc = [r.randint(0, d - 1) for d in a.shape]
                if k in ('GET', 'GETN'):
                    self.emit('%s %d L %s' % (k, i, ints(loc)), sh.op_get(i, loc))
                else:
                    self.emit('%s %d L %s V %d' % (k, i, ints(loc), val), sh.op_set(i, loc, val))
            elif k == 'APPLY':
                # prefer views (not roots) and long runs: the fast path / index loop split depends on the
                # receiver's own strides and on which axis is written
                if r.random() < 0.6:
                    views = [j for j, b in enumerate(sh.arrs) if j >= len(sh.roots) and max(b.shape) >= 2 and not getattr(b, 'short', False)]
                    if views:
                        i = r.choice(views); a = sh.arrs[i]
                dim = (len(a.shape) - 1) if r.random() < 0.5 else r.randrange(len(a.shape))
                stp = r.choice([1, 1, 1, 2])
                loc = [r.randint(0, d - 1) for d in a.shape]
                if r.random() < 0.6:
                    loc[dim] = r.choice([0, 0, 1]) if a.shape[dim] > 1 else 0
                nmax = (a.shape[dim] - 1 - loc[dim]) // stp + 1
                n = r.randint(0 if r.random() < 0.1 else 1, nmax)
                if r.random() < 0.5:
                    n = nmax
                vals = [val + q for q in range(n)]
                self.emit('APPLY %d L %s X %d %d V %s' % (i, ints(loc), dim, stp, ints(vals)), sh.op_apply(i, loc, dim, stp, vals))
            elif k in ('APPLYSLICE', 'COPYFROM'):
                if k == 'COPYFROM':
                    # CopyFrom(other) = ApplySlice at the origin: the source may be smaller than the destination
                    j = self.pick(lambda b: len(b.shape) == len(a.shape) and all(x <= y for x, y in zip(b.shape, a.shape)))
                    if j is None:
                        continue
                    self.emit('COPYFROM %d %d' % (i, j), sh.op_copyfrom(i, j))
                else:
                    # choose a source that fits somewhere in a
                    cands = [j for j, b in enumerate(sh.arrs) if len(b.shape) == len(a.shape) and all(x <= y for x, y in zip(b.shape, a.shape))]
                    if not cands:
                        continue
                    j = r.choice(cands)
                    b = sh.arrs[j]
                    loc, step = [], []
                    for d, n in zip(a.shape, b.shape):
                        smax = (d - 1) // (n - 1) if n > 1 else 3
                        st = r.randint(1, max(1, min(smax, 3)))
                        loc.append(r.randint(0, d - 1 - (n - 1) * st)); step.append(st)
                    st = None if all(s == 1 for s in step) and r.random() < 0.5 else step
                    self.emit('APPLYSLICE %d L %s %s SRC %d' % (i, ints(loc), self.step_tok(st), j), sh.op_applyslice(i, loc, st, j))
            elif k == 'UNROLL':
                self.emit('UNROLL %d' % i, sh.op_unroll(i))
            elif k == 'UNROLLW':
                if not a.cells:
                    continue
                q = r.randrange(len(a.cells))
                self.emit('UNROLLW %d %d %d' % (i, q, val), sh.op_unrollw(i, q, val))
            elif k in ('RESHAPE', 'RESHAPEFAST', 'MUSTRESHAPE'):
                if len(sh.arrs) >= 9:
                    continue
                n = prod(a.shape)
                facs = [[n]] + [[p, n // p] for p in range(1, n + 1) if n % p == 0] + [[1, n, 1]]
                shape = [n] if r.random() < 0.4 else r.choice(facs)
                if r.random() < 0.12 and k != 'MUSTRESHAPE':
                    shape = [n + 1]
                res = sh.op_reshape(i, shape, fast=(k == 'RESHAPEFAST'))
                self.emit('%s %d D %s' % (k, i, ints(shape)), res)
            elif k == 'CONTIG':
                self.emit('CONTIG %d' % i, sh.op_contig(i))
            elif k in ('MAX', 'MIN'):
                self.emit('%s %d' % (k, i), sh.op_max(i) if k == 'MAX' else sh.op_min(i))
            elif k in ('GET1', 'SET1', 'APPLY1'):
                wide = [d for d in a.shape if d > 1]
                if len(a.shape) != 1 and len(wide) == 0:
                    continue
                # on an array with SEVERAL wide axes the single-axis accessors address the FIRST wide axis (the others at 0):
                # legal, and it leaves whatever the accessor keeps internally in a state a later view could inherit
                n = a.shape[0] if len(a.shape) == 1 else wide[0]
                l = r.randint(0, n - 1)
                if k == 'GET1':
                    self.emit('GET1 %d %d' % (i, l), sh.op_get1(i, l))
                elif k == 'SET1':
                    self.emit('SET1 %d %d %d' % (i, l, val), sh.op_set1(i, l, val))
                else:
                    stp = r.choice([1, 2])
                    cnt = r.randint(1, (n - 1 - l) // stp + 1)
                    vals = [val + q for q in range(cnt)]
                    self.emit('APPLY1 %d %d %d V %s' % (i, l, stp, ints(vals)), sh.op_apply1(i, l, stp, vals))
            elif k in ('SCALE', 'ADDTO', 'APPLYFUNC'):
                j = self.pick(lambda b: b.shape == a.shape)
                if j is None:
                    continue
                # keep values small: they must stay exact in float32
                if max(max(b) if b else 0 for b in sh.bufs) > 20000:
                    continue
                kk = r.choice([2, 3, 2, 3, 1, 0])
                if 'SET' in kinds and r.random() < 0.35 and not getattr(sh.arrs[j], 'short', False):
                    # fixed-point operands: the operation leaves SOME destination elements exactly as they were (the first, the
                    # last, both, or all of them) - a value-dependent shortcut ("nothing changed, skip the store") shows only there
                    first, last = [0] * len(a.shape), [d - 1 for d in a.shape]
                    where = r.choice([[first], [last], [first, last], list(enum(a.shape))])
                    for loc in where[:12]:
                        v = r.randint(1, 40)
                        if k == 'ADDTO':
                            self.emit('SET %d L %s V 0' % (j, ints(loc)), sh.op_set(j, loc, 0))
                        elif j != i:
                            self.emit('SET %d L %s V %d' % (j, ints(loc), v), sh.op_set(j, loc, v))
                            dv = v * kk if k == 'SCALE' else v * 2 + 1
                            self.emit('SET %d L %s V %d' % (i, ints(loc), dv), sh.op_set(i, loc, dv))
                        elif k == 'SCALE':
                            self.emit('SET %d L %s V 0' % (j, ints(loc)), sh.op_set(j, loc, 0))
                    if self.diverged:
                        continue
                if k == 'SCALE':
                    self.emit('SCALE %d %d %d' % (i, j, kk), sh.op_elementwise(i, j, lambda d, s: s * kk))
                elif k == 'ADDTO':
                    self.emit('ADDTO %d %d' % (i, j), sh.op_elementwise(i, j, lambda d, s: d + s))
                else:
                    self.emit('APPLYFUNC %d %d' % (i, j), sh.op_elementwise(i, j, lambda d, s: s * 2 + 1))
            elif k == 'SHAPE':
                self.emit('SHAPE %d' % i, sh.op_shape(i))
            elif k == 'LEN':
                ax = r.randrange(len(a.shape))
                self.emit('LEN %d %d' % (i, ax), sh.op_len(i, ax))
        return self

    def line(self):
        return 'ARRH %s %s' % (self.types, ' ; '.join(self.ops))


def malformed_history(rng, allowed=None):
    """Go-backed only (out-of-range accesses on C memory would corrupt the harness
    process): a valid prefix followed by one out-of-range / ill-formed operation."""
    g = HistoryGen(rng, backend_mode='g', max_ops=6, allowed=allowed).gen()
    sh = g.sh
    i = rng.randrange(len(sh.arrs))
    a = sh.arrs[i]
    kind = rng.choice(['GET', 'SET', 'SLICE', 'APPLY', 'RESHAPE0', 'GETLONG', 'SLICESHORT', 'APPLYDIM'])
    if allowed is not None and kind == 'RESHAPE0' and 'MUSTRESHAPE' not in allowed:
        kind = 'GET'
    if allowed is not None and kind == 'SLICE' and 'UNROLL' not in allowed:
        kind = 'SET'
    big = [d + rng.randint(0, 6) for d in a.shape]
    if kind == 'GET':
        g.ops.append('GET %d L %s' % (i, ints(big)))
    elif kind == 'SET':
        g.ops.append('SET %d L %s V 5' % (i, ints(big)))
    elif kind == 'SLICE':
        g.ops.append('SLICE %d L %s D %s S %s ; UNROLL %d' % (i, ints(big), ints(a.shape), ints([2] * len(a.shape)), len(sh.arrs)))
    elif kind == 'APPLY':
        g.ops.append('APPLY %d L %s X 0 3 V 1 2 3 4 5 6 7' % (i, ints([0] * len(a.shape))))
    elif kind == 'RESHAPE0':
        g.ops.append('MUSTRESHAPE %d D %d' % (i, prod(a.shape) + 2))
    elif kind == 'GETLONG':
        g.ops.append('GET %d L %s' % (i, ints([0] * (len(a.shape) + 1))))
    elif kind == 'SLICESHORT':
        g.ops.append('SLICE %d L %s D %s S 1' % (i, ints([0] * len(a.shape)), ints(a.shape)))
    else:
        g.ops.append('APPLY %d L %s X %d 1 V 1' % (i, ints([0] * len(a.shape)), len(a.shape)))
    return g


def _ints_until(toks, p):
    r = []
    while p < len(toks) and (toks[p][0].isdigit() or toks[p][0] == '-'):
        r.append(int(toks[p])); p += 1
    return r, p


def shadow_replay(line):
    """Run the abstract specification on a given history line (corpus / replay files).
    Returns (expected observables, alternatives, notes) or None when the history leaves the
    specified domain (out-of-range arguments: then only model-vs-code is compared)."""
    toks = line.split()
    assert toks[0] == 'ARRH'
    ops, cur = [], []
    for t in toks[2:]:
        if t == ';':
            ops.append(cur); cur = []
        else:
            cur.append(t)
    if cur:
        ops.append(cur)
    g = HistoryGen(random.Random(0), types=toks[1])
    sh = g.sh
    try:
        for o in ops:
            k = o[0]
            tok = ' '.join(o)
            if k == 'NEW':
                dims, _ = _ints_until(o, 2)
                g.emit(tok, sh.op_new(o[1], dims))
            elif k == 'SLICE':
                i = int(o[1]); loc, p = _ints_until(o, 3); dims, p = _ints_until(o, p + 1)
                step = None if o[p] == 'N' else _ints_until(o, p + 1)[0]
                g.emit(tok, sh.op_slice(i, loc, dims, step))
            elif k in ('GET', 'GETN'):
                g.emit(tok, sh.op_get(int(o[1]), _ints_until(o, 3)[0]))
            elif k in ('SET', 'SETN'):
                loc, p = _ints_until(o, 3)
                g.emit(tok, sh.op_set(int(o[1]), loc, int(o[p + 1])))
            elif k == 'APPLY':
                loc, p = _ints_until(o, 3)
                dim, stp = int(o[p + 1]), int(o[p + 2])
                vals, _ = _ints_until(o, p + 4)
                if dim >= len(loc):
                    return None
                g.emit(tok, sh.op_apply(int(o[1]), loc, dim, stp, vals))
            elif k == 'APPLYSLICE':
                loc, p = _ints_until(o, 3)
                if o[p] == 'N':
                    step, p = None, p + 1
                else:
                    step, p = _ints_until(o, p + 1)
                g.emit(tok, sh.op_applyslice(int(o[1]), loc, step, int(o[p + 1])))
            elif k == 'COPYFROM':
                g.emit(tok, sh.op_copyfrom(int(o[1]), int(o[2])))
            elif k == 'UNROLL':
                g.emit(tok, sh.op_unroll(int(o[1])))
            elif k == 'UNROLLW':
                g.emit(tok, sh.op_unrollw(int(o[1]), int(o[2]), int(o[3])))
            elif k in ('RESHAPE', 'RESHAPEFAST', 'MUSTRESHAPE'):
                shape, _ = _ints_until(o, 3)
                r = sh.op_reshape(int(o[1]), shape, fast=(k == 'RESHAPEFAST'))
                if k == 'MUSTRESHAPE' and r == 'err':
                    return None
                g.emit(tok, r)
            elif k == 'CONTIG':
                g.emit(tok, sh.op_contig(int(o[1])))
            elif k == 'MAX':
                g.emit(tok, sh.op_max(int(o[1])))
            elif k == 'MIN':
                g.emit(tok, sh.op_min(int(o[1])))
            elif k == 'GET1':
                g.emit(tok, sh.op_get1(int(o[1]), int(o[2])))
            elif k == 'SET1':
                g.emit(tok, sh.op_set1(int(o[1]), int(o[2]), int(o[3])))
            elif k == 'APPLY1':
                vals, _ = _ints_until(o, 5)
                g.emit(tok, sh.op_apply1(int(o[1]), int(o[2]), int(o[3]), vals))
            elif k == 'SCALE':
                kk = int(o[3])
                g.emit(tok, sh.op_elementwise(int(o[1]), int(o[2]), lambda d, s_: s_ * kk))
            elif k == 'ADDTO':
                g.emit(tok, sh.op_elementwise(int(o[1]), int(o[2]), lambda d, s_: d + s_))
            elif k == 'APPLYFUNC':
                g.emit(tok, sh.op_elementwise(int(o[1]), int(o[2]), lambda d, s_: s_ * 2 + 1))
            elif k == 'SHAPE':
                g.emit(tok, sh.op_shape(int(o[1])))
            elif k == 'LEN':
                g.emit(tok, sh.op_len(int(o[1]), int(o[2])))
            else:
                return None
    except (KeyError, IndexError, ValueError):
        return None
    return g
