"""Shared by tools/c06.py (hot-start continuity) and tools/c14.py (purity / causality):
one case generator per catalogue model (all 41), built on the generators of the models' own
checks (c10/rrlib, c11, c12, c13, c16, c19, c20) so that parameters, initial states and input
series are valid for the model; line builders for the SPLIT / PURITY harness commands; the
per-model model-vs-code comparison (the tolerance of the model's own check)."""
import sys, os, re, math, subprocess
sys.path.insert(0, os.path.dirname(os.path.abspath(__file__)))
from vlib import *
import rrlib, c11, c12, c13, c16, c20

RESULT_RE = re.compile(r'^(OK |PANIC|NOMODEL|NOCMD|BADCASE)')
COMPONENTS = ['c06', 'c11', 'c12', 'c13', 'c16', 'c19', 'c20', 'rr']

STATEFUL = ['ConstituentDecay', 'GR4J', 'InstreamCoarseSediment', 'InstreamDissolvedNutrientDecay',
            'InstreamFineSediment', 'InstreamParticulateNutrient', 'Lag', 'LumpedConstituentRouting', 'Muskingum',
            'Sacramento', 'Simhyd', 'Storage', 'StorageDissolvedDecay', 'StorageParticulateTrapping',
            'StorageRouting', 'StorageTrapAll', 'Surm']
RR = ['GR4J', 'Sacramento', 'Simhyd', 'Surm', 'RunoffCoefficient']
C12GEN = {'LumpedConstituentRouting': 'gen_lumped', 'ConstituentDecay': 'gen_decay', 'InstreamFineSediment': 'gen_fine',
          'InstreamCoarseSediment': 'gen_coarse', 'InstreamParticulateNutrient': 'gen_particulate',
          'StorageParticulateTrapping': 'gen_trapping', 'StorageTrapAll': 'gen_trapall',
          'StorageDissolvedDecay': 'gen_dissolved', 'InstreamDissolvedNutrientDecay': 'gen_dnd'}
STATELESS = sorted(list(c16.MODELS.keys()) + ['ClimateVariables', 'DateGenerator', 'RunoffCoefficient'])
ALL_MODELS = sorted(set(STATEFUL) | set(STATELESS))


def run_filtered(binary, lines, crash_token, env=None, timeout=3600):
    """vlib.run_lines, but only protocol lines count as results: several kernels print diagnostics on
    stdout (storage.go 'No volumes', storage_routing.go before its NaN panics, rating_partition.go).  A process
    crash (panic inside the wrapper's cell goroutine) is <crash_token> for the case it died on; the rest is re-run."""
    results, i, n = [], 0, len(lines)
    while i < n:
        chunk = lines[i:]
        p = subprocess.run([binary], input='\n'.join(chunk) + '\n', stdout=subprocess.PIPE, stderr=subprocess.PIPE,
                           text=True, timeout=timeout, env=env)
        raw = p.stdout.split('\n')
        if not p.stdout.endswith('\n'):
            raw = raw[:-1]          # the process died in the middle of a line (partial flush of a full buffer)
        got = [l for l in raw if RESULT_RE.match(l)]
        if len(got) >= len(chunk):
            results.extend(got[:len(chunk)])
            break
        results.extend(got)
        msg = ''
        for l in p.stderr.strip().split('\n'):
            if l.startswith('panic:') or l.startswith('fatal error:') or 'SIGSEGV' in l:
                msg = l.strip()
                break
        results.append(crash_token + ' ' + msg[:160])
        i += len(got) + 1
    return results


def owrun_binary(envvar):
    """private runner (harness/bin/owrun-<x>), or the one named by the environment variable (mutation testing
    against an owrun built from a scratch copy of the repository)"""
    return os.environ.get(envvar)


def build_private_owrun(name):
    import vlib
    out = os.path.join(HARNESS, 'bin', name)
    with vlib._Lock():
        sh('cp /repo/go.sum %s/go.sum' % HARNESS)
        sh(['go', 'build', '-tags', 'verif', '-o', out, './cmd/owrun'], cwd=HARNESS, env=GOENV, timeout=1800)
    return out


# ------------------------------------------------------------------ helpers
def fit(series, n):
    """a series of exactly n steps in the same regime: cut, or tile"""
    if len(series) >= n:
        return list(series[:n])
    if not series:
        return None
    k = (n + len(series) - 1) // len(series)
    return (list(series) * k)[:n]


def finite_all(xs):
    return all(math.isfinite(v) for v in xs)


def mkcase(model, params, states, inputs, **meta):
    return {'model': model, 'params': [float(v) for v in params], 'states': [float(v) for v in states],
            'inputs': [[float(v) for v in r] for r in inputs], 'meta': meta}


def case_tokens(cs, upto=None):
    """P .. S .. I .. part of a harness line"""
    ins = cs['inputs'] if upto is None else [r[:upto] for r in cs['inputs']]
    return kcase(cs['model'], cs['params'], cs['states'], ins).split(' ', 2)[2]


def kline(cs, upto=None, inputs=None):
    ins = inputs if inputs is not None else (cs['inputs'] if upto is None else [r[:upto] for r in cs['inputs']])
    return kcase(cs['model'], cs['params'], cs['states'], ins)


# ------------------------------------------------------------------ generators
class Gen:
    """cases(model, count) -> list of case dicts with series of exactly N steps"""

    def __init__(self, rng, N, owrun, driver=None):
        self.rng, self.N, self.owrun = rng, N, owrun
        self.signed = False       # C14 quantifies over ALL input values: it sets this and gets a few sign-changing series
        # fixed lengths in the borrowed generators
        c12.gen_n = lambda rng, quick, allow0=True: N
        c16.series_len = lambda rng: N

    # -- rainfall-runoff (states = the model's own InitialiseStates, then warm states)
    def rr(self, model, count):
        rng, N = self.rng, self.N
        vecs = []
        for k in range(count):
            ps = rrlib.draw_params(rng, model, p_end=0.25)
            if model == 'GR4J' and k % 3 == 0:
                h = rng.randint(1, 8) / 2.0
                ps[3] = min(4.0, max(0.5, h + rng.choice([0.0, 1e-9, -1e-9, 1e-3, -1e-3, 0.25])))
            if model == 'Sacramento':
                r = rng.random()
                if r < 0.35:                         # single unit-hydrograph ordinate: hot start must be exact (round-off)
                    ps[18:22] = [0.0, 0.0, 0.0, 0.0]
                    ps[17] = rng.choice([1.0, 1.0, rng.uniform(0.1, 1.0)])
                    if r < 0.2:
                        ps[11] = 0.0                 # side = 0: no rescaling of the lower-zone free water at all
            vecs.append(ps)
        inits = [rrlib.parse_init(l) for l in run_filtered(self.owrun, [rrlib.init_line(model, ps) for ps in vecs], 'CRASH', env=GOENV)]
        out = []
        for ps, st0 in zip(vecs, inits):
            if st0 is None:
                continue
            regime = rng.choice(rrlib.REGIMES)
            rain, pet = rrlib.forcing(rng, regime, N)
            ins = [rain] if rrlib.NINPUTS[model] == 1 else [rain, pet]
            warm = model in ('GR4J', 'Sacramento', 'Simhyd', 'Surm') and rng.random() < 0.3
            if self.signed and rng.random() < 0.08:
                # "all parameter/input/state values" (C14): a series that is zero almost everywhere with a few NEGATIVE entries
                # (and nothing above zero), from a cold start - whatever the kernel does with it, the same code run on the
                # same numbers must do it again, a prefix must not depend on the rest, and the kernel model must agree
                warm = False
                rain = [0.0] * N
                for _ in range(rng.randint(1, 3)):
                    rain[rng.randrange(N)] = -rng.choice([1.0, 0.5, rng.uniform(0.01, 20.0)])
                if rng.random() < 0.5:
                    pet = [0.0] * N
                ins = [rain] if rrlib.NINPUTS[model] == 1 else [rain, pet]
                regime = 'signed'
            if warm:                                 # stores at capacity / above, at, below field capacity / part full
                st0 = rrlib.warm_states(rng, model, ps, st0)
            out.append(mkcase(model, ps, st0, ins, regime=regime, warm=warm))
        return out

    def musk(self, count):
        out = []
        while len(out) < count:
            cs = c11.musk_cases(self.rng, 1)[0]
            if cs['dt'] == 0.0:
                continue
            fi, fl = fit(cs['inflow'], self.N), fit(cs['lateral'], self.N)
            if fi is None or fl is None:
                continue
            out.append(mkcase('Muskingum', [cs['K'], cs['X'], cs['dt']], cs['states'], [fi, fl], kind=cs['kind']))
        return out

    def lag(self, count):
        rng, N = self.rng, self.N
        out = []
        for _ in range(count):
            L = rng.choice([0, 1, 2, 3, 5, rng.randint(0, N), N - 1, N, N + 1, 2 * N, rng.randint(N, 2 * N + 2)])
            extra = rng.choice([0, 0, 0, 1, 3])           # longer state vector: surplus entries are carried untouched
            buf = [rng.choice([rng.uniform(0.1, 100), rng.uniform(0.1, 100), 0.0]) for _ in range(L + extra)]
            frac = rng.choice([0.0, 0.0, 0.0, 0.25, 0.999])
            inflow = c11.gen_series(rng, N, rng.choice(['wet', 'wet', 'spells', 'pulse', 'const']), rng.choice([1.0, 50.0]))
            out.append(mkcase('Lag', [L + frac], buf, [inflow], L=L))
        return out

    def sr(self, count):
        out = []
        while len(out) < count:
            cs = c11.sr_cases(self.rng, 1)[0]
            if not c11.sr_in_domain(cs) or cs['dom'] == 'highbias':
                continue
            rows = [fit(cs[k], self.N) for k in ('inflow', 'lateral', 'rain', 'evap')]
            if any(r is None for r in rows) or not all(finite_all(r) for r in rows):
                continue
            cs = dict(cs, inflow=rows[0], lateral=rows[1], rain=rows[2], evap=rows[3])
            out.append(mkcase('StorageRouting', [cs['bias'], cs['k'], cs['m'], cs['area'], cs['dead'], cs['dt']],
                              cs['states'], rows, c11=cs, dt=cs['dt'], dom=cs['dom']))
        return out

    def c12model(self, model, count):
        out = []
        g = getattr(c12, C12GEN[model])
        for k in range(count):
            if model in ('StorageDissolvedDecay', 'InstreamDissolvedNutrientDecay'):
                case = g(self.rng, True, decay=(k % 2 == 1))
            elif model == 'InstreamFineSediment':
                case = g(self.rng, True, lowbank=(True if k % 5 == 4 else False))
            else:
                case = g(self.rng, True)
            if k % 4 == 3 and case.states and not case.meta.get('decay'):
                # SMALL positive stores (a guaranteed share, whatever the seed): stored masses in (0, 1] kg carried into a run or
                # across a cut sit next to the conventions some kernels attach to the sign and size of a stored value
                case.states = [self.rng.choice([0.25, 0.5, 1.0, self.rng.random(), 1e-3]) if v >= 0 else v for v in case.states]
            out.append(mkcase(model, case.params, case.states, case.inputs, c12=case, dt=case.dt,
                              decay=bool(case.meta.get('decay'))))
        return out

    def storage(self, count):
        rng, N = self.rng, self.N
        out = []
        for idx in range(count):
            # every 4th case sits still on a vertical step of the release curves, every 4th starts on an interior table
            # point (guaranteed reach, whatever the seed); the others are drawn freely
            cat = idx % 4
            n = rng.choice([2, 2, 3, 3, 4, 5, 6] if cat >= 2 else [3, 3, 4, 5, 6])
            style = rng.choice(['spillway', 'spillway', 'general', 'general', 'flat', 'wet-bottom'])
            levels, volumes, areas, minrel, maxrel = c13.gen_tables(rng, n, style)
            dt = rng.choice([86400.0, 86400.0, 86400.0, 3600.0, 43200.0, 600.0, 60.0, float(rng.randint(1, 86400))])
            regime = rng.choice(['fill', 'drawdown', 'steady', 'rain', 'pulse', 'cycle', 'mixed', 'mixed'])
            cap = volumes[-1]
            flowcap = cap * (86400.0 / dt if rng.random() < 0.5 else 1.0)
            rain, pet, inflow, demand = c13.gen_series(rng, regime, N, flowcap, dt, maxrel[-1])
            v0 = rng.choice([0.0, volumes[0], cap, cap * 1.3, cap * rng.random(), cap * rng.random(), cap * 0.999, cap * 0.01])
            tmc = [rng.choice([0.0, cap * 0.1])] * N
            # table points: a storage started EXACTLY on a row of its level/volume/area table (full supply, a crest, the
            # dead storage are normally rows) -- first, interior and last point; and tables with a repeated volume (a
            # vertical step of the release curves, e.g. a spillway crest listed twice)
            r = rng.random()
            if cat == 0:
                r = 0.0
            elif cat == 1:
                r = 0.4
            if r < 0.5:
                k = rng.choice(([0, n - 1] if cat >= 2 else []) + list(range(1, n - 1)) * 3)
                if r < 0.3 and 1 <= k <= n - 2 and volumes[0] < volumes[k]:
                    for tab in (levels, volumes, areas, minrel, maxrel):
                        tab.insert(k + 1, tab[k])
                    # the step: the minimum release jumps at this volume (a crest), the curves stay ordered above it
                    minrel[k + 1] = minrel[k] + rng.uniform(0.05, 0.5) * max(maxrel[-1], cap / 86400.0 * 0.01)
                    for j in range(k + 1, len(minrel)):
                        minrel[j] = max(minrel[j], minrel[k + 1])
                        maxrel[j] = max(maxrel[j], minrel[j])
                    n += 1
                    style += '+step'
                v0 = volumes[k]
                if cat == 0 or rng.random() < (0.65 if style.endswith('+step') else 0.35):
                    # nothing moves: the volume stays on the table point for the whole run
                    rain, pet, inflow, demand = [0.0] * N, [0.0] * N, [0.0] * N, [0.0] * N
                    regime = 'static-on-table-point'
            params = [dt, float(n)] + levels + volumes + areas + minrel + maxrel
            out.append(mkcase('Storage', params, [v0, -1.0, -2.0], [rain, pet, inflow, demand, [0.0] * N, tmc],
                              style=style, regime=regime))
        return out

    def c16model(self, model, count):
        out = []
        m = c16.MODELS[model]
        tries = 0
        while len(out) < count and tries < 200 * count:
            tries += 1
            p, ins, meta = m.gen(self.rng)
            if model == 'RatingCurvePartition' and not m.must_be_defined(meta):
                continue
            if not all(len(r) == self.N for r in ins):
                continue
            out.append(mkcase(model, p, [], ins, exact=m.exact))
        return out

    def climate(self, count):
        out = []
        for _ in range(count):
            pts = []
            while len(pts) < self.N:
                pts += c20.random_points(self.rng, 4)
            self.rng.shuffle(pts)
            pts = pts[:self.N]
            elev = self.rng.choice([0.0, 10000.0, self.rng.uniform(0, 10000), self.rng.uniform(0, 3000)])
            out.append(mkcase('ClimateVariables', [elev], [], [[t for t, h in pts], [h for t, h in pts]]))
        return out

    def dates(self, count):
        out = []
        for _ in range(count):
            y = self.rng.choice([self.rng.randint(-400, 9999), self.rng.randint(1890, 2110), 2000, 1900])
            m = self.rng.randint(1, 12)
            leap = (y % 4 == 0 and y % 100 != 0) or y % 400 == 0
            d = self.rng.randint(1, [31, 29 if leap else 28, 31, 30, 31, 30, 31, 31, 30, 31, 30, 31][m - 1])
            out.append(mkcase('DateGenerator', [d, m, y], [], [[0.0] * self.N]))
        return out

    def cases(self, model, count):
        if model in RR:
            return self.rr(model, count)
        if model == 'Muskingum':
            return self.musk(count)
        if model == 'Lag':
            return self.lag(count)
        if model == 'StorageRouting':
            return self.sr(count)
        if model in C12GEN:
            return self.c12model(model, count)
        if model == 'Storage':
            return self.storage(count)
        if model in c16.MODELS:
            return self.c16model(model, count)
        if model == 'ClimateVariables':
            return self.climate(count)
        if model == 'DateGenerator':
            return self.dates(count)
        raise KeyError(model)


# ------------------------------------------------------------------ long, stiff Storage runs
def _storage_case(d, **meta):
    n = len(d['rain'])
    params = [d['dt'], float(d['n'])] + d['levels'] + d['volumes'] + d['areas'] + d['minrel'] + d['maxrel']
    return mkcase('Storage', params, [d['v0'], -1.0, -2.0], [d['rain'], d['pet'], d['inflow'], d['demand'], [0.0] * n, d['tmc']],
                  style=d.get('style', ''), regime=d.get('regime', ''), long=True, **meta)


def long_storage_cases(rng, steps):
    """long runs of STIFF reservoirs (release strongly volume dependent, so that every daily step is refined down to
    ~60 s sub-steps: hundreds to thousands of accepted sub-steps per step), daily steps.  What a counter, budget or
    run-length dependent quantity carried across a whole Run call needs in order to show.
      1. the long seasonal irrigation storage of tools/c13.py (long_cases), cut / extended to `steps`
      2. a spillway reservoir (release 0 below full supply, steep above) under seasonal inflow with flood pulses
      3. a randomly scaled and phase-shifted variant of 1
    None of them can be drawn down to empty (nothing is released or evaporated at zero volume)."""
    years = (steps + 364) // 365
    out = []
    base = c13.long_cases(years)[0]
    d = dict(base)
    for k in ('rain', 'pet', 'inflow', 'demand', 'tmc'):
        d[k] = base[k][:steps]
    out.append(_storage_case(d, design='c13.long_cases'))
    # 2. spillway
    q = rng.choice([0.5, 1.0, 2.0])
    cap = 1e6 * q * rng.uniform(0.8, 1.25)
    rain, pet, inflow, demand = [], [], [], []
    phase = rng.randrange(365)
    for t in range(steps):
        doy = (t + phase) % 365
        season = 0.5 * (1 + math.sin(2 * math.pi * doy / 365))
        flood = 45.0 if (doy % 61) < 4 else 0.0
        inflow.append(q * (15.0 + 20.0 * season + flood))
        demand.append(q * 2.0 * (1 - season))
        pet.append(1.0 + 4.0 * (1 - season))
        rain.append(8.0 * season if t % 7 == 0 else 0.0)
    out.append(_storage_case(dict(dt=86400.0, n=3, levels=[0.0, 10.0, 20.0], volumes=[0.0, cap, 2 * cap],
                                  areas=[0.0, 1e5 * q, 2e5 * q], minrel=[0.0, 0.0, 500.0 * q], maxrel=[0.0, 5.0 * q, 600.0 * q],
                                  v0=cap * rng.uniform(0.3, 1.0), rain=rain, pet=pet, inflow=inflow, demand=demand,
                                  tmc=[0.0] * steps, style='spillway', regime='long-seasonal-floods'), design='spillway'))
    # 3. scaled / shifted variant of 1
    sc = rng.choice([0.25, 0.5, 2.0, 3.0]) * rng.uniform(0.9, 1.1)
    ph = rng.randrange(1, 365)
    big = c13.long_cases(years + 1)[0]
    d = dict(base)
    for k in ('rain', 'pet'):
        d[k] = big[k][ph:ph + steps]
    for k in ('inflow', 'demand'):
        d[k] = [v * sc for v in big[k][ph:ph + steps]]
    d['tmc'] = [0.0] * steps
    d['volumes'] = [v * sc for v in base['volumes']]
    d['areas'] = [v * sc for v in base['areas']]
    d['minrel'] = [v * sc for v in base['minrel']]
    d['maxrel'] = [v * sc for v in base['maxrel']]
    d['v0'] = d['volumes'][2] * rng.random()
    d['regime'] = 'long-seasonal-scaled'
    out.append(_storage_case(d, design='c13.long_cases scaled x%.3g, phase %d' % (sc, ph)))
    return out

# ------------------------------------------------------------------ model-vs-code comparison
def agree(cs, ri, rm):
    """None when the implementation result ri and the model result rm (parse_kresult triples) agree to the
    tolerance of the model's own check; else a description"""
    m = cs['model']
    if m in ('Muskingum', 'Lag', 'Storage', 'DateGenerator', 'RunoffCoefficient'):
        return kresults_agree(ri, rm)
    if m in RR:
        at = rrlib.abs_tol(cs['params'], cs['states'], cs['inputs'][0]) if hasattr(rrlib, 'abs_tol') else 1e-12
        return kresults_agree(ri, rm, rtol=1e-9, atol=at)
    if m == 'StorageRouting':
        c = dict(cs['meta']['c11'])
        n = len(ri[1][0]) if ri[0] == 'OK' else 0
        for k in ('inflow', 'lateral', 'rain', 'evap'):
            c[k] = c[k][:n] if n else c[k]
        c['states'] = cs['states']
        d = c11.sr_agree(c, ri, rm)
        return None if d in (None, 'solver') else d
    if m in C12GEN:
        case = cs['meta']['c12']
        shadow = c12.Case(m, cs['params'], cs['states'], cs['inputs'], case.dt, **case.meta)
        return c12.agree(shadow, ri, rm)
    if m in c16.MODELS:
        return c16.agree(ri, rm, cs['meta'].get('exact', True))
    if m == 'ClimateVariables':
        return kresults_agree(ri, rm, rtol=1e-9, atol=1e-12)
    return kresults_agree(ri, rm)


def rr_conditioned(drv, cs, make_line, parser, impl_results, model_results, info=None):
    """rainfall-runoff kernels are ill-conditioned on some inputs (C10): a disagreement beyond the tolerance is accepted when
    the model's own sensitivity to small relative perturbations explains it.  The sensitivity is measured with SEVERAL
    perturbed model runs (rrlib.perturbed_cases: factors 1 +- 1e-14 and 1 +- 1e-13 on the parameters, on the parameters with
    alternating sign, on the forcing and on the initial states) and, per time step, the largest deviation over all of them
    counts -- a single one-sided perturbation misses half of the cases that sit on a floor()/comparison threshold.
    -> None (explained; [info], if a dict, receives the largest amplification and the number of runs) or a description"""
    if cs['model'] in C12GEN:
        return cancellation_conditioned(drv, cs, make_line, parser, impl_results, model_results, info=info)
    if cs['model'] not in RR:
        return 'not a rainfall-runoff model'
    rain = cs['inputs'][0]
    pet = cs['inputs'][1] if len(cs['inputs']) > 1 else []
    pcs = rrlib.perturbed_cases(cs['model'], cs['params'], cs['states'], rain, pet)
    weights = rrlib.perturbed_weights(cs['model'], cs['params'], cs['states'], rain, pet)
    plines = [make_line(dict(cs, params=ps2, states=st2, inputs=[rain2] if len(cs['inputs']) == 1 else [rain2, pet2]))
              for (_, ps2, st2, rain2, pet2) in pcs]
    res = run_filtered(drv, plines, 'MODELCRASH')
    rpss = [parser(r) for r in res]
    keep = [(w, rps) for w, rps in zip(weights, rpss) if rps is not None and len(rps) == len(model_results)]
    if not keep:
        return 'perturbed model runs failed: %s' % res[0][:80]
    at = rrlib.abs_tol(cs['params'], cs['states'], rain)
    amp = 0.0
    for k, (ri, rm) in enumerate(zip(impl_results, model_results)):
        inf = {}
        d = rrlib.conditioned_agree(ri, rm, [rps[k] for _, rps in keep], 1e-9, at, info=inf, weights=[w for w, _ in keep])
        if d:
            return d
        amp = max(amp, inf.get('amplification', 0.0))
    if info is not None:
        info['amplification'] = amp
        info['perturbed_runs'] = len(keep)
    return None


def cancellation_conditioned(drv, cs, make_line, parser, impl_results, model_results, info=None):
    """The constituent kernels report RATIOS (deposition fractions, concentrations) whose denominators are differences of
    pow/exp terms; on trajectories the kernels were not written for (C14 draws ANY state value, e.g. a negative stored mass)
    a denominator can cancel to 1e-9 of its operands or a comparison can sit within an ulp of its threshold, and one ulp of
    libm difference between Go and the extracted kernel then shows as 1e-9 relative in the ratio.  A uniform scaling of the data does not show that sensitivity (numerator and
    denominator scale together), so it is measured with INDEPENDENT relative perturbations: every parameter, state and
    input value multiplied by 1 +- delta with its own sign (delta 1e-14 and 1e-13, four draws each, deterministic in the
    case), the extracted kernel run on each, and rrlib.conditioned_agree with the model's own tolerances deciding.
    -> None (explained) or a description"""
    import condlib
    why = condlib.out_of_domain(cs['model'], cs['params'], cs['states'], cs['inputs'], model_results[0] if model_results else None)
    if why is None:
        return 'in-domain case: no sensitivity allowance'
    pcs = condlib.perturbed(cs['params'], cs['states'], cs['inputs'], cs.get('alt'), key=cs['model'])
    lines = [make_line(dict(cs, params=p2, states=s2, inputs=i2, **({'alt': a2} if a2 is not None else {}))) for (_, p2, s2, i2, a2) in pcs]
    res = run_filtered(drv, lines, 'MODELCRASH')
    rpss = [parser(x) for x in res]
    weights = [w for (w, _, _, _, _) in pcs]
    for k, (ri, rm) in enumerate(zip(impl_results, model_results)):
        d = condlib.explained(ri, rm, [rps[k] if rps is not None and len(rps) == len(model_results) else None for rps in rpss], weights, info=info)
        if d:
            if os.environ.get('VERIF_DEBUG_COND'):
                sys.stderr.write('COND %s why=%s -> %s ; perturbed ok: %d of %d ; first: %s\n' % (cs['model'], why, d[:200], sum(1 for r in rpss if r), len(rpss), res[0][:80]))
            return d
    return None


def layout_neighbours(cs, rng):
    """Models whose state-vector LAYOUT depends on a parameter (GR4J: n1 = ceil(x4), n2 = ceil(2 x4) are carried in the
    state vector; Lag: the buffer has floor(lag) entries, surplus entries are carried untouched): the same parameters with
    a state vector of ANOTHER legal layout, as a hot start from states written under another parameter value produces it.
    Run between the repetitions of a case, they show anything that is remembered per parameter value (tables sized by the
    layout) instead of per run.  -> list of cases (empty for the other models)"""
    m, p, st = cs['model'], cs['params'], cs['states']
    out = []
    if m == 'GR4J' and len(st) >= 4:
        n1, n2 = int(st[2]), int(st[3])
        legal = [(1, 1), (1, 2), (2, 3), (2, 4), (3, 5), (3, 6), (4, 7), (4, 8)]     # (ceil x4, ceil 2 x4) for x4 in [0.5, 4]
        longer = [l for l in legal if l[0] >= n1 and l[1] >= n2 and l != (n1, n2)]
        shorter = [l for l in legal if l[0] <= n1 and l[1] <= n2 and l != (n1, n2)]
        for pick in ([rng.choice(longer)] if longer else []) + ([rng.choice(shorter)] if shorter else []) + [(4, 8), (1, 1)]:
            k1, k2 = pick
            if (k1, k2) != (n1, n2) and not any(o['states'][2:4] == [float(k1), float(k2)] for o in out):
                q = [rng.choice([0.0, rng.uniform(0.0, 20.0)]) for _ in range(k1 + k2)]
                out.append(dict(cs, states=[st[0], st[1], float(k1), float(k2)] + q))
    if m == 'Lag':
        out.append(dict(cs, states=list(st) + [rng.uniform(0.1, 50.0) for _ in range(rng.randint(1, 3))]))
    return out


def nontrivial(res):
    return res[0] == 'OK' and any(v != 0.0 for r in res[1] for v in r)


def split_results(line):
    """one harness / driver answer line -> list of parse_kresult triples"""
    if not line.startswith(('OK ', 'PANIC')):
        return None
    try:
        return [parse_kresult(p.strip()) for p in line.split(' | ') if not p.startswith('PARENT')]
    except (IndexError, ValueError, AssertionError):
        return None


def parent_part(line):
    """the trailing ' | PARENT checks bad [detail]' of a SPLIT answer in a view mode -> (checks, bad, detail) or None"""
    last = line.rsplit(' | ', 1)[-1].split()
    if len(last) >= 3 and last[0] == 'PARENT':
        return int(last[1]), int(last[2]), ' '.join(last[3:])
    return None


def brief(cs):
    return {'model': cs['model'], 'params': cs['params'], 'states': cs['states'], 'inputs': cs['inputs'],
            'meta': {k: v for k, v in cs['meta'].items() if isinstance(v, (int, float, str, bool))}}
