"""Measured-sensitivity allowance for the constituent kernels, shared by C12 (its own correspondence), C06 and C14 (through
hslib).  It applies ONLY to cases outside the domain the kernels were written for:
  * a negative state or input value (C14 draws any value), or
  * a POLE of a reported ratio: InstreamFineSediment's floodplain / channel deposition FRACTION (outputs 3 and 4), a quotient
    by a difference of pow/exp terms, is far outside anything a fraction can mean (|value| > 1000) in the reference run.
There a denominator cancels to ~1e-9 of its operands, or an integer-valued intermediate sits within an ulp of a step, and one
ulp of libm difference between Go and the extracted kernel shows as > 1e-9 relative in that output (seen: -8.457577020e6 vs
-8.457577003e6; eight independently perturbed kernel runs gave the quantised answers 0, 1x and 2x that difference).
Inside the domain the comparison stays strict: a value sitting exactly on a comparison threshold and a changed comparison look
the same to any perturbation test (see DESIGN.md 11.3a).
The sensitivity is measured with INDEPENDENT relative perturbations (every parameter, state and input value times 1 +- delta
with its own sign; delta 1e-14 .. 1e-11, eight draws each, deterministic in the case; a deviation seen at delta counts
scaled by 1e-14/delta, so the larger ones help to reach a step without loosening smooth cases) of the extracted kernel, and
rrlib.conditioned_agree with the model's own tolerances decides."""
import random
import rrlib

FRACTION_OUTPUTS = {'InstreamFineSediment': (3, 4)}


def out_of_domain(model, params, states, inputs, model_result):
    if any(v < 0 for v in states) or any(v < 0 for row in inputs for v in row):
        return 'negative state or input'
    if model in FRACTION_OUTPUTS and model_result is not None and model_result[0] == 'OK':
        for k in FRACTION_OUTPUTS[model]:
            if k < len(model_result[1]) and any(v == v and abs(v) > 1e3 for v in model_result[1][k]):
                return 'pole of a reported fraction (|value| > 1000)'
    return None


def perturbed(params, states, inputs, extra_rows=None, key=''):
    """-> list of (weight, params', states', inputs', extra_rows')"""
    r = random.Random(repr((key, params, states))[:400])
    out = []
    for delta in (1e-14, 1e-13, 1e-12, 1e-11):
        for _ in range(8):
            f = lambda v: v * (1.0 + delta * r.choice((-1.0, 1.0)))
            out.append((1e-14 / delta, [f(v) for v in params], [f(v) for v in states], [[f(v) for v in row] for row in inputs],
                        None if extra_rows is None else [[f(v) for v in row] for row in extra_rows]))
    return out


def explained(ri, rm, perturbed_results, weights, info=None):
    """None when the disagreement of ri (implementation) and rm (kernel) is within what the perturbed kernel runs show"""
    keep = [(w, rp) for w, rp in zip(weights, perturbed_results) if rp is not None]
    if not keep:
        return 'perturbed kernel runs failed'
    mag = 0.0
    if ri[0] == 'OK':
        mag = max([abs(x) for row in ri[1] for x in row if x == x and abs(x) != float('inf')] + [0.0])
    inf = {}
    d = rrlib.conditioned_agree(ri, rm, [rp for _, rp in keep], 1e-9, 1e-12 * mag + 1e-300, info=inf, weights=[w for w, _ in keep])
    if d is None and info is not None:
        info['amplification'] = max(info.get('amplification', 0.0), inf.get('amplification', 0.0))
        info['perturbed_runs'] = info.get('perturbed_runs', 0) + len(keep)
    return d
