"""C-ABI SESSIONS: sequences of RunSingleModel calls in ONE cdriver process (one loaded
libopenwater.so), mixing models and instances - what a driver that advances several model
instances window by window does:

    cold start (initStates=1) of instance A, cold start of instance B of the same and of other
    model types (different parameter tables / table dimensions for Storage and
    RatingCurvePartition, other X4 / lag - hence other state widths - for GR4J and Lag), then
    hot starts (initStates=0) of A and B on the state buffers their previous calls returned, each on
    the next window of its input record.

Every call is compared bit for bit (outputs, final states) with the same call through the Go API
on fresh objects (owrun `V` line), and the canary zones / inputs / parameters must be intact.
Parameter matrices come from harness/cmd/cellrun (command PGEN: the generators of the C04 check,
table parameters laid out in max-extent blocks).  The cdriver / owrun line format is unchanged
(a table parameter is just rows of the [nParams, nParamSets] matrix).

Hook (tools/c03.py):   d.update(cabi_sessions.cabi_sessions(c))   ->  dict of coverage fields."""
import json, os, subprocess, sys
sys.path.insert(0, os.path.dirname(os.path.abspath(__file__)))
import vlib
from vlib import *

CELLRUN = os.path.join(HARNESS, 'bin', 'cellrun')
CDRIVER = os.path.join(HARNESS, 'bin', 'cdriver')
OWRUN = os.path.join(HARNESS, 'bin', 'owrun')
LIB = os.path.join(OUT, 'libopenwater.so')
PROTO = ('OK ', 'PANIC', 'NOMODEL', 'NOCMD', 'BAD')


class CProcess:
    """one cdriver process = one loaded libopenwater.so; calls are fed one at a time because a hot start
    needs the states the previous call of that instance returned"""

    def __init__(self, env=None):
        self.p = None
        self.starts = 0
        self.env = env or GOENV

    def start(self):
        self.p = subprocess.Popen([CDRIVER, LIB], stdin=subprocess.PIPE, stdout=subprocess.PIPE, stderr=subprocess.DEVNULL,
                                  text=True, bufsize=1, env=self.env)
        self.starts += 1

    def call(self, line):
        if self.p is None or self.p.poll() is not None:
            self.start()
        try:
            self.p.stdin.write(line + '\n')
            self.p.stdin.flush()
            while True:
                out = self.p.stdout.readline()
                if out == '':
                    self.p = None
                    return None                      # the process died on this call
                if out.startswith(PROTO):             # kernels print diagnostics on stdout too
                    return out.rstrip('\n')
        except (BrokenPipeError, OSError):
            self.p = None
            return None

    def close(self):
        if self.p is not None and self.p.poll() is None:
            try:
                self.p.stdin.close()
                self.p.wait(timeout=10)
            except Exception:
                self.p.kill()


def _pgen(model, nsets, seed, dims=None):
    line = 'PGEN %s %d %d' % (model, nsets, seed)
    if dims:
        line += ' ' + ','.join(map(str, dims))
    r = json.loads(run_lines(CELLRUN, [line], env=GOENV)[0])
    return r['extra']


class Instance:
    def __init__(self, rng, model, tag):
        self.model, self.tag = model, tag
        self.N = rng.choice([1, 2, 3])
        self.nPS = rng.choice([1, self.N])
        self.nIS = rng.choice([1, self.N])
        g = _pgen(model, self.nPS, rng.randrange(1 << 30))
        self.nP, self.phex = g['nP'], (g['p_hex'] or [])
        self.nI, self.nO, self.nS = g['n_inputs'], g['n_outputs'], g['state_width']
        self.dims = g['max_dims']
        self.windows = [rng.choice([1, 3, 5, 8]) for _ in range(4)]
        total = sum(self.windows)
        self.record = [[[rng.choice([0.0, rng.random() * 10, rng.random() * 10]) for _ in range(total)]
                        for _ in range(self.nI)] for _ in range(self.nIS)]
        self.t0 = 0
        self.w = 0
        self.states = None          # hex strings returned by this instance's previous call

    def next_line(self, init):
        T = self.windows[self.w % len(self.windows)]
        if self.t0 + T > len(self.record[0][0]) if self.nI else False:
            self.t0 = 0
        ins = [f2h(x) for seq in self.record for ser in seq for x in ser[self.t0:self.t0 + T]]
        self.t0 += T
        self.w += 1
        states = ['0' * 16] * (self.N * self.nS) if (init or self.states is None) else self.states
        hdr = [self.model, self.nIS, self.nI, T, self.nP, self.nPS, self.N, self.nS, self.N, self.nO, T, 1 if init else 0]
        return ' '.join(map(str, hdr)) + ' ' + ' '.join(ins + self.phex + states)

    def took(self, result):
        t = result.split()
        k = t.index('S')
        n = int(t[k + 1])
        self.states = t[k + 2:k + 2 + n]


def cabi_sessions(c):
    quick = c.tier == 'quick'
    rng = c.rng
    with vlib._Lock():
        sh('go build -buildmode=c-shared -o %s ./libopenwater' % LIB, cwd=REPO, env=GOENV, timeout=1800)
        sh('gcc -O1 -o %s %s -ldl' % (CDRIVER, os.path.join(HARNESS, 'cdriver', 'cdriver.c')))
    build_harness(['owrun', 'cellrun'])
    # instance types: two or more instances of one type per session (different tables / dimensions / widths)
    plans = [['Storage', 'Storage'], ['RatingCurvePartition', 'Storage', 'RatingCurvePartition'], ['GR4J', 'GR4J'], ['Lag', 'Lag', 'GR4J'],
             ['Storage', 'Simhyd', 'Storage'], ['Muskingum', 'Lag', 'Muskingum'], ['Storage', 'RatingCurvePartition', 'Storage', 'GR4J'],
             ['StorageRouting', 'StorageRouting'], ['Sacramento', 'Surm', 'Sacramento']]
    reps = 2 if quick else 12
    proc = CProcess()
    calls = []      # (session, step description, line, c result)
    n_sessions = 0
    dims_seen = {}
    for rep in range(reps):
        for plan in plans:
            n_sessions += 1
            insts = [Instance(rng, m, chr(65 + k)) for k, m in enumerate(plan)]
            for it in insts:
                if it.dims:
                    dims_seen.setdefault(it.model, set()).add(tuple(it.dims))
            # all cold starts first (in plan order), then 2..3 rounds of hot starts in varying order
            order = [(it, True) for it in insts]
            for rnd in range(rng.choice([1, 2]) if quick else rng.choice([2, 3])):
                hot = insts[:]
                rng.shuffle(hot)
                order += [(it, False) for it in hot]
            order = order[:max(2, min(len(order), 5 if quick else 9))] if len(insts) <= 2 else order
            dead = False
            for (it, init) in order:
                if dead:
                    break
                line = it.next_line(init)
                rc = proc.call(line)
                calls.append((n_sessions, '%s %s%s %s' % ('+'.join(plan), it.tag, '(%s)' % it.model, 'cold' if init else 'hot'), line, rc))
                if rc is None or not rc.startswith('OK'):
                    dead = True       # the session cannot continue: the instance has no returned states
                else:
                    it.took(rc)
    proc.close()
    # the same calls through the Go API, each on fresh objects
    import hslib
    res_go = hslib.run_filtered(OWRUN, ['V ' + x[2] for x in calls], 'CRASH', env=GOENV)
    agree = both_crash = hot = 0
    for (sess, what, line, rc), rg in zip(calls, res_go):
        c.count(('cabi-session', sess, what, line[:80]), nontrivial=True)
        hot += what.endswith('hot')
        bad_c, bad_g = (rc is None or not rc.startswith('OK')), not rg.startswith('OK')
        if bad_c and bad_g:
            both_crash += 1
            continue
        if bad_c or bad_g or rc.split(' C ')[0] != rg.split(' C ')[0]:
            c.violation('cabi_session_%d.json' % sess, {'kind': 'C entry point inside a session of calls differs from the same call through the Go API',
                                                        'session': sess, 'call': what, 'case': line[:2000],
                                                        'c_abi': (rc or 'process died')[:400], 'go_api': rg[:400],
                                                        'note': 'replay needs the whole session in one cdriver process: the earlier calls of session %d' % sess,
                                                        'session_lines': [x[2][:2000] for x in calls if x[0] == sess]})
        elif rc.endswith(' C 0'):
            c.violation('cabi_session_canary_%d.json' % sess, {'kind': 'C entry point touched memory outside its buffers or modified inputs / parameters (session)',
                                                               'session': sess, 'call': what, 'case': line[:2000]})
        else:
            agree += 1
    stale_cov = stale_buffer_calls(c, rng, quick)
    stale_cov.update(degenerate_table_calls(c, rng, quick))
    return {**stale_cov, 'cabi_sessions': n_sessions, 'cabi_session_calls': len(calls), 'cabi_session_hot_starts': hot,
            'cabi_session_calls_agree': agree, 'cabi_session_both_crash': both_crash,
            'cabi_session_cdriver_processes': proc.starts,
            'cabi_session_table_dimensions_seen': {m: sorted(map(list, v)) for m, v in dims_seen.items()}}


def _stale_bits(off):
    import struct
    if off % 2 == 0:
        return '%016x' % (0x7ff8dead00000000 | (off & 0xffff))
    return f2h(3.25e300 + float(off % 1000) * 1e287)


def stale_buffer_calls(c, rng, quick):
    """Cold starts through the C entry point on caller buffers that are NOT zeroed (cdriver with
    CDRIVER_STALE=1: outputs and the state buffer hold a NaN / huge-value pattern), with degenerate forcing
    (all inputs zero, constant, random), for every catalogued model.  Compared with the Go API on fresh zero
    arrays: a written element must be bit-identical; an element left untouched must be 0 in the reference;
    and whether an output series is written must not depend on the inputs (same rule and finding keys as
    tools/c04.py: wraplib.UnwrittenOutputs)."""
    import wraplib
    cat = json.loads(run_lines(CELLRUN, ['DESC'], env=GOENV)[0])['extra']
    proc = CProcess(env=dict(GOENV, CDRIVER_STALE='1'))
    calls = []
    for m in sorted(cat):
        if cat[m]['inputs'] == 0:
            continue
        for k, forcing in enumerate(('zero', 'rand', 'const') if quick else ('zero', 'rand', 'const', 'zero', 'rand', 'zero0')):
            g = _pgen(m, 1, rng.randrange(1 << 30))
            N, T = 2, 5
            nI, nO, nS = g['n_inputs'], g['n_outputs'], g['state_width']
            ins = []
            for seq in range(N):
                for j in range(nI):
                    v0 = rng.random() * 10
                    for t in range(T):
                        x = 0.0 if forcing == 'zero' or (forcing == 'zero0' and j == 0) else v0 if forcing == 'const' else rng.random() * 10
                        ins.append(f2h(x))
            hdr = [m, N, nI, T, g['nP'], 1, N, nS, N, nO, T, 1]
            line = ' '.join(map(str, hdr)) + ' ' + ' '.join(ins + (g['p_hex'] or []) + ['0' * 16] * (N * nS))
            calls.append((m, forcing, nO, T, N, line, proc.call(line)))
    proc.close()
    import hslib
    res_go = hslib.run_filtered(OWRUN, ['V ' + x[5] for x in calls], 'CRASH', env=GOENV)
    uw = wraplib.UnwrittenOutputs()
    agree = skipped = 0
    for (m, forcing, nO, T, N, line, rc), rg in zip(calls, res_go):
        c.count(('cabi-stale', m, forcing), nontrivial=True)
        bad_c, bad_g = (rc is None or not rc.startswith('OK')), not rg.startswith('OK')
        if bad_c and bad_g:
            skipped += 1
            continue
        if bad_c or bad_g:
            c.violation('cabi_stale_%s.json' % m, {'kind': 'C entry point on non-zeroed caller buffers: one side fails', 'model': m, 'forcing': forcing,
                                                   'case': line[:1500], 'c_abi': (rc or 'process died')[:300], 'go_api': rg[:300]})
            continue
        tc, tg = rc.split(), rg.split()
        no = int(tc[2])
        oc, og = tc[3:3 + no], tg[3:3 + no]
        unwritten = [0] * nO
        problems = []
        for off in range(no):
            k = (off // T) % nO
            if oc[off] == _stale_bits(off):
                unwritten[k] += 1
                if og[off] != '0' * 16:
                    problems.append('output %d element %d: left untouched by the C call, the Go API on a fresh array gives %s' % (k, off, h2f(og[off])))
            elif oc[off] != og[off]:
                problems.append('output %d element %d: C %s, Go %s' % (k, off, h2f(oc[off]), h2f(og[off])))
        if rc.split(' S ')[1].split(' C ')[0] != rg.split(' S ')[1].split(' C ')[0]:
            problems.append('final states differ (a cold start must overwrite the whole caller state buffer)')
        if rc.endswith(' C 0'):
            problems.append('canary zones / inputs / parameters touched')
        if problems:
            c.violation('cabi_stale_%s.json' % m, {'kind': 'C entry point on non-zeroed caller buffers differs from the Go API on fresh arrays',
                                                   'model': m, 'forcing': forcing, 'problems': problems[:8], 'case': line[:1500],
                                                   'replay': 'echo "<case>" | CDRIVER_STALE=1 harness/bin/cdriver out/libopenwater.so'})
        else:
            agree += 1
        uw.add('CDRIVER_STALE=1 ' + line[:600], {'model': m, 'unwritten_per_output': unwritten, 'elements_per_output': N * T})
    cov = uw.report(c, 'C03')
    return {'cabi_stale_buffer_calls': len(calls), 'cabi_stale_buffer_calls_agree': agree, 'cabi_stale_buffer_both_fail': skipped,
            'cabi_' + 'outputs_never_written': cov['outputs_never_written_by_the_kernel'],
            'cabi_' + 'outputs_written_only_on_some_inputs': cov['outputs_written_only_on_some_inputs']}


# table sizes per parameter set: one row, two rows, all sets the same size, the largest size only in the
# last set, sizes 1 and n mixed across the sets
TABLE_SIZE_PATTERNS = [[1], [2], [1, 1], [2, 2, 2], [3, 3], [2, 2, 4], [1, 1, 3], [1, 3], [3, 1], [1, 4, 1], [4, 1, 1], [2, 1]]


def degenerate_table_calls(c, rng, quick):
    """The dimensioned models (table-valued parameters) through the C entry point with DEGENERATE table
    sizes, call for call against the Go API (owrun V), INCLUDING failure modes: both fail = agree; one
    side fails, or the numbers differ = violation.  Cold and hot starts, one cdriver process."""
    cat = json.loads(run_lines(CELLRUN, ['DESC'], env=GOENV)[0])['extra']
    dimensioned = sorted(m for m in cat if cat[m].get('dimensions'))
    proc = CProcess()
    calls = []
    for m in dimensioned:
        for rep in range(1 if quick else 4):
            for pat in TABLE_SIZE_PATTERNS:
                nPS = len(pat)
                g = _pgen(m, nPS, rng.randrange(1 << 30), pat)
                N = max(nPS, rng.choice([1, 2, 3]))
                T = rng.choice([3, 6])
                nI, nO, nS = g['n_inputs'], g['n_outputs'], g['state_width']
                nIS = rng.choice([1, N])
                for init in (1, 0):
                    ins = [f2h(rng.choice([0.0, rng.random() * 10])) for _ in range(nIS * nI * T)]
                    states = ['0' * 16] * (N * nS)
                    hdr = [m, nIS, nI, T, g['nP'], nPS, N, nS, N, nO, T, init]
                    line = ' '.join(map(str, hdr)) + ' ' + ' '.join(ins + (g['p_hex'] or []) + states)
                    calls.append((m, pat, init, line, proc.call(line)))
    proc.close()
    import hslib
    res_go = hslib.run_filtered(OWRUN, ['V ' + x[3] for x in calls], 'CRASH', env=GOENV)
    agree = both_fail = 0
    sizes = {}
    fail_by = {}
    for (m, pat, init, line, rc), rg in zip(calls, res_go):
        c.count(('cabi-tables', m, tuple(pat), init, line[:60]), nontrivial=True)
        sizes.setdefault(m, set()).add(tuple(pat))
        bad_c, bad_g = (rc is None or not rc.startswith('OK')), not rg.startswith('OK')
        if bad_c and bad_g:
            both_fail += 1
            fail_by[m] = fail_by.get(m, 0) + 1
            continue
        if bad_c or bad_g or rc.split(' C ')[0] != rg.split(' C ')[0] or rc.endswith(' C 0'):
            c.violation('cabi_tables_%s_%s.json' % (m, '_'.join(map(str, pat))), {
                'kind': 'C entry point differs from the Go API for a dimensioned model with degenerate table sizes',
                'model': m, 'table_sizes_per_parameter_set': pat, 'initStates': init, 'case': line[:3000],
                'c_abi': (rc or 'process died (panic inside the library)')[:400], 'go_api': rg[:400],
                'replay': 'echo "<case>" | harness/bin/cdriver out/libopenwater.so    vs    echo "V <case>" | harness/bin/owrun'})
        else:
            agree += 1
    return {'cabi_degenerate_table_calls': len(calls), 'cabi_degenerate_table_calls_agree': agree,
            'cabi_degenerate_table_calls_both_fail': both_fail, 'cabi_degenerate_table_both_fail_by_model': fail_by,
            'cabi_degenerate_table_sizes': {m: sorted(map(list, v)) for m, v in sizes.items()}}
