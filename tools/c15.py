#!/usr/bin/env python3
"""C15 check: theorems in coq/Properties/C15.v + correspondence of
Kernels/Gr4j.v with models/rr/gr4j.go (through sim.Catalog) + the C15 oracle:
an independent float64 implementation of the published daily GR4J (Perrin et
al. 2003: S-curve functions with exponent 5/2, UH ordinates as their
differences, routing by explicit convolution) compared with the
implementation's runoff and final stores."""
import sys, os
sys.path.insert(0, os.path.dirname(os.path.abspath(__file__)))
from vlib import *
import rrlib
from rrlib import *

RTOL, ATOL = 1e-9, 1e-10     # ATOL in mm: (R - R/(1+(R/x3)^4)^(1/4)) cancels for R << x3


def x4_grid(quick):
    g = set()
    step = 0.125 if quick else 0.03125
    x = 0.5
    while x <= 4.0 + 1e-12:
        g.add(round(x, 6))
        x += step
    for k in range(1, 9):                       # both sides of every integer and half-integer
        h = k / 2.0
        for d in (0.0, 1e-12, -1e-12, 1e-9, -1e-9, 1e-4, -1e-4, 0.01, -0.01):
            v = h + d
            if 0.5 <= v <= 4.0:
                g.add(v)
    return sorted(g)


def main():
    c = Check('C15')
    c.prove()
    build_driver(['rr'])          # private driver with the rr fragment only (Extract/lists/rr.list, registry.d/rr.*)
    build_harness(['owrun'])
    rng = c.rng
    quick = c.tier == 'quick'
    illcond = [0, 0]          # accepted by the measured-sensitivity test: model-vs-code, code-vs-published
    illamp = [0.0, 0.0]       # largest measured amplification (relative output change per relative input change)
    reps = 16 if quick else 60
    lengths = [1, 2, 7, 40, 120, 400] if quick else [0, 1, 2, 7, 40, 120, 400, 1000]

    vecs = []
    for x4 in x4_grid(quick):
        for _ in range(reps):
            ps = draw_params(rng, 'GR4J', p_end=0.3)
            ps[3] = x4
            vecs.append(ps)
    for _ in range(40 if quick else 600):       # x4 free as well
        vecs.append(draw_params(rng, 'GR4J', p_end=0.3))
    ilines = [init_line('GR4J', ps) for ps in vecs]
    iimpl = run_impl(ilines)
    imodel = run_model(ilines)

    cases = []
    for ps, li, lm, line in zip(vecs, iimpl, imodel, ilines):
        si, sm = parse_init(li), parse_init(lm)
        if si is None or sm is None or si != sm:
            c.corr_broken.append({'case': ps, 'diff': 'InitialiseStates: impl %r model %r' % (li[:200], lm[:200]), 'line': line})
        if si is None:
            c.violation('init.json', {'kind': 'InitialiseStates-failed', 'params': ps, 'impl': li[:200]})
            continue
        x1, x2, x3, x4 = ps
        n1e, n2e = int(math.ceil(x4)), int(math.ceil(2 * x4))
        if (int(si[2]), int(si[3]), len(si)) != (n1e, n2e, 4 + n1e + n2e) or any(v != 0.0 for v in si[:2] + si[4:]):
            c.violation('init.json', {'kind': 'initial-states', 'params': ps, 'got': si,
                                      'expected': 'zeros with n1=ceil(x4)=%d n2=ceil(2*x4)=%d' % (n1e, n2e)})
            continue
        for regime in REGIMES:
            T = draw_length(rng, lengths)
            rain, pet = forcing(rng, regime, T, zero_pet=(rng.random() < 0.15))
            st0 = list(si)
            if rng.random() < 0.6:              # arbitrary initial stores of the right shape
                st0[0] = rng.choice([0.0, x1, rng.uniform(0, x1)])
                st0[1] = rng.choice([0.0, x3 * 0.999, rng.uniform(0, x3)])
                for k in range(4, len(st0)):
                    st0[k] = rng.choice([0.0, rng.uniform(0, 30.0)])
            cases.append({'ps': ps, 'st0': st0, 'rain': rain, 'pet': pet, 'regime': regime})

    # malformed / boundary stream, compared model-vs-code only: UH lengths in the state vector that do not
    # match ceil(x4), x4 outside the documented range, short and over-long state vectors, n1 = 0
    odd = []
    for _ in range(60 if quick else 600):
        ps = draw_params(rng, 'GR4J', p_end=0.3)
        ps[3] = rng.choice([ps[3], rng.uniform(0.2, 6.0), 0.5, 4.0])
        n1, n2 = rng.randint(0, 5), rng.randint(0, 9)
        if rng.random() < 0.7:
            n1, n2 = max(n1, 1), max(n2, 1)
        st = [rng.uniform(0, ps[0]), rng.uniform(0, ps[2]), float(n1), float(n2)] + [rng.uniform(0, 5) for _ in range(n1 + n2)]
        r = rng.random()
        if r < 0.15:
            st = st[:rng.randint(0, len(st) - 1)]
        elif r < 0.3:
            st = st + [rng.uniform(0, 5) for _ in range(rng.randint(1, 3))]
        rain, pet = forcing(rng, rng.choice(REGIMES), rng.choice([0, 1, 7, 40]))
        odd.append((ps, st, rain, pet))
    olines = [kcase('GR4J', ps, st, [rain, pet]) for (ps, st, rain, pet) in odd]
    oi, om = run_impl(olines), run_model(olines)
    odd_panics = 0
    for (ps, st, rain, pet), li, lm, line in zip(odd, oi, om, olines):
        ri, rm = parse_kresult(li), parse_kresult(lm)
        c.count(('odd', ps, st, rain, pet), nontrivial=False)
        if ri[0] != 'OK':
            odd_panics += 1
        diff = kresults_agree(ri, rm, rtol=1e-9, atol=abs_tol(ps, st, rain))
        if diff and ri[0] == 'OK' and rm[0] == 'OK':
            info = {}
            diff = conditioned_agree(ri, rm, [parse_kresult(l) for l in run_model(perturbed_lines('GR4J', ps, st, rain, pet))],
                                     1e-9, abs_tol(ps, st, rain), info=info, weights=perturbed_weights('GR4J', ps, st, rain, pet))
            if not diff:
                illcond[0] += 1
                illamp[0] = max(illamp[0], info.get('amplification', 0.0))
        if diff:
            c.corr_broken.append({'case': ['malformed', ps, st[:4], len(st), len(rain)], 'diff': diff, 'line': line[:4000]})

    lines = [kcase('GR4J', cs['ps'], cs['st0'], [cs['rain'], cs['pet']]) for cs in cases]
    impl = run_impl(lines)
    model = run_model(lines)
    classes = {}
    corr_retry = []
    for i, (cs, li, lm) in enumerate(zip(cases, impl, model)):
        ri, rm = parse_kresult(li), parse_kresult(lm)
        x1, x2, x3, x4 = cs['ps']
        n1, n2 = int(math.ceil(x4)), int(math.ceil(2 * x4))
        classes[(n1, n2)] = classes.get((n1, n2), 0) + 1
        c.count((cs['ps'], cs['st0'], cs['rain'], cs['pet']), nontrivial=sum(cs['rain']) > 0 or sum(cs['st0'][4:]) > 0)
        atol_c = abs_tol(cs['ps'], cs['st0'], cs['rain'])
        diff = kresults_agree(ri, rm, rtol=1e-9, atol=atol_c)
        if diff:
            d2 = diff
            if len(corr_retry) < 200:         # measured-sensitivity second chance (see rrlib), one model run each
                corr_retry.append(i)
                info = {}
                d2 = conditioned_agree(ri, rm, [parse_kresult(l) for l in run_model(perturbed_lines('GR4J', cs['ps'], cs['st0'], cs['rain'], cs['pet']))],
                                       1e-9, atol_c, info=info, weights=perturbed_weights('GR4J', cs['ps'], cs['st0'], cs['rain'], cs['pet']))
                illamp[0] = max(illamp[0], info.get('amplification', 0.0)) if not d2 else illamp[0]
            if d2:
                c.corr_broken.append({'case': [cs['ps'], cs['regime'], len(cs['rain'])], 'diff': diff, 'conditioned': d2, 'line': lines[i][:4000]})
            else:
                illcond[0] += 1
        desc = {'model': 'GR4J', 'params': cs['ps'], 'initial_states': cs['st0'], 'regime': cs['regime'],
                'rainfall': cs['rain'], 'pet': cs['pet'], 'case_line': lines[i]}
        if ri[0] != 'OK':
            desc.update({'failure': 'crash-on-valid-input', 'impl': li[:300]})
            c.violation('oracle_%d.json' % i, desc, key='gr4j-crash')
            continue
        s0, r0, _, _, q10, q90 = gr4j_unpack(cs['st0'])
        ref_q, ref_s, ref_r, ref_q1, ref_q9 = published_gr4j(x1, x2, x3, x4, s0, r0, q10, q90, cs['rain'], cs['pet'])
        got_q = ri[1][0]
        gs, gr, gn1, gn2, gq1, gq9 = gr4j_unpack(ri[2])
        got_all = [('runoff[%d]' % t, v) for t, v in enumerate(got_q)] + [('final S', gs), ('final R', gr)] + \
                  [('final q1[%d]' % k, v) for k, v in enumerate(gq1)] + [('final q9[%d]' % k, v) for k, v in enumerate(gq9)]
        ref_all = ref_q + [ref_s, ref_r] + ref_q1 + ref_q9
        bad = None
        sens = None
        atol_o = max(ATOL, 100.0 * atol_c)
        for k, ((nm, a), b) in enumerate(zip(got_all, ref_all)):
            if feq(a, b, RTOL, atol_o):
                continue
            if sens is None:          # measured sensitivity of the published equations (see rrlib.perturb_case)
                # several perturbed evaluations of the published equations (parameters, alternating parameters, forcing,
                # initial stores; both signs, two magnitudes; see rrlib.perturbed_cases), largest weighted deviation
                sens = [0.0] * len(ref_all)
                pcs = perturbed_cases('GR4J', cs['ps'], cs['st0'], cs['rain'], cs['pet'])
                for (dl, ps2, st2, rain2, pet2), w in zip(pcs, perturbed_weights('GR4J', cs['ps'], cs['st0'], cs['rain'], cs['pet'])):
                    s2, r2, _, _, q12, q92 = gr4j_unpack(st2)
                    pq, ps_, pr_, pq1, pq9 = published_gr4j(ps2[0], ps2[1], ps2[2], ps2[3], s2, r2, q12, q92, rain2, pet2)
                    for j, (u, v) in enumerate(zip(ref_all, pq + [ps_, pr_] + pq1 + pq9)):
                        sens[j] = max(sens[j], w * abs(u - v) if math.isfinite(u) and math.isfinite(v) else float('inf'))
                illamp[1] = max(illamp[1], max((sv / max(abs(u), 1e-3) for sv, u in zip(sens, ref_all) if math.isfinite(sv)), default=0.0) / 1e-14)
                for j in range(1, len(sens)):     # running maximum: an expanding map keeps the separation it has reached
                    sens[j] = max(sens[j], sens[j - 1])
            if math.isfinite(a) and abs(a - b) <= atol_o + RTOL * max(abs(a), abs(b)) + KCOND * sens[k]:
                continue
            bad = '%s: implementation %r, published GR4J %r' % (nm, a, b)
            break
        if sens is not None and bad is None:
            illcond[1] += 1
        if bad is None and (gn1, gn2, len(gq1), len(gq9)) != (n1, n2, n2, n1):
            bad = 'unit-hydrograph lengths %r, published %r' % ((gn1, gn2), (n1, n2))
        if bad:
            desc.update({'failure': 'differs-from-published-gr4j', 'message': bad, 'runoff_head': got_q[:12], 'published_head': ref_q[:12]})
            c.violation('oracle_%d.json' % i, desc, key='gr4j-published-x4-%s' % ('%g' % x4))
        if i % 173 == 0:
            c.sample({'params': [round(p, 6) for p in cs['ps']], 'uh_lengths': [n1, n2], 'regime': cs['regime'], 'steps': len(cs['rain']),
                      'sum_runoff_impl': sum(got_q), 'sum_runoff_published': sum(ref_q)})
    c.cov['rule'] = ('x4 swept over a grid of step %s plus both sides (0, +-1e-12, +-1e-9, +-1e-4, +-0.01) of every integer and half-integer in [0.5,4] '
                     '(every unit-hydrograph length class (n1,n2)); x1,x2,x3 from the documented ranges (interior, log-uniform, end points); '
                     'forcing from the five regimes, T in {1,2,7,40,120,400} or, with probability 0.2, a block-boundary length (63..65, 127..129, 255..257, 511..513, 768, 1024), joint degenerate steps (rain = PET = 0, PET = 0 on wet days, plateaus) written over 60 %% of the series; initial stores either the model\'s own InitialiseStates or arbitrary '
                     'S in [0,x1], R in [0,x3], UH stores in [0,30]; each case run through sim.Catalog, through the extracted Coq kernel (rtol 1e-9, atol 1e-12*scale, scale = 1 + largest parameter/initial store/daily rain) '
                     'and through an independent float64 implementation of the published equations (S-curve functions, convolution routing) '
                     'compared at rtol 1e-9 / atol max(1e-10 mm, 1e-10*scale) on every runoff value and every final store; plus a malformed stream (state-vector lengths not matching ceil(x4), short/over-long vectors, n1=0, x4 outside the range) compared model-vs-code only; non-trivial = some rain or non-empty UH stores; distinct = distinct (parameters, initial states, series)'
                     % ('0.125' if quick else '0.03125'))
    c.finish(extra_cov={'uh_length_classes': {'%d/%d' % k: v for k, v in sorted(classes.items())}, 'x4_values': len(x4_grid(quick)), 'malformed_cases': len(odd), 'malformed_panics_impl': odd_panics, 'ill_conditioned_cases_accepted': {'model_vs_code': illcond[0], 'code_vs_published': illcond[1]}, 'ill_conditioned_max_amplification': {'model_vs_code': illamp[0], 'code_vs_published': illamp[1]},
                        'exhaustive': False},
             assumptions=['theorems are over exact reals (RArith); the float comparison against the published equations is testing with tolerance 1e-9',
                          'the implementation caps the tanh argument at 13; the published equations have no cap: the equality theorem is stated for '
                          '|P-E| <= 13*x1, the cap changes tanh by < 5e-11 (theorem C15_gr4j_cap_immaterial) and the oracle absorbs it in its tolerance',
                          'OCaml libm stands in for Go libm (pow, tanh) in the correspondence run: rtol 1e-9',
                          'sim.Catalog wrapper (generated Run) is exercised, not modelled, in this check (see C04)'])


if __name__ == '__main__':
    main()
