#!/usr/bin/env python3
"""False-alarm test: apply a behaviour-preserving edit to /repo and run the checks; they must stay quiet.

  benigntest.py <property-id> <dir> <k> <name> [more property ids...]

<dir> holds patch<k>.diff and README<k>.md as delivered by an independent sub-agent that was asked for a harmless
maintenance edit of the code the property is anchored in (rename, extract helper, loop form, comments, ...; outputs
bit-identical for all inputs).  Steps: the patch applies to /repo's HEAD in a scratch worktree, the tree builds and the
42 baseline tests pass there; then the patch is applied to /repo's working tree, the quick checks are run and the patch is
undone (git checkout).  Recorded in /verif/benign/<name>/ (patch.diff, README.md, meta.json).  Any VIOLATION here is, by
construction, either a false alarm of the check or a sign that the edit is not as harmless as claimed; both are looked at."""
import json, os, shutil, subprocess, sys, time

ENV = dict(os.environ, GOFLAGS='-mod=mod', GOPROXY='off', GOSUMDB='off', GOTOOLCHAIN='local')
BUILD = 'go build ./data/... ./sim/... ./models/... ./util/... ./conv/... ./libopenwater/... ./io/json/...'
TESTS = 'go test -vet=off -count=1 ./data/... ./io/json/... ./util/...'


def sh(cmd, cwd=None, timeout=1800):
    p = subprocess.run(cmd, shell=True, cwd=cwd, env=ENV, stdout=subprocess.PIPE, stderr=subprocess.STDOUT, text=True, timeout=timeout)
    return p.returncode, p.stdout


def main():
    pid, sdir, k, name = sys.argv[1:5]
    also = sys.argv[5:]
    patch = os.path.join(sdir, 'patch%s.diff' % k)
    wt = '/tmp/benigntest-%s' % name
    meta = {'property': pid, 'name': name, 'kind': 'benign (behaviour-preserving) edit from an independent sub-agent',
            'tested_at': time.strftime('%Y-%m-%d %H:%M:%S')}
    sh('git -C /repo worktree remove --force %s' % wt)
    rc, out = sh('git -C /repo worktree add -q --detach %s HEAD' % wt)
    assert rc == 0, out
    try:
        rc, out = sh('git apply %s' % patch, cwd=wt)
        meta['patch_applies'] = rc == 0
        assert rc == 0, out
        rcb, outb = sh(BUILD, cwd=wt)
        meta['builds'] = rcb == 0
        rct, outt = sh(TESTS, cwd=wt)
        meta['baseline_tests_pass'] = rct == 0 and 'FAIL' not in outt
    finally:
        sh('git -C /repo worktree remove --force %s' % wt)
    results = {}
    rc, out = sh('git -C /repo apply %s' % patch)
    assert rc == 0, out
    try:
        for p in [pid] + also:
            t = time.time()
            rc, out = sh('python3 tools/%s.py --tier quick' % p.lower(), cwd='/verif', timeout=3600)
            lines = [l for l in out.split('\n') if l.startswith('VIOLATION') or l.startswith('OK ')]
            results[p] = {'exit': rc, 'lines': [l[:300] for l in lines[-3:]], 'wall_s': round(time.time() - t, 1)}
            rp = [l for l in lines if l.startswith('VIOLATION')]
            if rp and 'replay=' in rp[0]:
                path = rp[0].split('replay=')[1].split()[0]
                try:
                    results[p]['replay_excerpt'] = open(path).read()[:2500]
                except OSError:
                    pass
    finally:
        sh('git -C /repo checkout -- . && git -C /repo clean -fdq')
    for p in [pid] + also:
        rc, out = sh('python3 tools/%s.py --tier quick' % p.lower(), cwd='/verif', timeout=3600)
        results[p]['exit_after_undo'] = rc
    meta['checks'] = results
    meta['alarms'] = [p for p, r in results.items() if r['exit'] != 0]
    dst = os.path.join('/verif/benign', name)
    os.makedirs(dst, exist_ok=True)
    shutil.copy(patch, os.path.join(dst, 'patch.diff'))
    rd = os.path.join(sdir, 'README%s.md' % k)
    if os.path.exists(rd):
        shutil.copy(rd, os.path.join(dst, 'README.md'))
    json.dump(meta, open(os.path.join(dst, 'meta.json'), 'w'), indent=1)
    print(json.dumps({'name': name, 'builds': meta['builds'], 'tests': meta['baseline_tests_pass'], 'alarms': meta['alarms'],
                      'checks': {p: r['lines'] for p, r in results.items()}}, indent=1))


if __name__ == '__main__':
    main()
