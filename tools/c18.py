#!/usr/bin/env python3
"""C18 check: theorems in coq/Properties/C18.v + correspondence of Num/FindRoot.v and
Num/Piecewise.v with util/fn/root.go and util/fn/piecewise.go (commands ROOT and
PIECEWISE of harness/cmd/owrun/c18.go vs. the extracted Coq model), including the
sequence of evaluation points, + the property's oracle on the implementation's
outputs.

  python3 tools/c18.py --tier quick|thorough
  python3 tools/c18.py --replay out/C18/<file>.json     (re-run one recorded case)
"""
import sys, os, math, json
sys.path.insert(0, os.path.dirname(os.path.abspath(__file__)))
from vlib import *

NAN = float('nan')
INF = float('inf')


# ---------------------------------------------------------------- test functions
# (the same operations in the same order as harness/cmd/owrun/c18.go and Num/FindRoot.v)
def ev_poly(cs, x):
    if not cs:
        return 0.0
    acc = cs[-1]
    for c in reversed(cs[:-1]):
        acc = c + x * acc
    return acc


def ev_pwl(xs, ys, x):
    n = len(xs)
    if n == 0:
        return 0.0
    if x <= xs[0]:
        return ys[0]
    for i in range(1, n):
        if x <= xs[i]:
            num = (x - xs[i - 1]) * (ys[i] - ys[i - 1])
            den = xs[i] - xs[i - 1]
            try:
                q = num / den
            except ZeroDivisionError:
                q = NAN if (num == 0 or num != num) else math.copysign(INF, num) * math.copysign(1.0, den)
            return ys[i - 1] + q
    return ys[n - 1]


def ev_shpow(k, r, p, x):
    d = x - r
    acc = 1.0
    if p >= 1:
        acc = d
        for _ in range(1, p):
            acc = acc * d
    return k * acc


def ev_pwt(xs, ys, x):
    """fn.Piecewise on a strictly increasing table; -1 on its error"""
    if x != x or not xs or x < xs[0] or x > xs[-1]:
        return -1.0
    for j in range(1, len(xs)):
        if xs[j] >= x:
            i = j - 1
            frac = (x - xs[i]) / (xs[j] - xs[i])
            return ys[i] + frac * (ys[j] - ys[i])
    return -1.0


def ieee_div(a, b):
    try:
        return a / b
    except ZeroDivisionError:
        if a != a or a == 0:
            return NAN
        return math.copysign(INF, a) * math.copysign(1.0, b)


def ev_pow(k, m, c, x):
    try:
        p = math.pow(x, m)
    except (ValueError, OverflowError):
        p = NAN
    return k * p - c


class Fn:
    """kind in POLY | PWL | POW ; exact = evaluated bit-identically on all sides"""

    def __init__(self, kind, **kw):
        self.kind = kind
        self.__dict__.update(kw)
        self.exact = kind != 'POW' and (kind != 'DIV' or (self.num.exact and self.den.exact))

    def __call__(self, x):
        if self.kind == 'POLY':
            return ev_poly(self.cs, x)
        if self.kind == 'PWL':
            return ev_pwl(self.xs, self.ys, x)
        if self.kind == 'SHPOW':
            return ev_shpow(self.k, self.r, self.p, x)
        if self.kind == 'PWT':
            return ev_pwt(self.xs, self.ys, x)
        if self.kind == 'DIV':
            return ieee_div(self.num(x), self.den(x))
        return ev_pow(self.k, self.m, self.c, x)

    def spec(self):
        if self.kind == 'POLY':
            return 'POLY %d %s' % (len(self.cs), ' '.join(f2h(c) for c in self.cs))
        if self.kind in ('PWL', 'PWT'):
            return '%s %d %s %s' % (self.kind, len(self.xs), ' '.join(f2h(v) for v in self.xs), ' '.join(f2h(v) for v in self.ys))
        if self.kind == 'SHPOW':
            return 'SHPOW %s %s %d' % (f2h(self.k), f2h(self.r), self.p)
        if self.kind == 'DIV':
            return 'DIV %s %s' % (self.num.spec(), self.den.spec())
        return 'POW %s %s %s' % (f2h(self.k), f2h(self.m), f2h(self.c))

    def describe(self):
        d = dict(self.__dict__)
        d.pop('exact', None)
        if self.kind == 'DIV':
            d['num'], d['den'] = self.num.describe(), self.den.describe()
        return d

    def lipschitz(self, a, b):
        """an upper bound of |f'| on [a,b] (None when not available)"""
        if self.kind == 'DIV':
            return None
        if self.kind == 'POLY':
            m = max(abs(a), abs(b))
            return sum(k * abs(c) * m ** (k - 1) for k, c in enumerate(self.cs) if k >= 1)
        if self.kind == 'PWT' and not (self.xs[0] <= a and b <= self.xs[-1]):
            return None          # -1 outside the table: not continuous there
        if self.kind in ('PWL', 'PWT'):
            sl = [abs((self.ys[i] - self.ys[i - 1]) / (self.xs[i] - self.xs[i - 1])) for i in range(1, len(self.xs))]
            return max(sl) if sl else 0.0
        if self.kind == 'SHPOW':
            return abs(self.k) * self.p * max(abs(a - self.r), abs(b - self.r)) ** (self.p - 1) if self.p >= 1 else 0.0
        return None

    def bracket_bound(self, a, b, w):
        """an upper bound of min(|f lo|, f hi) over all brackets a<=lo<=hi<=b, f lo<=0<=f hi, hi-lo<=w
        (the hypothesis of C18_findroot_converges_modulus); None when not available"""
        if self.kind == 'SHPOW' and self.p % 2 == 1 and self.k > 0:
            return self.k * (w / 2.0) ** self.p          # lo <= r <= hi, so the nearer end is within w/2 of r
        L = self.lipschitz(a, b)
        return None if L is None else L * w              # min <= f hi - f lo <= L w

    def scale(self, a, b):
        if self.kind == 'DIV':
            return 1.0
        if self.kind == 'POLY':
            m = max(abs(a), abs(b), 1.0)
            return sum(abs(c) * m ** k for k, c in enumerate(self.cs)) or 1.0
        if self.kind in ('PWL', 'PWT'):
            return max([abs(y) for y in self.ys] + [1.0])
        if self.kind == 'SHPOW':
            return abs(self.k) * max(abs(a - self.r), abs(b - self.r), 1.0) ** self.p
        return abs(self.k) * max(abs(b), 1.0) ** max(self.m, 1.0) + abs(self.c) + 1.0


def dyadic(rng, lo, hi, bits=6):
    q = 1 << bits
    return rng.randint(int(lo * q), int(hi * q)) / q


def gen_root_cases(rng, count):
    """-> list of dicts: f, d (Fn or None), x0, a, b, tol, conv, n, mono (f non-decreasing on [a,b] in exact arithmetic),
    valid (a<=x0<=b and f(a)<=0<=f(b)), tag"""
    cases = []

    def add(f, d, x0, a, b, tol, conv, n, mono, tag):
        fa, fb = f(a), f(b)
        valid = (a <= x0 <= b) and (fa <= 0 <= fb)
        cases.append(dict(f=f, d=d, x0=x0, a=a, b=b, tol=tol, conv=conv, n=n, mono=mono, valid=valid, tag=tag))

    def params(a, b):
        x0 = rng.choice([a, b, a, (a + b) * 0.5, a + (b - a) * dyadic(rng, 0, 1, 8), a + (b - a) * rng.random()])
        tol = rng.choice([1e-3, 1e-6, 1e-9, 1e-12, 1e-2, 0.5, 0.0])
        conv = rng.choice([1e-15, 1e-15, 1e-9, 1e-6, 0.0, 1e-2])
        n = rng.choice([0, 1, 2, 3, 5, 10, 20, 50, 100, 200])
        return x0, tol, conv, n

    def poly_deriv(cs):
        return Fn('POLY', cs=[k * c for k, c in enumerate(cs)][1:])

    # --- fixed boundary stream -------------------------------------------------
    # the repository's own test
    add(Fn('POLY', cs=[-3.0, 4.0, 0.5]), Fn('POLY', cs=[-4.0, 1.0]), 0.5, 0.0, 2.0, 1e-6, 1e-15, 10, True, 'repo-test')
    add(Fn('POLY', cs=[-3.0, 4.0, 0.5]), Fn('POLY', cs=[4.0, 1.0]), 0.5, 0.0, 2.0, 1e-6, 1e-15, 10, True, 'repo-test-true-deriv')
    # strict-clause witness of the Coq refutation  f = x - 1/8, tol = 1/2
    add(Fn('POLY', cs=[-0.125, 1.0]), None, 0.0, 0.0, 1.0, 0.5, 0.0, 1, True, 'witness-strict')
    # design witness: an end already within the tolerance
    add(Fn('PWL', xs=[0.0, 0.5, 1.0], ys=[-1e-9, 5e-4, 1.0]), None, 0.0, 0.0, 1.0, 1e-3, 1e-15, 10, True, 'witness-strict-pwl')
    # convergence witness  2x^2-1, guess at the midpoint
    add(Fn('POLY', cs=[-1.0, 0.0, 2.0]), None, 0.5, 0.0, 1.0, 1e-2, 1e-6, 100, True, 'witness-midpoint-guess')
    add(Fn('POLY', cs=[-1.0, 0.0, 2.0]), None, 0.0, 0.0, 1.0, 1e-2, 1e-6, 100, True, 'midpoint-guess-control')
    # monotone functions that are FLAT at the root, with their derivative: Newton converges only linearly there, so
    # the tolerance is reached in time only because the midpoint is tried in every iteration
    def flat(r, p, k=1.0):
        return Fn('SHPOW', k=k, r=r, p=p), Fn('SHPOW', k=k * p, r=r, p=p - 1)
    for (r, p, tol, n) in ((0.1, 3, 1e-9, 11), (0.9, 5, 1e-12, 9), (0.125, 3, 1e-9, 11), (0.875, 5, 1e-12, 9), (0.5, 3, 1e-9, 12)):
        ff, dd = flat(r, p)
        add(ff, dd, 0.0, 0.0, 1.0, tol, 1e-15, n, True, 'flat-root-fixed')
        add(ff, dd, 1.0, 0.0, 1.0, tol, 1e-15, n, True, 'flat-root-fixed')
        add(ff, None, 0.0, 0.0, 1.0, tol, 1e-15, n, True, 'flat-root-fixed')
    # degenerate brackets: f(a) = f(b) = 0
    add(Fn('PWL', xs=[0.0, 1.0, 2.0], ys=[0.0, 1.0, 0.0]), None, 0.5, 0.0, 2.0, 1e-3, 1e-15, 5, False, 'degenerate-tent')
    add(Fn('POLY', cs=[0.0, 1.0, -1.0]), None, 0.25, 0.0, 1.0, 1e-3, 1e-15, 5, False, 'degenerate-parabola')
    add(Fn('POLY', cs=[0.0, 0.0, 0.0]), None, 0.5, 0.0, 2.0, 1e-6, 1e-15, 10, True, 'zero-function')
    add(Fn('POLY', cs=[0.0, 0.0, 0.0]), None, 0.5, 0.0, 2.0, 0.0, 1e-15, 10, True, 'zero-function-tol0')
    add(Fn('POLY', cs=[0.0]), Fn('POLY', cs=[0.0]), 1.0, 1.0, 1.0, 1e-6, 1e-15, 3, True, 'point-interval')
    # wrong signs -> panic
    add(Fn('POLY', cs=[3.0, 4.0, 0.5]), None, 0.5, 0.0, 2.0, 1e-6, 1e-15, 10, True, 'invalid-range')
    add(Fn('POLY', cs=[-30.0, 4.0, 0.5]), None, 0.5, 0.0, 2.0, 1e-6, 1e-15, 10, True, 'invalid-range')
    # NaN / Inf inputs (model vs code only)
    add(Fn('POLY', cs=[-3.0, 4.0, 0.5]), None, NAN, 0.0, 2.0, 1e-6, 1e-15, 4, True, 'nan-guess')
    add(Fn('POLY', cs=[-3.0, 4.0, 0.5]), None, 0.5, 0.0, INF, 1e-6, 1e-15, 4, True, 'inf-bound')
    add(Fn('POLY', cs=[-3.0, NAN]), None, 0.5, 0.0, 2.0, 1e-6, 1e-15, 4, False, 'nan-function')
    add(Fn('POLY', cs=[-3.0, 4.0, 0.5]), None, 0.5, 0.0, 2.0, NAN, NAN, 4, True, 'nan-tolerances')
    add(Fn('POLY', cs=[-3.0, 4.0, 0.5]), None, 0.5, 0.0, 2.0, 1e-6, 1e-15, -3, True, 'negative-limit')

    while len(cases) < count:
        fam = rng.choice(['poly-mono', 'poly-mono', 'poly-any', 'pwl-mono', 'pwl-mono', 'pwl-any', 'pow', 'poly-newton', 'flat-root', 'pwt', 'edge-derivative'])
        if fam == 'edge-derivative':
            # derivative callbacks that return 0, +-Inf or NaN at the bracket ends / the initial guess / the midpoint (an analytic
            # power-law slope p*x^p/x at 0, 1/(x-a), 0/0, Inf-Inf), brackets starting at 0, guesses on either end
            a = rng.choice([0.0, 0.0, dyadic(rng, -2, 2, 3)])
            b = a + dyadic(rng, 0.5, 8, 3)
            x0 = rng.choice([a, a, b, (a + b) * 0.5, a + (b - a) * dyadic(rng, 0, 1, 3)])
            z = rng.choice([x0, x0, a, b, (a + b) * 0.5])          # where the derivative misbehaves
            pw = rng.choice([1, 2, 3])
            base = rng.choice(['poly', 'shpow', 'pwl-deadband'])
            if base == 'poly':
                cs = [0.0, dyadic(rng, 0.25, 4, 3), dyadic(rng, 0, 2, 3)]
                if a < 0:
                    cs[2] = 0.0
                root = a + (b - a) * rng.choice([rng.random(), dyadic(rng, 0, 1, 3), 0.0])
                cs[0] = -ev_poly(cs, root)
                f, mono = Fn('POLY', cs=cs), True
            elif base == 'shpow':
                f, mono = Fn('SHPOW', k=rng.choice([1.0, 2.0]), r=a + (b - a) * rng.choice([0.0, dyadic(rng, 0, 1, 3)]), p=rng.choice([1, 3])), True
            else:
                # rising, then exactly zero up to the end of the bracket (a dead band)
                m1 = a + (b - a) * dyadic(rng, 0.25, 0.75, 3)
                f, mono = Fn('PWL', xs=[a, m1, b], ys=[-dyadic(rng, 0.5, 4, 3), 0.0, 0.0]), True
            shape = rng.choice(['0/0', '0/0', 'c/0', '0', 'inf-inf', 'nan-const'])
            one_over = Fn('DIV', num=Fn('POLY', cs=[1.0]), den=Fn('SHPOW', k=1.0, r=z, p=1))             # 1/(x-z)
            if shape == '0/0':
                d = Fn('DIV', num=Fn('SHPOW', k=float(pw + 1), r=z, p=pw + 1), den=Fn('SHPOW', k=1.0, r=z, p=1))   # (p+1)(x-z)^(p+1)/(x-z)
            elif shape == 'c/0':
                d = one_over
            elif shape == '0':
                d = Fn('SHPOW', k=dyadic(rng, 0.5, 2, 2), r=z, p=pw)
            elif shape == 'inf-inf':
                d = Fn('DIV', num=Fn('DIV', num=one_over, den=one_over), den=Fn('POLY', cs=[dyadic(rng, 0.5, 2, 2)]))   # (Inf/Inf)/c at z, 1/c elsewhere
            else:
                d = Fn('DIV', num=Fn('POLY', cs=[0.0]), den=Fn('POLY', cs=[0.0]))                        # NaN everywhere
            tol = rng.choice([1e-3, 1e-6, 1e-9, 1e-2])
            conv = rng.choice([1e-15, 1e-9, 0.0])
            n = rng.choice([1, 2, 3, 5, 10, 20])
            add(f, d, x0, a, b, tol, conv, n, mono, fam)
            continue
        if fam == 'pwt':
            # the residual is a table lookup through the library's own Piecewise (monotone table, bracket inside the table)
            k = rng.randint(2, 8)
            xs = [dyadic(rng, -4, 4, 4)]
            for _ in range(k - 1):
                xs.append(xs[-1] + dyadic(rng, 0.0625, 2, 4))
            ys = [dyadic(rng, -8, -0.0625, 4)]
            for _ in range(k - 1):
                ys.append(ys[-1] + rng.choice([0.0, dyadic(rng, 0, 4, 4), dyadic(rng, 0, 0.25, 8)]))
            if ys[-1] < 0:
                ys[-1] = dyadic(rng, 0, 4, 4)
            a, b = xs[0], xs[-1]
            x0, tol, conv, n = params(a, b)
            add(Fn('PWT', xs=xs, ys=ys), None, x0, a, b, tol, conv, n, True, fam)
            continue
        if fam == 'flat-root':
            p = rng.choice([3, 3, 5, 7])
            k = rng.choice([1.0, 1.0, 2.0, 0.5])
            a = rng.choice([0.0, 0.0, dyadic(rng, -2, 2, 3)])
            b = a + rng.choice([1.0, 1.0, dyadic(rng, 0.25, 4, 3)])
            r = a + (b - a) * rng.choice([dyadic(rng, 0, 1, 4), rng.random(), 0.1, 0.9])
            f, d = flat(r, p, k)
            if rng.random() < 0.25:
                d = None
            x0 = rng.choice([a, b, a, a + (b - a) * rng.random()])
            tol = rng.choice([1e-6, 1e-9, 1e-12])
            conv = rng.choice([1e-15, 0.0])
            # iteration limits around the number of halvings that reach the tolerance
            need = 1
            while need < 80 and not f.bracket_bound(a, b, (b - a) / 2.0 ** need) < 0.5 * tol:
                need += 1
            n = max(0, need + rng.choice([-3, -1, 0, 0, 1, 2, 5, 20]))
            add(f, d, x0, a, b, tol, conv, n, True, fam)
            continue
        if fam in ('poly-mono', 'poly-newton'):
            # c0 + c1 x + c2 x^2 + c3 x^3 with c1,c2,c3 >= 0 on [a,b], a >= 0: non-decreasing
            a = dyadic(rng, 0, 4)
            b = a + dyadic(rng, 0.125, 8)
            cs = [0.0, dyadic(rng, 0, 4), dyadic(rng, 0, 2), rng.choice([0.0, dyadic(rng, 0, 1)])]
            root = a + (b - a) * rng.choice([rng.random(), 0.0, 1.0, dyadic(rng, 0, 1, 3)])
            cs[0] = -ev_poly(cs, root)
            f = Fn('POLY', cs=cs)
            d = rng.choice([None, poly_deriv(cs), poly_deriv(cs), Fn('POLY', cs=[dyadic(rng, -2, 2), dyadic(rng, -2, 2)]),
                            Fn('POLY', cs=[rng.choice([0.0, 0.0, dyadic(rng, -1, 1, 2)])])])      # also a zero derivative
            if fam == 'poly-newton':
                d = poly_deriv(cs)
            x0, tol, conv, n = params(a, b)
            add(f, d, x0, a, b, tol, conv, n, True, fam)
        elif fam == 'poly-any':
            # (x-r1)(x-r2)(x-r3) shifted: sign change over the bracket, not monotone
            r = sorted(dyadic(rng, -4, 4, 3) for _ in range(3))
            lead = rng.choice([1.0, 0.5, 2.0])
            cs = [lead * (-r[0] * r[1] * r[2]), lead * (r[0] * r[1] + r[0] * r[2] + r[1] * r[2]), lead * (-(r[0] + r[1] + r[2])), lead]
            a = r[0] - dyadic(rng, 0, 2, 3)
            b = r[2] + dyadic(rng, 0, 2, 3)
            f = Fn('POLY', cs=cs)
            d = rng.choice([None, poly_deriv(cs)])
            x0, tol, conv, n = params(a, b)
            add(f, d, x0, a, b, tol, conv, n, False, fam)
        elif fam in ('pwl-mono', 'pwl-any'):
            k = rng.randint(2, 7)
            xs = [dyadic(rng, -4, 4, 4)]
            for _ in range(k - 1):
                xs.append(xs[-1] + dyadic(rng, 0.0625, 2, 4))
            if fam == 'pwl-mono':
                ys = [dyadic(rng, -8, 0, 4)]
                for _ in range(k - 1):
                    ys.append(ys[-1] + rng.choice([0.0, 0.0, dyadic(rng, 0, 4, 4), dyadic(rng, 0, 0.25, 8)]))   # flats and kinks
                if ys[-1] < 0:
                    ys[-1] = dyadic(rng, 0, 4, 4)
            else:
                ys = [dyadic(rng, -8, 8, 4) for _ in range(k)]
                ys[0] = -abs(ys[0])
                ys[-1] = abs(ys[-1])
            a, b = xs[0], xs[-1]
            if rng.random() < 0.3:      # bracket strictly inside / beyond the knots
                a = a - dyadic(rng, 0, 1, 3)
                b = b + dyadic(rng, 0, 1, 3)
            f = Fn('PWL', xs=xs, ys=ys)
            d = None
            if rng.random() < 0.3:
                d = Fn('PWL', xs=xs, ys=[dyadic(rng, 0, 4, 3) for _ in xs])    # an arbitrary "derivative"
            x0, tol, conv, n = params(a, b)
            add(f, d, x0, a, b, tol, conv, n, fam == 'pwl-mono', fam)
        else:
            kk = rng.choice([0.5, 1.0, 2.0, 3.7, 12.5])
            m = rng.choice([0.5, 0.6, 0.75, 1.0, 1.3, 2.0, 0.45])
            a = rng.choice([0.0, 0.0, dyadic(rng, 0, 2, 3)])
            b = a + dyadic(rng, 0.5, 20, 3)
            root = a + (b - a) * rng.random()
            c = kk * math.pow(root, m)
            f = Fn('POW', k=kk, m=m, c=c)
            x0, tol, conv, n = params(a, b)
            tol = max(tol, 1e-9)
            add(f, None, x0, a, b, tol, conv, n, True, 'pow')
    return cases


def root_line(cs):
    return 'ROOT %s %s %s %s %s %s %s %d' % (cs['f'].spec(), cs['d'].spec() if cs['d'] else 'NONE',
                                            f2h(cs['x0']), f2h(cs['a']), f2h(cs['b']), f2h(cs['tol']), f2h(cs['conv']), cs['n'])


def parse_root(line):
    """-> ('OK', x, delta, evals, devals) | (kind,)"""
    t = line.split()
    if not t or t[0] != 'OK':
        return (t[0] if t else 'EMPTY',)
    cv = lambda s: NAN if s == 'nan' else h2f(s)
    assert t[3] == 'E'
    ne = int(t[4])
    ev = [cv(s) for s in t[5:5 + ne]]
    assert t[5 + ne] == 'D'
    nd = int(t[6 + ne])
    dv = [cv(s) for s in t[7 + ne:7 + ne + nd]]
    return ('OK', cv(t[1]), cv(t[2]), ev, dv)


def root_agree(li, lm, exact):
    if exact:
        return None if li == lm else 'impl=%s model=%s' % (li[:200], lm[:200])
    ri, rm = parse_root(li), parse_root(lm)
    if ri[0] != 'OK' or rm[0] != 'OK':
        return None if ri[0] == rm[0] else 'outcome %s vs %s' % (ri[0], rm[0])
    if len(ri[3]) != len(rm[3]) or len(ri[4]) != len(rm[4]):
        return 'number of evaluations %d/%d vs %d/%d' % (len(ri[3]), len(ri[4]), len(rm[3]), len(rm[4]))
    for k, (x, y) in enumerate(zip([ri[1]] + ri[3] + ri[4], [rm[1]] + rm[3] + rm[4])):
        if not feq(x, y, 1e-9, 1e-12):
            return 'point %d impl=%r model=%r' % (k, x, y)
    if not feq(ri[2], rm[2], 1e-6, 1e-9):      # delta ~ 0: absolute
        return 'delta impl=%r model=%r' % (ri[2], rm[2])
    return None


def root_oracle(cs, res):
    """the property on the implementation's output; -> list of (failure-kind, known-finding key or None, detail)"""
    f, a, b, x0, tol, conv, n = cs['f'], cs['a'], cs['b'], cs['x0'], cs['tol'], cs['conv'], cs['n']
    fails = []
    if res[0] != 'OK':
        return [('panic-on-valid-bracket', None, res[0])]
    _, x, delta, evals, devals = res
    fa, fb = f(a), f(b)
    # the only way to a 0/0 secant point: minDelta = maxDelta = 0, i.e. f(a) = 0 and either f(b) = 0 or
    # (tolerance <= 0 and a trial hit an exact zero)
    nan_key = 'nan-trial-zero-secant-denominator' if (fa == 0 and (fb == 0 or tol <= 0)) else None
    scale = f.scale(a, b)
    eps = 1e-9 * scale if not f.exact else 0.0
    # (1) the point is inside the interval
    if not (a <= x <= b):
        fails.append(('point-outside-interval', nan_key if x != x else None, repr(x)))
    # (2) the value is the function's value there
    fx = f(x)
    if not feq(delta, fx, 0.0 if f.exact else 1e-7, 0.0 if f.exact else 1e-9 * scale):
        fails.append(('value-is-not-f-of-point', None, 'delta=%r f(x)=%r' % (delta, fx)))
    # (3) never evaluated outside the interval
    for e in evals + devals:
        if not (a <= e <= b):
            fails.append(('evaluated-outside-interval', nan_key if e != e else None, repr(e)))
            break
    # evaluation protocol: fn(x0), fn(b), fn(a) first
    if [f2h(v) for v in evals[:3]] != [f2h(x0), f2h(b), f2h(a)]:
        fails.append(('initial-evaluations', None, repr(evals[:3])))
    if cs['mono']:
        best = min(abs(fa), abs(fb))
        slack = 1e-12 * scale + eps
        # (4) no worse than the better end, or within the tolerance  (proved for n >= 1)
        if n >= 1 and not (abs(delta) < tol or abs(delta) <= best + slack):
            fails.append(('worse-than-better-end-and-outside-tolerance', None, 'delta=%r best=%r tol=%r' % (delta, best, tol)))
        # (4') the strict reading
        if not (abs(delta) <= best + slack):
            if n <= 0:
                key = 'zero-iterations'
            elif abs(delta) < tol and best < tol:
                key = 'strict-end-within-tol'
            else:
                key = None
            fails.append(('strictly-worse-than-better-end', key, 'delta=%r best=%r tol=%r n=%d' % (delta, best, tol, n)))
    # (5) below the tolerance whenever the iteration budget suffices for interval halving to reach it: exactly the
    #     hypotheses of C18_findroot_converges_modulus (n >= 1; w = max((b-a)/2^n, conv), every bracket of width <= w
    #     has an end within the tolerance) resp. C18_findroot_converges (n = 0, Lipschitz), with a factor 2 of margin
    #     on the tolerance for the float run
    noise_ok = tol >= 1e-11 * scale if f.kind in ('POLY', 'PWL', 'PWT') else tol > 1e-300
    wn = (b - a) / 2.0 ** max(n, 0)
    Bn, Bc = f.bracket_bound(a, b, wn), f.bracket_bound(a, b, max(conv, 0.0))
    if n == 0:
        L = f.lipschitz(a, b)
        Bn = None if L is None else L * (b - a)
        Bc = None if L is None else L * conv
    if Bn is not None and n >= 0 and noise_ok and math.isfinite(Bn) and conv >= 0:
        budget = Bn < 0.5 * tol and Bc < 0.5 * tol
        if budget and not abs(delta) < tol:
            guess_ok = (x0 == a or x0 == b or abs(x0 - (a + b) / 2) >= conv + 1e-15 * max(abs(a), abs(b), 1.0))
            fails.append(('tolerance-not-reached-within-budget', None if guess_ok else 'converged-at-initial-guess',
                          'delta=%r tol=%r n=%d halvings give width %r, bound on the better end there %r; conv=%r x0=%r' %
                          (delta, tol, n, wn, Bn, conv, x0)))
    return fails


# ---------------------------------------------------------------- piecewise
def gen_pw_cases(rng, count):
    """-> list of dicts xs, ys, q, kind"""
    cases = []

    def table():
        k = rng.choice([rng.randint(2, 12), rng.randint(2, 12), rng.randint(9, 40)])
        xs = [rng.choice([dyadic(rng, -50, 50, 3), rng.uniform(-1e3, 1e3), 0.0])]
        for _ in range(k - 1):
            xs.append(xs[-1] + rng.choice([dyadic(rng, 0.125, 8, 3), rng.uniform(1e-3, 100.0)]))
        ys = [rng.choice([dyadic(rng, -20, 20, 3), rng.uniform(-1e4, 1e4), 0.0]) for _ in range(k)]
        # the property is about ALL strictly increasing tables: also tables in tiny / huge units and
        # near-vertical steps (two knots a few ulps .. 1e-9 relative apart)
        u = rng.random()
        if u < 0.2:
            sc = 10.0 ** rng.randint(-15, 15)
            xs = [x * sc for x in xs]
        elif u < 0.35:
            i = rng.randrange(k)
            step = rng.choice([math.nextafter(xs[i], INF), xs[i] + abs(xs[i]) * 1e-13 + 1e-300, xs[i] + 1e-10, xs[i] + 1e-12])
            if step > xs[i] and (i + 1 == k or step < xs[i + 1]):
                xs.insert(i + 1, step)
                ys.insert(i + 1, rng.uniform(-1e4, 1e4))
        if any(not (xs[j] < xs[j + 1]) for j in range(len(xs) - 1)):
            return table()
        return xs, ys

    # fixed
    cases.append(dict(xs=[0.0, 1.0, 3.0], ys=[0.0, 10.0, 30.0], q=2.0, kind='inside'))
    cases.append(dict(xs=[], ys=[], q=1.0, kind='empty'))
    cases.append(dict(xs=[1.0], ys=[5.0], q=1.0, kind='single'))
    cases.append(dict(xs=[1.0], ys=[5.0], q=2.0, kind='single'))
    cases.append(dict(xs=[0.0, 1.0, 1.0, 2.0], ys=[0.0, 1.0, 5.0, 6.0], q=1.0, kind='duplicate'))
    cases.append(dict(xs=[0.0, 0.0, 2.0], ys=[3.0, 1.0, 6.0], q=0.0, kind='duplicate'))
    cases.append(dict(xs=[0.0, 2.0, 1.0, 3.0], ys=[0.0, 1.0, 5.0, 6.0], q=1.5, kind='unsorted'))
    while len(cases) < count:
        xs, ys = table()
        k = len(xs)
        kind = rng.choice(['knot', 'knot', 'inside', 'inside', 'inside', 'mid', 'outside', 'outside', 'inf', 'nan', 'edge'])
        if kind == 'knot':
            q = xs[rng.randrange(k)]
        elif kind == 'inside':
            i = rng.randrange(k - 1)
            q = xs[i] + (xs[i + 1] - xs[i]) * rng.random()
            q = min(max(q, xs[i]), xs[i + 1])
        elif kind == 'mid':
            i = rng.randrange(k - 1)
            q = xs[i] + (xs[i + 1] - xs[i]) * 0.5
        elif kind == 'outside':
            q = rng.choice([xs[0] - rng.uniform(1e-9, 10), xs[-1] + rng.uniform(1e-9, 10),
                            math.nextafter(xs[0], -INF), math.nextafter(xs[-1], INF)])
        elif kind == 'inf':
            q = rng.choice([INF, -INF])
        elif kind == 'nan':
            q = NAN
        else:
            q = rng.choice([math.nextafter(xs[0], INF), math.nextafter(xs[-1], -INF), xs[0], xs[-1]])
            kind = 'inside'
        cases.append(dict(xs=xs, ys=ys, q=q, kind=kind))
    return cases


def gen_pw_sweeps(rng, ntables):
    """whole-table sweeps: tables of 2..40 knots, a query exactly on EVERY knot (first, interior, last) and inside EVERY
    segment (including the last one), just inside / outside both ends, NaN.  A quarter of the tables repeat a knot
    (a step in the curve; outside the property's quantifier, compared model-vs-code and across storage layouts)."""
    cases = []
    lengths = [2, 3, 8, 9, 10, 17, 33, 40]
    for ti in range(ntables):
        k = lengths[ti] if ti < len(lengths) else rng.randint(2, 40)
        xs = [rng.choice([dyadic(rng, -50, 50, 3), rng.uniform(-1e3, 1e3), 0.0])]
        for _ in range(k - 1):
            xs.append(xs[-1] + rng.choice([dyadic(rng, 0.125, 8, 3), dyadic(rng, 0.125, 8, 3), rng.uniform(1e-3, 100.0)]))
        ys = [rng.choice([dyadic(rng, -20, 20, 3), rng.uniform(-1e4, 1e4)]) for _ in range(k)]
        repeated = k >= 3 and rng.random() < 0.25
        if repeated:
            for _ in range(rng.randint(1, 2)):
                i = rng.randrange(0, k - 1)
                xs[i + 1] = xs[i]
            xs.sort()
        qs = [(x, 'knot') for x in xs]
        for i in range(k - 1):
            if xs[i] < xs[i + 1]:
                q = rng.choice([xs[i] + (xs[i + 1] - xs[i]) * 0.5, xs[i] + (xs[i + 1] - xs[i]) * rng.random()])
                qs.append((min(max(q, xs[i]), xs[i + 1]), 'inside'))
        qs += [(math.nextafter(xs[0], INF), 'inside'), (math.nextafter(xs[-1], -INF), 'inside'),
               (math.nextafter(xs[0], -INF), 'outside'), (math.nextafter(xs[-1], INF), 'outside'), (NAN, 'nan')]
        for q, kind in qs:
            cases.append(dict(xs=xs, ys=ys, q=q, kind='duplicate' if repeated else kind, sweep=ti))
    return cases


def gen_layout(rng, n):
    """how a caller stores a table (see PWLAY in harness/cmd/owrun/c18.go)"""
    b = rng.choice(['G', 'G', 'C'])
    kind = rng.choice(['COL', 'COL', 'COL', 'COLR', 'COL2', 'COLSTR', 'STR', 'STR2', 'P'])
    if kind == 'P' or n == 0:
        return 'P'
    nsets = rng.choice([1, 2, 3, 3, 5])
    st = rng.randrange(nsets)
    if kind == 'COL':
        return 'COL %s %d %d %d 1' % (b, nsets, st, rng.choice([0, 0, 2, 7]))
    if kind == 'COLR':
        return 'COL %s %d %d %d 0' % (b, nsets, st, rng.choice([0, 3]))
    if kind == 'COL2':
        return 'COL2 %s %d %d %d %d' % (b, nsets, st, rng.choice([0, 1, 4]), rng.choice([0, 2]))
    if kind == 'COLSTR':
        return 'COLSTR %s %d %d %d' % (b, nsets, st, rng.choice([1, 2, 3]))
    if kind == 'STR':
        return 'STR %s %d %d %d' % (b, rng.choice([0, 1, 5]), rng.choice([1, 2, 3, 7]), rng.choice([0, 2]))
    return 'STR2 %s %d %d %d %d' % (b, rng.choice([0, 2]), rng.choice([2, 3]), rng.choice([0, 1]), rng.choice([2, 3]))


def pwlay_line(cs, xlay, ylay):
    return 'PWLAY %s %s %d %s %s %s' % (xlay, ylay, len(cs['xs']), ' '.join(f2h(v) for v in cs['xs']),
                                        ' '.join(f2h(v) for v in cs['ys']), f2h(cs['q']))


def pw_line(cs):
    return 'PIECEWISE %d %s %s %s' % (len(cs['xs']), ' '.join(f2h(v) for v in cs['xs']), ' '.join(f2h(v) for v in cs['ys']), f2h(cs['q']))


def pw_oracle(cs, line):
    xs, ys, q = cs['xs'], cs['ys'], cs['q']
    if cs['kind'] in ('empty', 'single', 'duplicate', 'unsorted'):
        return []           # outside the property's quantifier: model-vs-code only
    t = line.split()
    outside = (q != q) or q < xs[0] or q > xs[-1]
    if outside:
        if t[0] != 'ERR':
            return [('number-or-crash-outside-table', None, line)]
        return []
    if t[0] != 'OK':
        return [('error-inside-table', None, line)]
    v = NAN if t[1] == 'nan' else h2f(t[1])
    fails = []
    # neighbouring knots
    i = max(j for j in range(len(xs) - 1) if xs[j] <= q)
    if q == xs[i] and i > 0:
        pass
    y0, y1 = ys[i], ys[i + 1]
    tolv = 1e-12 * max(abs(y0), abs(y1), 1e-300) + 4 * sys.float_info.min
    for k, xk in enumerate(xs):
        if q == xk and not abs(v - ys[k]) <= 1e-12 * max(abs(ys[k]), abs(ys[k - 1]) if k else 0.0, abs(ys[k + 1]) if k + 1 < len(ys) else 0.0) + 4 * sys.float_info.min:
            fails.append(('knot-value-not-exact', None, 'knot %d expected %r got %r' % (k, ys[k], v)))
    lin = y0 + (q - xs[i]) / (xs[i + 1] - xs[i]) * (y1 - y0)
    if not abs(v - lin) <= tolv:
        fails.append(('not-the-linear-interpolant', None, 'segment %d expected %r got %r' % (i, lin, v)))
    if not (min(y0, y1) - tolv <= v <= max(y0, y1) + tolv):
        fails.append(('not-between-neighbouring-values', None, 'segment %d [%r,%r] got %r' % (i, y0, y1, v)))
    return fails


# ---------------------------------------------------------------- re-entrancy: nested and concurrent solves
# The model is a pure function; what has to be exercised is the re-entrancy of the CODE: an activation of FindRoot /
# Piecewise must behave as it does alone when another activation runs inside its residual (NEST) or beside it (PAR).
def gen_level(rng, base):
    """a monotone, exactly evaluable problem on a bracket placed near [base]; the brackets of the levels of one nested
    case are far apart, so a point of one level's bracket is never a legitimate point of another level"""
    a = base + dyadic(rng, 0, 8, 3)
    b = a + dyadic(rng, 0.5, 8, 3)
    fam = rng.choice(['shpow1', 'shpow3', 'pwl', 'pwt', 'quad'])
    d = None
    if fam in ('shpow1', 'shpow3'):
        pw = 1 if fam == 'shpow1' else 3
        k = rng.choice([1.0, 2.0, 0.5])
        r = a + (b - a) * dyadic(rng, 0.125, 0.875, 4)
        f = Fn('SHPOW', k=k, r=r, p=pw)
        if rng.random() < 0.6:
            d = Fn('SHPOW', k=k * pw, r=r, p=pw - 1)
    elif fam in ('pwl', 'pwt'):
        k = rng.randint(2, 6)
        cuts = sorted(set([0.0, 1.0] + [dyadic(rng, 0.0625, 0.9375, 4) for _ in range(k - 2)]))
        xs = [a + (b - a) * c for c in cuts]
        lo = -dyadic(rng, 1, 8, 3)
        hi = dyadic(rng, 1, 8, 3)
        inc = sorted(dyadic(rng, 0, 1, 5) for _ in range(len(xs) - 2))
        ys = [lo] + [lo + (hi - lo) * v for v in inc] + [hi]
        f = Fn('PWL' if fam == 'pwl' else 'PWT', xs=xs, ys=ys)
        if fam == 'pwl' and rng.random() < 0.4:
            d = Fn('POLY', cs=[dyadic(rng, 0.25, 4, 3)])
    else:
        # c1 (x-a) + c2 (x-a)^2 - c0 written in x with dyadic coefficients, increasing on [a,b]
        c1, c2 = dyadic(rng, 0.5, 4, 3), dyadic(rng, 0, 1, 3)
        z = (b - a) * dyadic(rng, 0.125, 0.875, 3)
        cs = [c2 * a * a - c1 * a - (c1 * z + c2 * z * z), c1 - 2 * c2 * a, c2]
        f = Fn('POLY', cs=cs)
        if rng.random() < 0.6:
            d = Fn('POLY', cs=[cs[1], 2 * cs[2]])
    x0 = rng.choice([a, b, a + (b - a) * dyadic(rng, 0, 1, 4)])
    return dict(f=f, d=d, x0=x0, a=a, b=b, tol=rng.choice([1e-3, 1e-6, 1e-9]), conv=rng.choice([1e-15, 1e-9, 0.0]),
                n=0, s=rng.choice([0.0, 0.0009765625, -0.0009765625, 0.00390625]), t=rng.choice([0.0, 0.0009765625, -0.001953125]))


def gen_nest_cases(rng, count):
    cases = []
    while len(cases) < count:
        depth = 2 if rng.random() < 0.75 else 3
        bases = rng.sample([-300.0, -100.0, 0.0, 100.0, 200.0, 1000.0], depth)
        levels = [gen_level(rng, bs) for bs in bases]
        for i, lv in enumerate(levels):
            lv['n'] = rng.choice([1, 2, 3, 5, 8] if depth == 2 else [1, 2, 3])
            # couplings small against the end values: (f x - t*p) + s*y  with  |t*p|, |s*y| <= 0.2
            lv['t'] = 0.0 if i == 0 else rng.choice([0.0, 0.05, -0.05, 0.2]) / max(abs(levels[i - 1]['a']), abs(levels[i - 1]['b']), 1.0)
            lv['s'] = 0.0 if i + 1 == depth else rng.choice([0.0, 0.05, -0.05, 0.2]) / max(abs(levels[i + 1]['a']), abs(levels[i + 1]['b']), 1.0)
        cases.append(levels)
    return cases


def nest_line(levels):
    parts = ['NEST', str(len(levels))]
    for lv in levels:
        parts += [lv['f'].spec(), lv['d'].spec() if lv['d'] else 'NONE'] + [f2h(lv[k]) for k in ('x0', 'a', 'b', 'tol', 'conv')] + \
                 [str(lv['n']), f2h(lv['s']), f2h(lv['t'])]
    return ' '.join(parts)


def parse_nest(line):
    """-> list of activations dict(level, p, x, delta, evals, vals, devals) | None (PANIC etc.)"""
    if not line.startswith('OK T '):
        return None
    cv = lambda z: NAN if z == 'nan' else h2f(z)
    acts = []
    for rec in line.split(' | ')[1:]:
        t = rec.split()
        assert t[0] == 'L' and t[2] == 'P' and t[4] == 'X' and t[7] == 'E'
        ne = int(t[8])
        ev = [cv(z) for z in t[9:9 + ne]]
        q = 9 + ne
        assert t[q] == 'V'
        nv = int(t[q + 1])
        vs = [cv(z) for z in t[q + 2:q + 2 + nv]]
        q += 2 + nv
        assert t[q] == 'D'
        nd = int(t[q + 1])
        dv = [cv(z) for z in t[q + 2:q + 2 + nd]]
        acts.append(dict(level=int(t[1]), p=cv(t[3]), x=cv(t[5]), delta=cv(t[6]), evals=ev, vals=vs, devals=dv))
    return acts


def nest_oracle(levels, acts):
    """the interval / value clauses on every activation of a nested run (implementation output)"""
    fails = []
    for k, ac in enumerate(acts):
        lv = levels[ac['level'] - 1]
        a, b, tol = lv['a'], lv['b'], lv['tol']
        if ac['p'] != ac['p'] or len(ac['vals']) < 3 or any(v != v for v in ac['vals'][:3]):
            continue                                   # activation started from a NaN point of its parent: nothing is claimed
        fa, fb = ac['vals'][2], ac['vals'][1]
        if not (fa <= 0 <= fb):
            continue
        nan_key = 'nan-trial-zero-secant-denominator' if (fa == 0 and (fb == 0 or tol <= 0)) else None
        where = 'activation %d (level %d, parent point %r, bracket [%r, %r])' % (k, ac['level'], ac['p'], a, b)
        if [f2h(v) for v in ac['evals'][:3]] != [f2h(lv['x0']), f2h(b), f2h(a)]:
            fails.append(('initial-evaluations', None, '%s: %r' % (where, ac['evals'][:3])))
        bad = [e for e in ac['evals'] + ac['devals'] if not (a <= e <= b)]
        if bad:
            fails.append(('evaluated-outside-interval', nan_key if bad[0] != bad[0] else None, '%s: fn evaluated at %r' % (where, bad[0])))
        if not (a <= ac['x'] <= b):
            fails.append(('point-outside-interval', nan_key if ac['x'] != ac['x'] else None, '%s: returned %r' % (where, ac['x'])))
        idx = [i for i, e in enumerate(ac['evals']) if f2h(e) == f2h(ac['x'])]
        if not idx or f2h(ac['vals'][idx[-1]]) != f2h(ac['delta']):
            fails.append(('value-is-not-f-of-point', None, '%s: x=%r delta=%r' % (where, ac['x'], ac['delta'])))
        if len(fails) >= 4:
            break
    return fails


def gen_seq_cases(rng, rcases, pcases, rlines, plines, quick):
    """history independence: single-call cases called one after the other in ONE process in designed orders; the answer to a
    given call must be bit-identical wherever it occurs (and equal to the pure model's).
    -> list of dict(items=[('ROOT'|'PIECEWISE', index into rcases/pcases)], order=[item positions], ctx=[context label per position])"""
    out = []
    by_table = {}
    for j, cs in enumerate(pcases):
        if 'sweep' in cs:
            by_table.setdefault(cs['sweep'], []).append(j)
    tables = sorted(by_table)
    rnd_pw = [j for j, cs in enumerate(pcases) if 'sweep' not in cs and len(cs['xs']) >= 2]
    for ti in (tables if quick else tables[:60]):
        own = by_table[ti]
        others = [j for t2 in tables if t2 != ti for j in by_table[t2] if pcases[j]['q'] == pcases[j]['q']]
        other = rng.sample(others, min(6, len(others))) if others else rng.sample(rnd_pw, 6)
        items = own + other
        pos = {j: k for k, j in enumerate(items)}
        xs = pcases[own[0]]['xs']
        val = lambda j: pcases[j]['q']
        interior = sorted((j for j in own if xs[0] <= val(j) <= xs[-1] and val(j) not in xs), key=val)      # strictly inside a segment
        errs = [j for j in own if not (xs[0] <= val(j) <= xs[-1])]                                       # outside / NaN
        order, ctx = [], []

        def call(j, label):
            order.append(pos[j])
            ctx.append(label)
        for j in own:                                           # every query of the table right after ...
            if val(j) != val(j):
                continue
            above = next((i for i in interior if val(i) > val(j)), None)
            below = next((i for i in reversed(interior) if val(i) < val(j)), None)
            if above is not None:
                call(above, 'setup'); call(j, 'after-lookup-in-segment-above')
            if below is not None:
                call(below, 'setup'); call(j, 'after-lookup-in-segment-below')
            call(rng.choice(other), 'setup'); call(j, 'after-lookup-in-another-table')
            if errs:
                call(rng.choice(errs), 'setup'); call(j, 'after-erroring-lookup')
            call(j, 'repeated')
        for j in sorted((j for j in own if val(j) == val(j)), key=val, reverse=True):
            call(j, 'descending')
        for _ in range(2):
            sh = list(own)
            rng.shuffle(sh)
            for j in sh:
                call(j, 'shuffled')
        out.append(dict(items=[('PIECEWISE', j) for j in items], order=order, ctx=ctx))
    # random tables and FindRoot solves, interleaved, shuffled, every call several times
    rpool = [i for i, cs in enumerate(rcases) if cs['valid'] and cs['f'].exact and (cs['d'] is None or cs['d'].exact) and
             all(math.isfinite(v) for v in (cs['tol'], cs['conv'], cs['a'], cs['b'])) and cs['tag'] != 'nan-function']
    for _ in range(3 if quick else 30):
        items = [('ROOT', i) for i in rng.sample(rpool, min(len(rpool), 30))] + [('PIECEWISE', j) for j in rng.sample(rnd_pw, min(len(rnd_pw), 50))]
        order, ctx = [], []
        for _r in range(3):
            sh = list(range(len(items)))
            rng.shuffle(sh)
            order += sh
            ctx += ['shuffled-among-other-solves-and-lookups'] * len(sh)
        out.append(dict(items=items, order=order, ctx=ctx))
    for sc in out:
        sc['lines'] = [rlines[i] if kind == 'ROOT' else plines[i] for (kind, i) in sc['items']]
        sc['line'] = 'SEQ %d %s ORDER %d %s' % (len(sc['items']), ' '.join(sc['lines']), len(sc['order']), ' '.join(str(k) for k in sc['order']))
    return out


def gen_pwops(rng, count):
    """long-lived table objects, looked up and CHANGED IN PLACE between lookups (single knots and whole tables, xs and ys,
    through the table object and through the array it is a view of, growing and shrinking values).
    -> list of dict(line, lookups=[dict(op index, table snapshot xs ys, q, fresh PIECEWISE line, what changed before)])"""
    out = []
    for _ in range(count):
        nt = rng.choice([1, 1, 2])
        tabs, heads = [], []
        for _t in range(nt):
            k = rng.randint(2, 10)
            xs = [dyadic(rng, -20, 20, 3)]
            for _i in range(k - 1):
                xs.append(xs[-1] + rng.choice([dyadic(rng, 0.25, 8, 3), rng.uniform(0.01, 50.0)]))
            ys = [rng.choice([dyadic(rng, -20, 20, 3), rng.uniform(-1e3, 1e3)]) for _i in range(k)]
            xl, yl = gen_layout(rng, k), gen_layout(rng, k)
            tabs.append(dict(xs=xs, ys=ys, xl=xl, yl=yl))
            heads.append('%s %s %d %s %s' % (xl, yl, k, ' '.join(f2h(v) for v in xs), ' '.join(f2h(v) for v in ys)))
        ops, lookups = [], []
        changed = 'nothing yet'

        def look(t, q):
            tb = tabs[t]
            ops.append('L %d %s' % (t, f2h(q)))
            cs = dict(xs=list(tb['xs']), ys=list(tb['ys']), q=q, kind='inside')
            lookups.append(dict(op=len(ops) - 1, table=t, cs=cs, fresh=pw_line(cs), after=changed, x_layout=tb['xl'], y_layout=tb['yl']))

        def inside(tb):
            i = rng.randrange(len(tb['xs']) - 1)
            return rng.choice([tb['xs'][i] + (tb['xs'][i + 1] - tb['xs'][i]) * rng.choice([0.5, rng.random()]), tb['xs'][i + 1], tb['xs'][i]])
        for _r in range(rng.randint(3, 7)):
            t = rng.randrange(nt)
            tb = tabs[t]
            k = len(tb['xs'])
            q = inside(tb)
            look(t, q)
            if rng.random() < 0.3:
                look(t, q)
            # change the table in place
            which = rng.choice(['X', 'X', 'X', 'Y'])
            arr = tb['xs'] if which == 'X' else tb['ys']
            lay = tb['xl'] if which == 'X' else tb['yl']
            mode = rng.choice(['knot', 'knot', 'whole', 'whole'])
            via = rng.choice(['object', 'parent'])
            if lay.startswith('COL ') and lay.endswith(' 0'):
                via = 'object'          # a reshaped column may be a copy (Reshape of a non-contiguous view): the block is not its parent
            if mode == 'knot':
                i = rng.randrange(k)
                if which == 'X':
                    lo = arr[i - 1] if i > 0 else arr[i] - 10.0
                    hi = arr[i + 1] if i + 1 < k else arr[i] + 10.0
                    v = lo + (hi - lo) * rng.choice([0.25, 0.5, 0.75, rng.uniform(0.05, 0.95)])
                    if not (lo < v < hi):
                        v = arr[i]
                else:
                    v = arr[i] * rng.choice([2.0, 0.5, -1.0]) + rng.choice([0.0, 1.0])
                arr[i] = v
                ops.append('%s%s %d %d %s' % ('S' if via == 'object' else 'B', which, t, i, f2h(v)))
                changed = '%ss[%d] set through the %s' % (which.lower(), i, 'table object' if via == 'object' else 'array the table is a view of')
            else:
                if which == 'X':
                    sc, sh = rng.choice([1.0, 2.0, 0.5, 1.0]), rng.choice([dyadic(rng, -4, 4, 3), 0.0, rng.uniform(-30, 30)])
                    new = [x * sc + sh for x in arr]
                    if any(not (new[i] < new[i + 1]) for i in range(k - 1)):
                        new = list(arr)
                else:
                    new = [rng.uniform(-1e3, 1e3) for _i in range(k)]
                arr[:] = new
                code = rng.choice(['W', 'C']) if via == 'object' else 'P'
                if code == 'C' and lay != 'P':
                    code = 'W'
                ops.append('%s%s %d %s' % (code, which, t, ' '.join(f2h(v) for v in new)))
                changed = 'all %ss rewritten through the %s' % (which.lower(), {'W': 'table object', 'C': 'table object (CopyFrom)', 'P': 'array the table is a view of'}[code])
            look(t, q)                                     # the same argument again
            look(t, inside(tb))
            if rng.random() < 0.4:
                look(t, rng.choice([tb['xs'][0] - 1.0, tb['xs'][-1] + 1.0, NAN, q]))
            if nt > 1 and rng.random() < 0.5:
                look(1 - t, inside(tabs[1 - t]))
        out.append(dict(line='PWOPS T %d %s OPS %d %s' % (nt, ' '.join(heads), len(ops), ' '.join(ops)), lookups=lookups))
    return out


def gen_par_cases(rng, count, rcases, pcases):
    """-> list of dict(g, reps, seed, items=[(kind, case, line)]) drawn from the single-call streams"""
    rpool = [cs for cs in rcases if cs['valid'] and cs['f'].exact and (cs['d'] is None or cs['d'].exact) and cs['n'] >= 2 and
             all(math.isfinite(v) for v in (cs['tol'], cs['conv'], cs['a'], cs['b'])) and cs['tag'] != 'nan-function']
    ppool = [cs for cs in pcases if cs['kind'] in ('inside', 'mid', 'knot', 'outside', 'nan')]
    out = []
    for _ in range(count):
        items = [('ROOT', cs, root_line(cs)) for cs in rng.sample(rpool, min(len(rpool), rng.randint(12, 24)))]
        items += [('PIECEWISE', cs, pw_line(cs)) for cs in rng.sample(ppool, min(len(ppool), 8))]
        rng.shuffle(items)
        out.append(dict(g=rng.choice([8, 12, 16]), reps=3, seed=rng.randint(1, 10 ** 6), items=items))
    return out


def par_line(pc):
    return 'PAR %d %d %d %d %s' % (pc['g'], pc['reps'], pc['seed'], len(pc['items']), ' '.join(l for (_, _, l) in pc['items']))


def parse_par(line):
    """-> (alone outputs, runs, mismatches, (index, concurrent output) | None) | None"""
    if not line.startswith('OK R '):
        return None
    parts = line.split(' | ')
    k = int(parts[0].split()[2])
    alone = parts[1:1 + k]
    ct = parts[1 + k].split()
    first = None
    if len(parts) > 2 + k:
        idx, _, out = parts[2 + k].partition(' ')
        first = (int(idx), out)
    return alone, int(ct[1]), int(ct[2]), first


def race_run(lines):
    """the concurrent stream once more under the Go race detector -> ('ok' | 'unavailable: ..' , report or None)"""
    try:
        build_harness(['owrun'], race=True)
    except BuildError as e:
        return 'unavailable: race build failed (%s)' % e.output.strip().split('\n')[-1][:120], None
    p = subprocess.run([os.path.join(HARNESS, 'bin', 'owrun-race')], input='\n'.join(lines) + '\n', stdout=subprocess.PIPE,
                       stderr=subprocess.PIPE, text=True, timeout=900, env=GOENV)
    if 'DATA RACE' in p.stderr:
        i = p.stderr.index('DATA RACE')
        return 'race', p.stderr[max(0, i - 20):i + 2500]
    return 'ok', None


# ---------------------------------------------------------------- replay
def fn_from(d):
    if d is None:
        return None
    d = dict(d)
    if d.get('kind') == 'DIV':
        d['num'], d['den'] = fn_from(d['num']), fn_from(d['den'])
    return Fn(d.pop('kind'), **d)


def replay(path):
    """re-run one recorded case on the implementation and the model and re-evaluate the oracle"""
    obj = json.load(open(path))
    line = obj.get('case_line')
    if not line:
        print('replay file records a broken proof obligation / correspondence, not an input: %s' % obj.get('kind'))
        print(json.dumps(obj, indent=1)[:3000])
        sys.exit(1)
    build_driver(['c18'])
    build_harness(['owrun'])
    li = run_impl([line])[0]
    lm = run_model([obj['plain_line'] if line.startswith('PWLAY') else line])[0]
    print('case :', line)
    print('impl :', li[:3000])
    print('model:', lm[:3000])
    if line.startswith('PWLAY'):
        plain = run_impl([obj['plain_line']])[0]
        print('impl with plain arrays:', plain)
        cs = dict(xs=obj['xs'], ys=obj['ys'], q=float(obj['query']), kind=obj.get('query_kind', 'inside'))
        fails = pw_oracle(cs, li) + ([('result-depends-on-table-storage', None, '%s vs %s' % (li, plain))] if li != plain else [])
    elif line.startswith('NEST'):
        levels = [dict(f=fn_from(l['function']), d=fn_from(l['derivative']), **{k: l[k] for k in ('x0', 'a', 'b', 'tol', 'conv', 'n', 's', 't')})
                  for l in obj['levels']]
        acts = parse_nest(li)
        fails = nest_oracle(levels, acts) if acts is not None else []
    elif line.startswith('PWOPS'):
        outs = li.split(' | ')[1:]
        nl = sum(1 for tk in line.split(' OPS ')[1].split()[1:] if tk == 'L')
        ops = line.split(' OPS ')[1].split()[1:]
        # index of the recorded lookup among the L ops
        widths = {'L': 3, 'S': 4, 'B': 4}
        fresh = run_impl([obj['fresh_line']])[0]
        lm = run_model([obj['fresh_line']])[0]
        print('the table as it is at that lookup, in fresh arrays:', fresh, ' model:', lm)
        print('recorded answer of lookup op %s: %s' % (obj.get('lookup_is_op'), obj.get('impl')))
        cs = dict(xs=obj['xs_now'], ys=obj['ys_now'], q=float(obj['query']), kind='nan' if obj['query'] == 'nan' else 'inside')
        fails = []
        if obj.get('impl') in outs and obj.get('impl') != fresh:
            fails.append(('lookup-does-not-see-the-table-as-it-is-now', None, 'a lookup of the script still answers %s' % obj.get('impl')))
            fails += pw_oracle(cs, obj['impl'])
        li = lm
    elif line.startswith('SEQ'):
        outs = li.split(' | ')[1:]
        order = line.split(' ORDER ')[1].split()[1:]
        seen, fails = {}, []
        for p_, (k, o) in enumerate(zip(order, outs)):
            if k in seen and seen[k] != o and len(fails) < 5:
                fails.append(('result-depends-on-preceding-calls', None, 'call %d (item %s): %s, earlier %s' % (p_, k, o[:120], seen[k][:120])))
            seen.setdefault(k, o)
        lm = li          # the model is a pure function of each call; compared in the main run
    elif line.startswith('PAR'):
        r = parse_par(li)
        fails = [('concurrent-run-crashed', None, li[:300])] if r is None else \
            ([('result-depends-on-concurrent-calls', None, '%d of %d runs differ' % (r[2], r[1]))] if r[2] else [])
        lm = li          # the model has no concurrency; the items alone are compared in the main run
    elif line.startswith('ROOT'):
        cs = dict(f=fn_from(obj['function']), d=fn_from(obj.get('derivative')), x0=obj['x0'], a=obj['a'], b=obj['b'],
                  tol=obj['tol'], conv=obj['conv'], n=obj['n'], mono=obj.get('mono', False), valid=True, tag='replay')
        fails = root_oracle(cs, parse_root(li))
    else:
        q = float(obj['query'])
        cs = dict(xs=obj['xs'], ys=obj['ys'], q=q, kind=obj.get('query_kind', 'inside'))
        fails = pw_oracle(cs, li)
    for (kind, key, detail) in fails:
        print('oracle failure: %s %s (known-finding key: %s)' % (kind, detail, key))
    if li != lm:
        print('model and implementation differ')
    sys.exit(1 if (fails or li != lm) else 0)


# ---------------------------------------------------------------- main
def main():
    for i, a in enumerate(sys.argv):
        if a == '--replay' and i + 1 < len(sys.argv):
            replay(sys.argv[i + 1])
    c = Check('C18')
    c.prove()
    quick = c.tier == 'quick'
    coqchk = 'not run (quick tier)'
    if not quick and not c.proof_broken:
        # independent re-check of the compiled proofs with the stand-alone checker
        try:
            import vlib
            with vlib._Lock():
                out = sh('timeout 2400 coqchk -silent -o -Q . OW OW.Properties.C18', cwd=COQ, timeout=2500)
            coqchk = 'ok' if ('type-in-type: <none>' in out and 'unsafe (co)fixpoints: <none>' in out
                              and 'positivity is assumed: <none>' in out) else 'unexpected report'
            if coqchk != 'ok':
                c.proof_broken = ('coqchk Properties/C18.vo', out[-3000:])
        except BuildError as e:
            coqchk = 'failed'
            c.proof_broken = ('coqchk Properties/C18.vo', e.output[-3000:])
    build_driver(['c18'])
    build_harness(['owrun'])
    rng = c.rng
    rcases = gen_root_cases(rng, 1500 if quick else 40000)
    pcases = gen_pw_cases(rng, 800 if quick else 20000)
    sweeps = gen_pw_sweeps(rng, 14 if quick else 300)
    pcases = pcases + sweeps
    rlines = [root_line(cs) for cs in rcases]
    plines = [pw_line(cs) for cs in pcases]
    impl = run_impl(rlines + plines)
    model = run_model(rlines + plines)
    stats = {'root_cases': len(rcases), 'piecewise_cases': len(pcases), 'piecewise_sweep_tables': len(set(cs['sweep'] for cs in sweeps)),
             'piecewise_sweep_queries': len(sweeps), 'piecewise_max_table_length': max(len(cs['xs']) for cs in pcases),
             'piecewise_repeated_knot_queries': sum(1 for cs in pcases if cs['kind'] == 'duplicate'), 'root_valid_oracle_cases': 0, 'root_monotone_cases': 0,
             'root_with_derivative': 0, 'root_returned_within_tol': 0, 'root_budget_clause_applicable': 0,
             'root_fn_evaluations_total': 0, 'root_panics_both_sides': 0, 'piecewise_errors': 0, 'piecewise_values': 0,
             'piecewise_nan_or_inf_queries': 0, 'families': {}, 'known_finding_cases': {}, 'root_mismatches': 0}
    # ---- FindRoot
    for i, cs in enumerate(rcases):
        li, lm = impl[i], model[i]
        stats['families'][cs['tag']] = stats['families'].get(cs['tag'], 0) + 1
        diff = root_agree(li, lm, cs['f'].exact and (cs['d'] is None or cs['d'].exact))
        if diff:
            c.corr_broken.append({'case': cs['tag'], 'diff': diff, 'case_line': rlines[i]})
            stats['root_mismatches'] += 1
        res = parse_root(li)
        nontrivial = res[0] == 'OK' and len(res[3]) >= 6          # at least two complete trial evaluations beyond the first
        c.count(rlines[i], nontrivial=nontrivial)
        if res[0] == 'OK':
            stats['root_fn_evaluations_total'] += len(res[3])
            if cs['d'] is not None:
                stats['root_with_derivative'] += 1
        elif res[0] == 'PANIC' and lm.startswith('PANIC'):
            stats['root_panics_both_sides'] += 1
        if not cs['valid'] or not all(math.isfinite(v) for v in (cs['tol'], cs['conv'], cs['a'], cs['b'])) or cs['tag'] == 'nan-function':
            continue
        stats['root_valid_oracle_cases'] += 1
        if cs['mono']:
            stats['root_monotone_cases'] += 1
        if res[0] == 'OK' and abs(res[2]) < cs['tol']:
            stats['root_returned_within_tol'] += 1
        Bn = cs['f'].bracket_bound(cs['a'], cs['b'], (cs['b'] - cs['a']) / 2.0 ** max(cs['n'], 0))
        Bc = cs['f'].bracket_bound(cs['a'], cs['b'], max(cs['conv'], 0.0))
        if Bn is not None and cs['n'] >= 1 and Bn < 0.5 * cs['tol'] and Bc < 0.5 * cs['tol']:
            stats['root_budget_clause_applicable'] += 1
        for (kind, key, detail) in root_oracle(cs, res):
            rep = {'kind': kind, 'detail': detail, 'function': cs['f'].describe(), 'derivative': cs['d'].describe() if cs['d'] else None,
                   'x0': cs['x0'], 'a': cs['a'], 'b': cs['b'], 'tol': cs['tol'], 'conv': cs['conv'], 'n': cs['n'], 'mono': cs['mono'],
                   'impl': li, 'model': lm, 'case_line': rlines[i]}
            if not c.violation('root_%d_%s.json' % (i, kind), rep, key=key):
                stats['known_finding_cases'][key] = stats['known_finding_cases'].get(key, 0) + 1
        if i % 131 == 0 and res[0] == 'OK':
            c.sample({'fn': cs['f'].describe(), 'x0': cs['x0'], 'a': cs['a'], 'b': cs['b'], 'tol': cs['tol'], 'conv': cs['conv'],
                      'n': cs['n'], 'x': res[1], 'delta': res[2], 'fn_evaluations': len(res[3]), 'fn_dx_evaluations': len(res[4])})
    # ---- Piecewise
    off = len(rcases)
    for j, cs in enumerate(pcases):
        li, lm = impl[off + j], model[off + j]
        if li != lm:
            # the only float freedom is none here: same operations in the same order
            c.corr_broken.append({'case': 'piecewise-' + cs['kind'], 'diff': 'impl=%s model=%s' % (li, lm), 'case_line': plines[j]})
        c.count(plines[j], nontrivial=cs['kind'] in ('inside', 'mid') and li.startswith('OK'))
        if li.startswith('ERR'):
            stats['piecewise_errors'] += 1
        elif li.startswith('OK'):
            stats['piecewise_values'] += 1
        if cs['kind'] in ('nan', 'inf'):
            stats['piecewise_nan_or_inf_queries'] += 1
        for (kind, key, detail) in pw_oracle(cs, li):
            c.violation('piecewise_%d_%s.json' % (j, kind), {'kind': kind, 'detail': detail, 'xs': cs['xs'], 'ys': cs['ys'], 'query': repr(cs['q']),
                                                            'query_kind': cs['kind'], 'impl': li, 'model': lm, 'case_line': plines[j]}, key=key)
        if j % 211 == 0:
            c.sample({'xs': cs['xs'], 'ys': cs['ys'], 'query': repr(cs['q']), 'result': li}, limit=6)
    # ---- Piecewise must not care how a table is stored: the same tables as columns of parameter blocks (cut the way the
    #      generated wrappers do), reshaped columns, strided and doubly sliced views, Go- and C-backed
    lcases = [(j, cs, gen_layout(rng, len(cs['xs'])), gen_layout(rng, len(cs['xs'])))
              for j, cs in enumerate(pcases) for _ in range(1 if quick else 2) if len(cs['xs']) >= 1]
    llines = [pwlay_line(cs, xl, yl) for (_, cs, xl, yl) in lcases]
    limpl = run_impl(llines)
    stats.update(piecewise_layout_cases=len(lcases), piecewise_layout_kinds={}, piecewise_layout_mismatches=0)
    for i, ((j, cs, xl, yl), lo) in enumerate(zip(lcases, limpl)):
        plain = impl[off + j]
        for l in (xl, yl):
            kd = l.split()[0] + ('' if l == 'P' else '-' + l.split()[1]) + ('-reshaped' if l.startswith('COL ') and l.endswith(' 0') else '')
            stats['piecewise_layout_kinds'][kd] = stats['piecewise_layout_kinds'].get(kd, 0) + 1
        c.count(llines[i], nontrivial=(xl != 'P' or yl != 'P') and lo.startswith('OK'))
        rep = {'xs': cs['xs'], 'ys': cs['ys'], 'query': repr(cs['q']), 'query_kind': cs['kind'], 'x_layout': xl, 'y_layout': yl,
               'impl': lo, 'impl_plain_arrays': plain, 'model': model[off + j], 'plain_line': plines[j], 'case_line': llines[i]}
        if lo != plain:
            stats['piecewise_layout_mismatches'] += 1
            c.violation('pwlay_%d_depends-on-table-storage.json' % i, dict(
                rep, kind='result-depends-on-table-storage',
                detail='xs stored as [%s], ys as [%s]: %s ; the same tables as plain arrays: %s' % (xl, yl, lo, plain)))
        for (kind, key, detail) in pw_oracle(cs, lo):
            c.violation('pwlay_%d_%s.json' % (i, kind), dict(rep, kind=kind, detail=detail + ' (xs stored as [%s], ys as [%s])' % (xl, yl)), key=key)
        if i % 397 == 0:
            c.sample({'table_length': len(cs['xs']), 'x_layout': xl, 'y_layout': yl, 'query': repr(cs['q']), 'result': lo}, limit=8)
    # ---- tables changed in place between lookups: the answer is the one for the table AS IT IS NOW
    ocs = gen_pwops(rng, 80 if quick else 1500)
    oimpl = run_impl([oc['line'] for oc in ocs])
    fresh = [lk['fresh'] for oc in ocs for lk in oc['lookups']]
    fimpl, fmodel = run_impl(fresh), run_model(fresh)
    stats.update(pwops_scripts=len(ocs), pwops_lookups=len(fresh), pwops_in_place_changes=0, pwops_stale_answers=0)
    fi = 0
    for oi, (oc, lo) in enumerate(zip(ocs, oimpl)):
        stats['pwops_in_place_changes'] += sum(1 for tk in oc['line'].split(' OPS ')[1].split() if tk[:2] in
                                               ('SX', 'SY', 'BX', 'BY', 'WX', 'WY', 'PX', 'PY', 'CX', 'CY'))
        ok = lo.startswith('OK O ')
        c.count(oc['line'], nontrivial=ok)
        outs = lo.split(' | ')[1:] if ok else []
        if not ok or len(outs) != len(oc['lookups']):
            c.violation('pwops_%d_crash.json' % oi, {'kind': 'lookups-on-a-changing-table-crashed', 'detail': lo[:500], 'case_line': oc['line']})
            fi += len(oc['lookups'])
            continue
        for lk, o in zip(oc['lookups'], outs):
            fo, fm = fimpl[fi], fmodel[fi]
            fi += 1
            if fo != fm:
                c.corr_broken.append({'case': 'piecewise (table of a PWOPS script, fresh arrays)', 'diff': 'impl=%s model=%s' % (fo, fm), 'case_line': lk['fresh']})
            rep = {'xs_now': lk['cs']['xs'], 'ys_now': lk['cs']['ys'], 'query': repr(lk['cs']['q']), 'x_layout': lk['x_layout'], 'y_layout': lk['y_layout'],
                   'lookup_is_op': lk['op'], 'changed_before': lk['after'], 'impl': o, 'impl_fresh_arrays_same_table': fo, 'model': fm,
                   'fresh_line': lk['fresh'], 'case_line': oc['line']}
            if o != fo:
                stats['pwops_stale_answers'] += 1
                c.violation('pwops_%d_op_%d_answer-for-an-earlier-table.json' % (oi, lk['op']), dict(
                    rep, kind='lookup-does-not-see-the-table-as-it-is-now',
                    detail='lookup (op %d, after: %s) answers %s; the table as it is now, in fresh arrays: %s; model: %s' % (lk['op'], lk['after'], o, fo, fm)))
            for (kind, key, detail) in pw_oracle(lk['cs'] if lk['cs']['q'] == lk['cs']['q'] else dict(lk['cs'], kind='nan'), o):
                c.violation('pwops_%d_op_%d_%s.json' % (oi, lk['op'], kind), dict(rep, kind=kind, detail=detail + ' (after: %s)' % lk['after']), key=key)
        if oi % 37 == 0:
            c.sample({'pwops_script_ops': oc['line'].split(' OPS ')[1][:200], 'lookups': len(outs)}, limit=14)
    # ---- history independence: the answer to a call does not depend on the calls made before it
    scs = gen_seq_cases(rng, rcases, pcases, rlines, plines, quick)
    simpl = run_impl([sc['line'] for sc in scs])
    stats.update(seq_cases=len(scs), seq_calls=0, seq_distinct_calls=0, seq_history_mismatches=0, seq_contexts={})
    for si, (sc, lo) in enumerate(zip(scs, simpl)):
        ok = lo.startswith('OK S ')
        c.count(sc['line'], nontrivial=ok)
        if not ok:
            c.violation('seq_%d_crash.json' % si, {'kind': 'sequence-of-calls-crashed', 'detail': lo[:500], 'case_line': sc['line']})
            continue
        outs = lo.split(' | ')[1:]
        stats['seq_calls'] += len(outs)
        stats['seq_distinct_calls'] += len(set(sc['order']))
        firsts = {}
        reported = set()
        for p_, (k, o) in enumerate(zip(sc['order'], outs)):
            lab = sc['ctx'][p_]
            if lab != 'setup':
                stats['seq_contexts'][lab] = stats['seq_contexts'].get(lab, 0) + 1
            kind, idx = sc['items'][k]
            ref_model = model[idx] if kind == 'ROOT' else model[off + idx]
            if k in firsts and o != firsts[k][1] and k not in reported:
                reported.add(k)
                stats['seq_history_mismatches'] += 1
                prev = sc['order'][p_ - 1] if p_ else None
                c.violation('seq_%d_call_%d_depends-on-preceding-calls.json' % (si, p_), {
                    'kind': 'result-depends-on-preceding-calls',
                    'detail': 'call %d of the sequence (%s) answers %s; the identical call at position %d answered %s; the pure model: %s' %
                              (p_, lab, o[:300], firsts[k][0], firsts[k][1][:300], ref_model[:300]),
                    'call': sc['lines'][k], 'preceding_call': sc['lines'][prev] if prev is not None else None,
                    'minimal_case_line': None if prev is None else 'SEQ 2 %s %s ORDER 2 0 1' % (sc['lines'][prev], sc['lines'][k]),
                    'case_line': sc['line']})
            firsts.setdefault(k, (p_, o))
            if o != ref_model and k not in reported:
                reported.add(k)
                if o == (impl[idx] if kind == 'ROOT' else impl[off + idx]):
                    c.corr_broken.append({'case': 'call in a sequence', 'diff': 'impl=%s model=%s' % (o[:200], ref_model[:200]), 'case_line': sc['lines'][k]})
                else:
                    # differs from the model AND from the same call made in the single-call stream
                    stats['seq_history_mismatches'] += 1
                    prev = sc['order'][p_ - 1] if p_ else None
                    c.violation('seq_%d_call_%d_depends-on-preceding-calls.json' % (si, p_), {
                        'kind': 'result-depends-on-preceding-calls',
                        'detail': 'call %d of the sequence (%s) answers %s; the same call in the single-call stream answered %s; the pure model: %s' %
                                  (p_, lab, o[:300], (impl[idx] if kind == 'ROOT' else impl[off + idx])[:300], ref_model[:300]),
                        'call': sc['lines'][k], 'preceding_call': sc['lines'][prev] if prev is not None else None,
                        'minimal_case_line': None if prev is None else 'SEQ 2 %s %s ORDER 2 0 1' % (sc['lines'][prev], sc['lines'][k]),
                        'case_line': sc['line']})
        if si in (0, len(scs) - 1):
            c.sample({'sequence_items': len(sc['items']), 'calls': len(outs), 'first_calls': [sc['ctx'][q] for q in range(min(8, len(outs)))]}, limit=12)
    # ---- re-entrancy: nested solves (1 and 2 levels of FindRoot inside the residual)
    def lvdesc(lv):
        return dict(function=lv['f'].describe(), derivative=lv['d'].describe() if lv['d'] else None,
                    **{k: lv[k] for k in ('x0', 'a', 'b', 'tol', 'conv', 'n', 's', 't')})
    ncases = gen_nest_cases(rng, 200 if quick else 3000)
    nlines = [nest_line(lv) for lv in ncases]
    nimpl = run_impl(nlines)
    nmodel = run_model(nlines)
    stats.update(nest_cases=len(ncases), nest_depth3_cases=sum(1 for lv in ncases if len(lv) == 3), nest_activations=0,
                 nest_panics_both_sides=0, nest_mismatches=0)
    for i, (lv, li, lm) in enumerate(zip(ncases, nimpl, nmodel)):
        acts = parse_nest(li)
        c.count(nlines[i], nontrivial=acts is not None and len(acts) >= 4)
        if acts is None and not lm.startswith('OK'):
            stats['nest_panics_both_sides'] += 1
        fails = nest_oracle(lv, acts) if acts is not None else []
        for (kind, key, detail) in fails:
            rep = {'kind': 'nested-' + kind, 'detail': detail, 'levels': [lvdesc(x) for x in lv], 'impl': li[:6000], 'model': lm[:6000],
                   'case_line': nlines[i]}
            if not c.violation('nest_%d_%s.json' % (i, kind), rep, key=key):
                stats['known_finding_cases'][key] = stats['known_finding_cases'].get(key, 0) + 1
        if acts is not None:
            stats['nest_activations'] += len(acts)
        if li != lm:
            stats['nest_mismatches'] += 1
            first = next((k for k, (x, y) in enumerate(zip(li.split(' | '), lm.split(' | '))) if x != y), None)
            c.corr_broken.append({'case': 'nested depth %d' % len(lv), 'diff': 'first differing record %r' % first, 'case_line': nlines[i]})
            if not fails and stats['root_mismatches'] == 0:
                # single calls agree with the model everywhere, the same solves nested do not: the code's activation is not a
                # function of its arguments (it sees state of the activation running inside its residual)
                c.violation('nest_%d_not-reentrant.json' % i, {
                    'kind': 'nested-activation-differs-from-the-same-solve-alone', 'detail': 'record %r of the trace' % first,
                    'levels': [lvdesc(x) for x in lv], 'impl': li[:6000], 'model': lm[:6000], 'case_line': nlines[i]})
        if i % 67 == 0 and acts:
            c.sample({'nested_depth': len(lv), 'brackets': [[x['a'], x['b']] for x in lv], 'activations': len(acts),
                      'outer_result': [acts[-1]['x'], acts[-1]['delta']]}, limit=9)
    # ---- re-entrancy: the same solves from 8-16 goroutines at once, shuffled
    pcs = gen_par_cases(rng, 4 if quick else 24, rcases, pcases)
    parlines = [par_line(pc) for pc in pcs]
    pimpl = run_impl(parlines)
    stats.update(par_cases=len(pcs), par_items=0, par_concurrent_runs=0, par_mismatches=0)
    for i, (pc, li) in enumerate(zip(pcs, pimpl)):
        r = parse_par(li)
        c.count(parlines[i], nontrivial=r is not None and r[1] > 0)
        if r is None:
            c.violation('par_%d_crash.json' % i, {'kind': 'concurrent-run-crashed', 'detail': li[:500], 'goroutines': pc['g'],
                                                  'items': [l for (_, _, l) in pc['items']], 'case_line': parlines[i]})
            continue
        alone, runs, bad, first = r
        stats['par_items'] += len(alone)
        stats['par_concurrent_runs'] += runs
        stats['par_mismatches'] += bad
        ml = run_model([l for (_, _, l) in pc['items']])
        for k, (x, y) in enumerate(zip(alone, ml)):
            if x != y:
                c.corr_broken.append({'case': 'par item run alone', 'diff': 'impl=%s model=%s' % (x[:200], y[:200]), 'case_line': pc['items'][k][2]})
        if bad:
            k, out = first
            kind, cs, line = pc['items'][k]
            extra = [f[0] + ': ' + f[2] for f in (root_oracle(cs, parse_root(out)) if kind == 'ROOT' else pw_oracle(cs, out))]
            c.violation('par_%d_depends-on-concurrent-calls.json' % i, {
                'kind': 'result-depends-on-concurrent-calls',
                'detail': '%d of %d concurrent runs differ from the same call run alone; first: item %d' % (bad, runs, k),
                'item': line, 'alone': alone[k], 'concurrent': out, 'oracle_on_concurrent_output': extra,
                'goroutines': pc['g'], 'case_line': parlines[i]})
        if i == 0:
            c.sample({'concurrent_goroutines': pc['g'], 'items': len(alone), 'runs': runs, 'differing_runs': bad}, limit=10)
    # the same stream under the Go race detector
    race, report = race_run(parlines[:1] if quick else parlines[:6])
    if race == 'race':
        c.violation('race_detected.json', {'kind': 'data-race-detected', 'detail': report, 'case_line': parlines[0]})
    stats['race_detector'] = race
    c.cov['rule'] = ('FindRoot: test functions evaluated identically by Go, the extracted model and this script (Horner polynomials with dyadic '
                     'coefficients: non-decreasing cubics on [a,b] with a>=0 and three-root cubics with a sign change; k*(x-r)^p with odd p (flat at the root) with its derivative and iteration limits around the number of halvings that reach the tolerance; piecewise-linear with kinks '
                     'and flats, monotone and zig-zag; k*x^m-c through libm compared at rtol 1e-9), derivative absent / true / arbitrary, guesses at '
                     'the ends, the midpoint and inside, tolerances 0..0.5, convergence limits 0..1e-2, iteration limits 0..200, plus a fixed stream '
                     '(repo test, the Coq witnesses, degenerate f(a)=f(b)=0 brackets, wrong signs, NaN/Inf inputs, negative limit). Compared: result, value '
                     'and the complete sequences of fn and fn_dx evaluation points. Non-trivial ROOT case = a run with at least 6 fn evaluations (past '
                     'the first trial pair). Piecewise: strictly increasing tables of length 2-12 (dyadic and random), queries at knots, inside, '
                     'midpoints, one ulp inside/outside the ends, outside, +-Inf, NaN; plus empty/single/duplicate/unsorted tables compared '
                     'model-vs-code only; whole-table sweeps (2-40 knots; a query on every knot, inside every segment including the last, one ulp inside/outside '
                     'the ends, NaN; a quarter with a repeated knot); every case once more with xs and ys stored as callers store them (column of a '
                     '[npts+pad, nSets] block cut with the short-size Slice of the generated wrappers, reshaped column, column of a row range, '
                     'stepped column, strided and twice-stepped 1-d views; Go- and C-backed; buffers filled by position) and compared with the '
                     'plain-array answer; tables changed in place (PWOPS): long-lived table objects in those layouts, looked up, then one knot or all knots '
                     'of xs or ys rewritten through the table object (Set, CopyFrom) or through the array it is a view of, then looked up again '
                     '(same argument, another argument, outside, NaN, another table): every answer must be the one for the table as it is now '
                     '(fresh arrays, the model); history independence (SEQ): the sweep queries of every table called in one process right after a lookup in the '
                     'segment above, in the segment below, in another table and after an erroring lookup, repeated, in descending and shuffled '
                     'orders, and FindRoot solves and random-table lookups interleaved in shuffled orders three times each: every answer must be '
                     'bit-identical to every other answer to the same call and to the pure model. Non-trivial PIECEWISE case = a value returned for a query between two knots. Re-entrancy: NEST = residuals that '
                     'themselves call FindRoot 1 and 2 levels deep (monotone levels on far-apart brackets, with/without derivative, some looking tables up '
                     'through Piecewise), every activation of every level compared with the model run of that activation on its own and checked against '
                     'the interval/value clauses (non-trivial = at least 4 activations); PAR = 20-30 solves and lookups of the single-call streams run '
                     'alone, then 3 times each from 8-16 goroutines in shuffled orders yielding inside every residual evaluation, every concurrent '
                     'output compared with the output alone (and alone with the model), once more under the Go race detector. Distinct = distinct case lines.')
    c.finish(extra_cov=dict(stats, exhaustive=False, coqchk=coqchk),
             assumptions=['theorems are over exact reals; binary64 round-off is covered only by the differential run and the oracle with the stated slacks '
                          '(1e-12 relative on table values: y0 + 1*(y1-y0) may differ from y1 by an ulp)',
                          'fn is treated as a pure function (the model calls it exactly as often and in the same order as the Go code, which is what the '
                          'evaluation-sequence comparison tests); re-entrancy of the Go code (nested and concurrent activations), which the pure model '
                          'has by construction, is tested by the NEST and PAR streams, not proved',
                          'OCaml libm stands in for Go math.Pow in the k*x^m-c family (rtol 1e-9)',
                          'the storage-layout stream shows Piecewise independent of the table layouts listed in the rule; the data package itself is C01-C03 territory'])


if __name__ == '__main__':
    main()
