#!/usr/bin/env python3
"""C02: bulk operations equal their row-major element-by-element definition."""
import sys, os
sys.path.insert(0, os.path.dirname(os.path.abspath(__file__)))
import arrays_check
arrays_check.run('C02', 'bulk',
                 'stream biased to ApplySlice/CopyFrom/Reshape/Unroll/Contiguous/Max/Min/arrayops over all source/destination contiguity combinations, plus the integer helpers against their arithmetic definitions',
                 ['ApplySlice/CopyFrom/arrayops fast path = index loop is established by the correspondence + abstract-spec oracle only (C02_bulk_partial); it is false for partially overlapping views (known finding overlapping-copy)',
                  'values are small integers, exact in all 8 element types; the model runs once with V = Z'],
                 allowed=None, use_iops=True, oracle='spec')
