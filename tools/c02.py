#!/usr/bin/env python3
"""C02: bulk operations equal their row-major element-by-element definition."""
import sys, os
sys.path.insert(0, os.path.dirname(os.path.abspath(__file__)))
import arrays_check
import fpspecial
import bigarrays
arrays_check.run('C02', 'bulk',
                 'stream biased to ApplySlice/CopyFrom/Reshape/Unroll/Contiguous/Max/Min/arrayops over all source/destination contiguity combinations, plus the integer helpers against their arithmetic definitions',
                 ['ApplySlice/CopyFrom/arrayops fast path = index loop is proved for non-overlapping views (C02_*_fast_eq_slow) and false for partially overlapping ones (known finding overlapping-copy)',
                  'history values are small integers, exact in all 8 element types; the model runs once with V = Z; IEEE special values (NaN, infinities, signed zeros, subnormals) are covered by a separate stream judged by the element-by-element definition (tools/fpspecial.py), an instance of the V-generic theorems'],
                 extra=lambda c: dict(fpspecial.fp_specials(c), **bigarrays.big_arrays(c)),
                 allowed=None, use_iops=True, oracle='spec')
