"""Shared pieces of the C10 / C15 checks (rainfall-runoff models): parameter and
forcing generators, INIT helper, and the executable oracles evaluated on the
implementation's outputs."""
import math
from vlib import *

# ---------------------------------------------------------------- parameter ranges
# (lo, hi, log-uniform?)  -- documented ranges (OW-SPEC) where the spec gives one,
# otherwise the physically meaningful range written out in coq/Properties/C10.v
RANGES = {
    'GR4J': [(1.0, 1500.0, True), (-10.0, 5.0, False), (1.0, 500.0, True), (0.5, 4.0, False)],
    # baseflowCoefficient imperviousThreshold infiltrationCoefficient infiltrationShape interflowCoefficient
    # perviousFraction risc rechargeCoefficient smsc
    'Simhyd': [(0.0, 1.0, False), (0.0, 5.0, False), (0.0, 400.0, False), (0.0, 10.0, False), (0.0, 1.0, False),
               (0.0, 1.0, False), (0.0, 5.0, False), (0.0, 1.0, False), (1.0, 500.0, True)],
    # bfac coeff dseep fcFrac fimp rfac smax sq thres
    'Surm': [(0.0, 1.0, False), (0.0, 400.0, False), (0.0, 1.0, False), (0.0, 1.0, False), (0.0, 1.0, False),
             (0.0, 1.0, False), (10.0, 500.0, True), (0.0, 10.0, False), (0.0, 5.0, False)],
    # lzpk lzsk uzk uztwm uzfwm lztwm lzfsm lzfpm pfree rexp zperc side ssout pctim adimp sarva rserv uh1..uh5
    'Sacramento': [(0.0, 1.0, False), (0.0, 1.0, False), (0.0, 1.0, False), (1.0, 125.0, True), (1.0, 75.0, True),
                   (1.0, 300.0, True), (1.0, 300.0, True), (1.0, 600.0, True), (0.0, 1.0, False), (0.0, 3.0, False),
                   (0.0, 80.0, False), (0.0, 1.0, False), (0.0, 2.0, False), (0.0, 1.0, False), (0.0, 1.0, False),
                   (0.0, 1.0, False), (0.0, 1.0, False), (0.0, 1.0, False), (0.0, 1.0, False), (0.0, 1.0, False),
                   (0.0, 1.0, False), (0.0, 1.0, False)],
    'RunoffCoefficient': [(0.0, 1.0, False)],
}
NSTATES = {'Sacramento': 6, 'Simhyd': 3, 'Surm': 3, 'RunoffCoefficient': 0}
NINPUTS = {'GR4J': 2, 'Sacramento': 2, 'Simhyd': 2, 'Surm': 2, 'RunoffCoefficient': 1}


def draw(rng, lo, hi, logu, p_end=0.25):
    u = rng.random()
    if u < p_end / 2:
        return lo
    if u < p_end:
        return hi
    if logu and lo > 0:
        return math.exp(rng.uniform(math.log(lo), math.log(hi)))
    return rng.uniform(lo, hi)


def f32(x):
    return struct.unpack('>f', struct.pack('>f', x))[0]


WEIGHT_CLASSES = ('defaults', 'random-normalised', 'float32', 'decimals-7', 'decimals-6', 'decimals-5', 'sum-near-one', 'gross', 'single')


def draw_weights(rng, defaults, cls=None):
    """A set of weights in [0,1] that the code is expected to normalise by their sum (Sacramento uh1..uh5; usable for any
    model with such weights).  Classes: the documented defaults; a random set normalised in double precision; either of
    them as it comes out of single-precision storage or of a file with 7, 6 or 5 decimals (sum off one by 1e-8 .. 1e-5);
    a normalised set scaled so that its sum is 1 +- 1e-9 .. 1e-5; grossly un-normalised; one ordinate only.  -> (weights, class)"""
    n = len(defaults)
    cls = cls or rng.choice(WEIGHT_CLASSES)
    if cls == 'defaults':
        return list(defaults), cls
    if cls == 'gross':
        w = [rng.uniform(0.0, 1.0) if rng.random() < 0.8 else 0.0 for _ in range(n)]
        if sum(w) <= 0.0:
            w[0] = rng.uniform(0.1, 1.0)
        return w, cls
    if cls == 'single':
        w = [0.0] * n
        w[rng.randrange(n)] = rng.choice([1.0, rng.uniform(0.05, 1.0)])
        return w, cls
    if rng.random() < 0.4:
        base = list(defaults)
    else:
        raw = sorted((rng.random() ** 2 for _ in range(n)), reverse=True)
        t = sum(raw)
        base = [v / t for v in raw]
    if cls == 'random-normalised':
        w = base
    elif cls == 'float32':
        w = [f32(v) for v in base]
    elif cls.startswith('decimals-'):
        d = int(cls.split('-')[1])
        w = [round(v, d) for v in base]
        if base == list(defaults):            # the defaults have two decimals: use a neighbouring set that rounding does change
            w = [round(v * (1.0 + rng.uniform(-3e-3, 3e-3)), d) for v in base]
            t = sum(w)
            w = [round(v / t, d) for v in w]
    else:                                     # sum-near-one
        k = 1.0 + rng.choice([-1.0, 1.0]) * 10.0 ** rng.uniform(-9.0, -5.0)
        w = [v * k for v in base]
    w = [min(1.0, max(0.0, v)) for v in w]
    if sum(w) <= 0.0:
        w[0] = 1.0
    return w, cls


SAC_UH_DEFAULTS = [0.8, 0.1, 0.05, 0.03, 0.02]


def draw_params(rng, model, p_end=0.25):
    ps = [draw(rng, lo, hi, lg, p_end) for (lo, hi, lg) in RANGES[model]]
    if model == 'Sacramento':
        # unit-hydrograph proportions: every storage/normalisation class (see draw_weights)
        ps[17:22] = draw_weights(rng, SAC_UH_DEFAULTS)[0]
        # closed-budget class: no side flow, no channel loss (the water balance is then an identity up to the
        # water still in the unit-hydrograph buffer, so the budget oracle is tight)
        if rng.random() < 0.25:
            ps[11] = ps[12] = 0.0
        # pctim + adimp <= 1 ; at least one unit-hydrograph ordinate positive
        if ps[13] + ps[14] > 1.0:
            s = ps[13] + ps[14]
            k = rng.uniform(0.0, 1.0)
            ps[13], ps[14] = ps[13] / s * k, ps[14] / s * k
            if ps[13] + ps[14] > 1.0:      # rounding
                ps[14] = 1.0 - ps[13]
        if sum(ps[17:22]) <= 0.0:
            ps[17] = 1.0
    return ps


# ---------------------------------------------------------------- forcing regimes
REGIMES = ('dry', 'wet', 'intermittent', 'pulse', 'storm')


def forcing(rng, regime, T, zero_pet=False):
    """-> (rain, pet), both non-negative, length T"""
    pet = [rng.uniform(0.0, 8.0) for _ in range(T)]
    if regime == 'dry':
        rain = [0.0] * T
    elif regime == 'wet':
        rain = [rng.expovariate(0.1) for _ in range(T)]
        pet = [rng.uniform(0.0, 4.0) for _ in range(T)]
    elif regime == 'intermittent':
        rain = []
        while len(rain) < T:
            if rng.random() < 0.5:
                rain += [0.0] * rng.randint(1, 60)          # dry spell (long ones included)
            else:
                rain += [rng.choice([rng.expovariate(0.2), rng.uniform(0, 40), 0.0]) for _ in range(rng.randint(1, 10))]
        rain = rain[:T]
    elif regime == 'pulse':
        rain = [0.0] * T
        if T:
            rain[min(T - 1, rng.choice([0, 1, 3, T // 2]))] = rng.choice([100.0, 10.0, 250.0, 1.0])
        if rng.random() < 0.5:
            pet = [0.0] * T
    elif regime == 'storm':
        rain = [rng.choice([0.0, rng.uniform(0, 20)]) for _ in range(T)]
        for _ in range(rng.randint(1, 3)):
            if T:
                t0 = rng.randrange(T)
                for t in range(t0, min(T, t0 + rng.randint(1, 4))):
                    rain[t] = rng.uniform(300.0, 1500.0)
    else:
        raise ValueError(regime)
    if zero_pet:
        pet = [0.0] * T
    return degenerate_steps(rng, regime, rain, pet, keep_pet_zero=zero_pet)


def degenerate_steps(rng, regime, rain, pet, keep_pet_zero=False):
    """JOINT degenerate steps, written over a generated forcing with probability 0.6 (each kind independently):
    rain and PET exactly zero on the same step (single steps and runs of them), PET exactly zero on wet steps,
    plateaus (one value repeated bit-identically over several steps in one input while the other keeps varying).
    Data-dependent shortcuts ("nothing changed since the last step") are only reachable through such coincidences,
    which independent continuous draws never produce.  The 'dry' regime keeps its rain at zero."""
    T = len(rain)
    if T == 0 or rng.random() >= 0.6:
        return rain, pet
    rain, pet = list(rain), list(pet)
    if rng.random() < 0.7:                                   # rain = PET = 0 together: single steps and runs
        for _ in range(rng.randint(1, max(1, T // 12))):
            t0 = rng.randrange(T)
            for t in range(t0, min(T, t0 + rng.choice([1, 1, 2, 3, rng.randint(1, 12)]))):
                rain[t] = 0.0
                pet[t] = 0.0
    if rng.random() < 0.5:                                   # PET exactly zero on wet steps
        for t in range(T):
            if rain[t] > 0.0 and rng.random() < 0.3:
                pet[t] = 0.0
    if rng.random() < 0.5:                                   # plateaus
        for _ in range(rng.randint(1, 3)):
            t0 = rng.randrange(T)
            L = rng.randint(2, 9)
            which = rng.choice(['rain', 'pet']) if regime != 'dry' else 'pet'
            if which == 'pet' and keep_pet_zero:
                continue
            row = rain if which == 'rain' else pet
            v = row[t0] if rng.random() < 0.5 else rng.choice([0.0, rng.uniform(0.0, 30.0)])
            for t in range(t0, min(T, t0 + L)):
                row[t] = v
    return rain, pet


# series lengths around the powers of two and their multiples (block / chunk boundaries), offered besides the ordinary lengths
BOUNDARY_LENGTHS = (63, 64, 65, 127, 128, 129, 255, 256, 257, 511, 512, 513, 768, 1024)


def draw_length(rng, lengths, p_boundary=0.2):
    return rng.choice(BOUNDARY_LENGTHS) if rng.random() < p_boundary else rng.choice(lengths)


def warm_states(rng, model, ps, st0):
    """An initial state vector inside the store invariant of the theorems but away from the model's own zeros: stores at
    capacity, above / at / below field capacity, part full (GR4J: the layout n1, n2 of st0 is kept)."""
    u = lambda cap: rng.choice([cap, cap, rng.uniform(0.5, 1.0) * cap, rng.uniform(0.0, 1.0) * cap, 0.0])
    if model == 'Surm':
        smax, fc = ps[6], ps[3] * ps[6]
        sms = rng.choice([smax, fc, min(smax, fc + rng.uniform(0.0, 1.0) * (smax - fc)), u(smax)])
        gw = rng.choice([0.0, rng.uniform(0.0, 50.0)])
        return [sms, gw, sms + gw]
    if model == 'Simhyd':
        sms = u(ps[8])
        gw = rng.choice([0.0, rng.uniform(0.0, 50.0)])
        return [sms, gw, (sms + gw) * ps[5]]
    if model == 'Sacramento':
        uztwc, uzfwc, lztwc, lzfpc, lzfsc = u(ps[3]), u(ps[4]), u(ps[5]), u(ps[7]), u(ps[6])
        adimc = rng.choice([uztwc, uztwc + ps[5], uztwc + rng.uniform(0.0, 1.0) * ps[5], rng.uniform(0.0, 1.0) * (uztwc + ps[5])])
        return [uztwc, uzfwc, lztwc, lzfpc, lzfsc, adimc]
    if model == 'GR4J':
        st = list(st0)
        st[0] = u(ps[0])
        st[1] = rng.choice([0.0, 0.999 * ps[2], rng.uniform(0.0, 1.0) * ps[2]])
        for k in range(4, len(st)):
            st[k] = rng.choice([0.0, rng.uniform(0.0, 30.0)])
        return st
    return list(st0)


# ---------------------------------------------------------------- INIT
def init_line(model, ps):
    return ' '.join(['INIT', model, 'P', str(len(ps))] + [f2h(v) for v in ps])


def parse_init(line):
    t = line.split()
    if len(t) < 3 or t[0] != 'OK' or t[1] != 'S':
        return None
    n = int(t[2])
    return [h2f(x) for x in t[3:3 + n]]


# ---------------------------------------------------------------- oracles (C10) on implementation outputs
def _finite_nonneg(name, rows, tol):
    for k, row in enumerate(rows):
        for t, v in enumerate(row):
            if not math.isfinite(v):
                return '%s output %d t=%d not finite (%r)' % (name, k, t, v)
            if v < -tol:
                return '%s output %d t=%d negative (%r)' % (name, k, t, v)
    return None


def _cum_ok(outflow, rain, storage0, tol):
    """prefix sums: sum outflow[:t+1] <= sum rain[:t+1] + storage0"""
    so = sr = 0.0
    for t, (o, r) in enumerate(zip(outflow, rain)):
        so += o
        sr += r
        if so > sr + storage0 + tol:
            return 'cumulative outflow %r exceeds cumulative rain %r + initial storage %r at t=%d' % (so, sr, storage0, t)
    return None


def gr4j_unpack(st):
    n1, n2 = int(st[2]), int(st[3])
    return st[0], st[1], n1, n2, st[4:4 + n2], st[4 + n2:4 + n2 + n1]


def oracle_gr4j(ps, st0, rain, pet, outs, st1):
    """-> (failure class, message) | None.  Classes: finite, bounds, balance, closure"""
    x1, x2, x3, x4 = ps
    tol = 1e-9 * (1.0 + sum(rain))
    q = outs[0]
    m = _finite_nonneg('GR4J', outs, tol)
    if m:
        return ('finite-nonneg', m)
    s0, r0, n1, n2, q10, q90 = gr4j_unpack(st0)
    s1, r1, m1, m2, q11, q91 = gr4j_unpack(st1)
    if (m1, m2) != (n1, n2):
        return ('bounds', 'n1/n2 changed: %r -> %r' % ((n1, n2), (m1, m2)))
    if not all(math.isfinite(v) for v in st1):
        return ('finite-nonneg', 'non-finite final state %r' % (st1,))
    if not (-tol <= s1 <= x1 + tol):
        return ('bounds', 'production store S=%r outside [0, x1=%r]' % (s1, x1))
    if not (-tol <= r1 <= x3 + tol):
        return ('bounds', 'routing store R=%r outside [0, x3=%r]' % (r1, x3))
    if any(v < -tol for v in q11 + q91):
        return ('bounds', 'negative unit-hydrograph store entry %r' % (q11 + q91,))
    stock0 = s0 + r0 + sum(q10) + sum(q90)
    stock1 = s1 + r1 + sum(q11) + sum(q91)
    if x2 <= 0.0:
        m = _cum_ok(q, rain, stock0, tol)
        if m:
            return ('balance', m)
        if sum(q) + stock1 > sum(rain) + stock0 + tol:
            return ('balance', 'runoff %r + final stores %r exceed rain %r + initial stores %r' % (sum(q), stock1, sum(rain), stock0))
    if x2 == 0.0 and all(e == 0.0 for e in pet):
        d = sum(rain) - (sum(q) + stock1 - stock0)
        if abs(d) > tol:
            return ('closure', 'x2=0, PET=0: rain %r != runoff %r + change in stores %r (residual %r)' % (sum(rain), sum(q), stock1 - stock0, d))
    return None


def oracle_simhyd(ps, st0, rain, pet, outs, st1):
    bc, it, ic, ish, ifc, pf, risc, rc, smsc = ps
    tol = 1e-9 * (1.0 + sum(rain))
    m = _finite_nonneg('Simhyd', outs, tol)
    if m:
        return ('finite-nonneg', m)
    runoff, quick, base, store = outs
    for t in range(len(rain)):
        if abs(runoff[t] - (quick[t] + base[t])) > tol:
            return ('components', 'runoff %r != quickflow %r + baseflow %r at t=%d' % (runoff[t], quick[t], base[t], t))
        if store[t] > smsc + tol:
            return ('bounds', 'soil moisture store %r above capacity %r at t=%d' % (store[t], smsc, t))
    if not all(math.isfinite(v) for v in st1):
        return ('finite-nonneg', 'non-finite final state %r' % (st1,))
    if st1[0] < -tol or st1[0] > smsc + tol or st1[1] < -tol or st1[2] < -tol:
        return ('bounds', 'final stores %r outside bounds (smsc=%r)' % (st1, smsc))
    stock0 = pf * (st0[0] + st0[1])
    stock1 = pf * (st1[0] + st1[1])
    m = _cum_ok(runoff, rain, stock0, tol)
    if m:
        return ('balance', m)
    if sum(runoff) + stock1 > sum(rain) + stock0 + tol:
        return ('balance', 'runoff %r + final stores %r exceed rain %r + initial stores %r' % (sum(runoff), stock1, sum(rain), stock0))
    if len(rain) and abs(st1[2] - stock1) > tol + 1e-9 * abs(stock1):
        return ('components', 'TotalStore state %r != perviousFraction*(soil+gw) %r' % (st1[2], stock1))
    return None


def oracle_surm(ps, st0, rain, pet, outs, st1):
    bfac, coeff, dseep, fcf, fimp, rfac, smax, sq, thres = ps
    tol = 1e-9 * (1.0 + sum(rain))
    m = _finite_nonneg('Surm', outs, tol)
    if m:
        return ('finite-nonneg', m)
    runoff, quick, base, store = outs
    for t in range(len(rain)):
        if abs(runoff[t] - (quick[t] + base[t])) > tol:
            return ('components', 'runoff %r != quickflow %r + baseflow %r at t=%d' % (runoff[t], quick[t], base[t], t))
    if not all(math.isfinite(v) for v in st1):
        return ('finite-nonneg', 'non-finite final state %r' % (st1,))
    if st1[0] < -tol or st1[0] > smax + tol or st1[1] < -tol:
        return ('bounds', 'final stores %r outside bounds (smax=%r)' % (st1, smax))
    fperv = 1.0 - fimp
    stock0 = fperv * (st0[0] + st0[1])
    stock1 = fperv * (st1[0] + st1[1])
    m = _cum_ok(runoff, rain, stock0, tol)
    if m:
        return ('balance', m)
    if sum(runoff) + stock1 > sum(rain) + stock0 + tol:
        return ('balance', 'runoff %r + final stores %r exceed rain %r + initial stores %r' % (sum(runoff), stock1, sum(rain), stock0))
    return None


def oracle_sacramento(ps, st0, rain, pet, outs, st1):
    (lzpk, lzsk, uzk, uztwm, uzfwm, lztwm, lzfsm, lzfpm, pfree, rexp, zperc, side, ssout, pctim, adimp, sarva, rserv) = ps[:17]
    tol = 1e-9 * (1.0 + sum(rain))
    m = _finite_nonneg('Sacramento', outs, tol)
    if m:
        return ('finite-nonneg', m)
    aet, runoff, imperv, surface, base = outs
    for t in range(len(rain)):
        if abs(runoff[t] - (surface[t] + base[t])) > tol:
            return ('components', 'runoff %r != surfaceRunoff %r + baseflow %r at t=%d' % (runoff[t], surface[t], base[t], t))
    if not all(math.isfinite(v) for v in st1):
        return ('finite-nonneg', 'non-finite final state %r' % (st1,))
    caps = [uztwm, uzfwm, lztwm, lzfpm, lzfsm, uztwm + lztwm]
    for k, (v, cap) in enumerate(zip(st1, caps)):
        if v < -tol or v > cap + tol:
            return ('bounds', 'store %d = %r outside [0, %r]' % (k, v, cap))
    # whole-run budget with the land stores of the state vector (C10_sacramento_budget with the non-negative content of the
    # unit-hydrograph buffer dropped from the left; the buffer of a run always starts empty, also on a hot start):
    #   sum(runoff + actualET) + W(final states) <= sum(rain) + W(initial states),
    # W = (1-pctim-adimp)*(uztwc+uzfwc+lztwc+(lzfpc+lzfsc)*(1+side)) + adimp*adimc.  The only slack is what the model
    # really loses (side flow, ssout) and what is still in the buffer, so the tolerance is set by round-off alone:
    # 1e-12 relative to the water that went through the run (measured on the unchanged code: < 3e-15).
    f = 1.0 - pctim - adimp
    W = lambda st: f * (st[0] + st[1] + st[2] + (st[3] + st[4]) * (1.0 + side)) + adimp * st[5]
    if len(rain):
        lhs = sum(runoff) + sum(aet) + W(st1)
        rhs = sum(rain) + W(st0)
        tight = 1e-12 * (1.0 + sum(rain) + abs(W(st0)))
        if lhs > rhs + tight:
            return ('balance', 'runoff %r + actualET %r + final land stores %r exceed rain %r + initial land stores %r by %r (tolerance %r)'
                    % (sum(runoff), sum(aet), W(st1), sum(rain), W(st0), lhs - rhs, tight))
    # zero initial storage only (the model's own InitialiseStates): hot starts drop the UH buffer
    if all(v == 0.0 for v in st0):
        m = _cum_ok([a + b for a, b in zip(runoff, aet)], rain, 0.0, tol)
        if m:
            return ('balance', m)
    return None


def oracle_coeff(ps, st0, rain, pet, outs, st1):
    coeff = ps[0]
    tol = 1e-9 * (1.0 + sum(rain))
    m = _finite_nonneg('RunoffCoefficient', outs, 0.0)
    if m:
        return ('finite-nonneg', m)
    for t, r in enumerate(rain):
        if outs[0][t] != coeff * r:
            return ('components', 'runoff[%d]=%r != coeff*rain=%r' % (t, outs[0][t], coeff * r))
    m = _cum_ok(outs[0], rain, 0.0, tol)
    if m:
        return ('balance', m)
    return None


ORACLES = {'GR4J': oracle_gr4j, 'Simhyd': oracle_simhyd, 'Surm': oracle_surm, 'Sacramento': oracle_sacramento,
           'RunoffCoefficient': oracle_coeff}


# ---------------------------------------------------------------- published GR4J (C15 oracle)
# Independent float64 implementation of Perrin, Michel & Andreassian (2003), J. Hydrol. 279:
# S-curve FUNCTIONS, unit-hydrograph ordinates as their differences, routing by explicit
# convolution over the history of effective rainfall (not a transcription of gr4j.go).
def SH1(t, x4):
    if t <= 0:
        return 0.0
    if t < x4:
        return (t / x4) ** 2.5
    return 1.0


def SH2(t, x4):
    if t <= 0:
        return 0.0
    if t <= x4:
        return 0.5 * (t / x4) ** 2.5
    if t < 2 * x4:
        return 1.0 - 0.5 * (2.0 - t / x4) ** 2.5
    return 1.0


def published_gr4j(x1, x2, x3, x4, S, R, q1_init, q9_init, rain, pet):
    """-> (runoff series, S, R, q1 carry-over, q9 carry-over).  q*_init[i] = water already in transit that
    arrives i days from now (the carried unit-hydrograph stores)."""
    n1 = int(math.ceil(x4))
    n2 = int(math.ceil(2 * x4))
    uh1 = [SH1(j, x4) - SH1(j - 1, x4) for j in range(1, n1 + 1)]
    uh2 = [SH2(j, x4) - SH2(j - 1, x4) for j in range(1, n2 + 1)]
    T = len(rain)
    pr_hist = []
    out = []
    for t in range(T):
        P, E = rain[t], pet[t]
        Pn = max(P - E, 0.0)
        En = max(E - P, 0.0)
        Ps = Es = 0.0
        if Pn > 0:
            th = math.tanh(Pn / x1)
            Ps = x1 * (1 - (S / x1) ** 2) * th / (1 + S / x1 * th)
        if En > 0:
            th = math.tanh(En / x1)
            Es = S * (2 - S / x1) * th / (1 + (1 - S / x1) * th)
        S = S - Es + Ps
        perc = S * (1 - (1 + (4.0 / 9.0 * S / x1) ** 4) ** (-0.25))
        S = S - perc
        pr_hist.append(perc + (Pn - Ps))
        # convolution: ordinate j (1-based) of the amount generated j-1 days ago
        Q9 = (q9_init[t] if t < len(q9_init) else 0.0) + sum(0.9 * uh1[j - 1] * pr_hist[t - j + 1] for j in range(1, n1 + 1) if t - j + 1 >= 0)
        Q1 = (q1_init[t] if t < len(q1_init) else 0.0) + sum(0.1 * uh2[j - 1] * pr_hist[t - j + 1] for j in range(1, n2 + 1) if t - j + 1 >= 0)
        F = x2 * (R / x3) ** 3.5
        R = max(0.0, R + Q9 + F)
        Qr = R * (1 - (1 + (R / x3) ** 4) ** (-0.25))
        R = R - Qr
        Qd = max(0.0, Q1 + F)
        out.append(Qr + Qd)
    # water still in transit after T days: arrives i days after the end
    q9c = [(q9_init[T + i] if T + i < len(q9_init) else 0.0) +
           sum(0.9 * uh1[j - 1] * pr_hist[T + i - j + 1] for j in range(1, n1 + 1) if 0 <= T + i - j + 1 < T) for i in range(n1)]
    q1c = [(q1_init[T + i] if T + i < len(q1_init) else 0.0) +
           sum(0.1 * uh2[j - 1] * pr_hist[T + i - j + 1] for j in range(1, n2 + 1) if 0 <= T + i - j + 1 < T) for i in range(n2)]
    return out, S, R, q1c, q9c


# ---------------------------------------------------------------- conditioning-aware comparison
# A few parameter sets (e.g. GR4J with x2 = -10 and x3 ~ 1 mm) make the daily map strongly
# expanding: a 1-ulp difference between Go's pure-Go math.Pow/Tanh and the C libm used by
# OCaml / Python grows to 1e-7 relative within a dozen steps before it decays again.  Such
# cases are recognised by MEASURING the sensitivity: the same computation is repeated with
# all inputs perturbed by a relative 1e-14, and K = 1e4 times the observed change is added to the
# tolerance of each value.  Well-conditioned cases get no visible slack (K*1e-14 = 1e-10 relative per unit of condition number, below the 1e-9 tolerance).
# A single one-sided perturbation misses half of the cases that sit on a floor()/comparison threshold (the jump is
# only seen when the perturbation happens to push the quantity across), and a common scaling of everything leaves ratio
# tests unchanged.  The sensitivity is therefore measured with SEVERAL perturbed runs: factors 1 +- 1e-14 and 1 +- 1e-13
# applied separately to (a) all parameters, (b) the parameters with alternating sign, (c) the forcing (rain and PET),
# (d) the initial states; per time step the LARGEST deviation over all runs counts.
PERT = 1.0 + 1e-14
PERT_DELTAS = (1e-14, -1e-14, 1e-13, -1e-13)
KCOND = 10000.0


def abs_tol(ps, st0, rain):
    """absolute tolerance of the float comparisons: 1e-12 of the scale of the water amounts in play
    (capacities, initial stores, largest daily rain).  Needed because some formulas of the code lose
    significance for small arguments (GR4J Perc = S*(1-(1+z)^(-1/4)) with z ~ 1e-8 is only good to
    S*1e-16/z relative), so two correct libms differ by ~1e-16 * scale in absolute terms."""
    return 1e-12 * (1.0 + max([abs(p) for p in ps] + [0.0]) + max([abs(v) for v in st0] + [0.0]) + max(list(rain) + [0.0]))


def _keep(model, which, k):
    """entries that are structural, not quantities: GR4J x4 (decides the UH lengths) and the n1, n2 state entries"""
    return model == 'GR4J' and ((which == 'ps' and k == 3) or (which == 'st' and k in (2, 3)))


def perturb_case(model, ps, rain, pet):
    """the historical single perturbation (all parameters and rain times 1+1e-14)"""
    ps2 = [p if _keep(model, 'ps', k) else p * PERT for k, p in enumerate(ps)]
    return ps2, [r * PERT for r in rain], pet


def perturbed_cases(model, ps, st0, rain, pet):
    """-> list of (delta, ps', st0', rain', pet') : see the comment above PERT_DELTAS"""
    out = []
    for d in PERT_DELTAS:
        f = 1.0 + d
        out.append((d, [p if _keep(model, 'ps', k) else p * f for k, p in enumerate(ps)], list(st0), list(rain), list(pet)))
        out.append((d, [p if _keep(model, 'ps', k) else p * (f if k % 2 == 0 else 2.0 - f) for k, p in enumerate(ps)], list(st0), list(rain), list(pet)))
        out.append((d, list(ps), list(st0), [r * f for r in rain], [e * f for e in pet]))
        if any(v != 0.0 for k, v in enumerate(st0) if not _keep(model, 'st', k)):
            out.append((d, list(ps), [v if _keep(model, 'st', k) else v * f for k, v in enumerate(st0)], list(rain), list(pet)))
    return out


def perturbed_weights(model, ps, st0, rain, pet):
    """weight of each perturbed run in conditioned_agree: its deviation is scaled to the smallest perturbation (1e-14), so
    that the larger ones help to cross thresholds without loosening the allowance of smoothly behaving cases"""
    return [1e-14 / abs(d) for (d, _, _, _, _) in perturbed_cases(model, ps, st0, rain, pet)]


def perturbed_lines(model, ps, st0, rain, pet):
    """K-lines of all perturbed runs of one kernel case"""
    return [kcase(model, p2, s2, [r2] if NINPUTS.get(model, 2) == 1 else [r2, e2]) for (_, p2, s2, r2, e2) in perturbed_cases(model, ps, st0, rain, pet)]


def conditioned_agree(ri, rm, rps, rtol, atol, K=KCOND, info=None, weights=None):
    """ri: implementation, rm: reference (model), rps: the reference on perturbed inputs -- ONE parse_kresult triple or a
    LIST of them (see perturbed_cases).  None if |ri - rm| <= atol + rtol*max + K*sens everywhere, where sens at time t is
    the largest (weighted, see perturbed_weights) |rm - rp| seen up to t in any output of any perturbed run; else a description.  If [info] is a dict it
    receives 'amplification': largest relative change of a model output per unit of relative perturbation (taking the
    perturbation as 1e-14, the smallest one used), and 'perturbed_runs'."""
    if isinstance(rps, tuple):
        rps = [rps]
    if weights is None:
        weights = [1.0] * len(rps)
    weights = [w for w, rp in zip(weights, rps) if rp is not None]
    rps = [rp for rp in rps if rp is not None]
    if ri[0] != 'OK' or rm[0] != 'OK' or not rps or any(rp[0] != 'OK' for rp in rps):
        return 'outcome %s vs %s (perturbed %s)' % (ri[0], rm[0], [rp[0] for rp in rps])
    rows_i, rows_m = ri[1] + [ri[2]], rm[1] + [rm[2]]
    rows_ps = [rp[1] + [rp[2]] for rp in rps]
    shape = [len(r) for r in rows_m]
    if [len(r) for r in rows_i] != shape or any([len(r) for r in rows_p] != shape for rows_p in rows_ps):
        return 'shape'
    # the sensitivity at time t is the LARGEST change seen up to t in any output of any perturbed run (an expanding map
    # keeps whatever separation it has reached); the final states use the maximum over the whole run
    T = len(rows_m[0]) if rows_m[:-1] else 0
    sens_t = []
    cur = 0.0
    amp = 0.0
    for t in range(T):
        for w, rows_p in zip(weights, rows_ps):
            for b, p in zip(rows_m[:-1], rows_p[:-1]):
                if math.isfinite(b[t]) and math.isfinite(p[t]):
                    d = w * abs(b[t] - p[t])
                    amp = max(amp, d / max(abs(b[t]), 1e-3))
                else:
                    d = float('inf')
                cur = max(cur, d)
        sens_t.append(cur)
    for w, rows_p in zip(weights, rows_ps):
        for y, z in zip(rows_m[-1], rows_p[-1]):
            cur = max(cur, w * abs(y - z) if (math.isfinite(y) and math.isfinite(z)) else float('inf'))
    if info is not None:
        info['amplification'] = amp / 1e-14
        info['perturbed_runs'] = len(rps)
    for k, (a, b) in enumerate(zip(rows_i, rows_m)):
        last = (k == len(rows_i) - 1)
        for t, (x, y) in enumerate(zip(a, b)):
            if x == y:
                continue
            if (x != x) and (y != y):
                continue
            sv = cur if last else sens_t[t]
            if not (math.isfinite(x) and math.isfinite(y)):
                if sv == float('inf'):
                    continue
                return 'row %d t=%d impl=%r model=%r (non-finite)' % (k, t, x, y)
            if abs(x - y) > atol + rtol * max(abs(x), abs(y)) + K * sv:
                return 'row %d t=%d impl=%r model=%r (sensitivity %r)' % (k, t, x, y, sv)
    return None
