#!/usr/bin/env python3
"""C08 check: HDF5 array I/O round-trips and addresses exactly the selected region.

1. translator: harness/cmd/callgraph regenerates coq/Gen/LockGraph.v from
   /repo/io/hdf5.go + hdf5_util.go (lock discipline proof obligation);
2. proofs: coq/Properties/C08.v (IO/*Proofs.v, IO/LockCheck.v);
3. correspondence: generated operation sequences for all 8 element types and
   random source views run through the real Go code of /repo/io (on the fake
   HDF5 layer) and through the extracted model IO/IoOps.v, compared exactly;
   sliceSize / makeHyperslab enumerated exhaustively over a box;
4. oracle on the implementation's outputs, computed independently here:
   loaded == in-memory slice, write/load round trip, WriteSlice frame + effect,
   create-existing no-op / refused;
5. thorough tier: 16 goroutines of readers and writers under -race with the
   fake's overlap detector (TESTING, labelled so in the evidence)."""
import sys, os, itertools
sys.path.insert(0, os.path.dirname(os.path.abspath(__file__)))
from vlib import *

import shutil

# Private mode (verification of seeded changes without touching /repo): C08_REPO=<scratch copy of /repo> makes
# this check translate, build and run everything that depends on the repository from that copy, with a private
# copy of the harness module, private binaries and a private compile of the lock-graph obligation.
PRIV_REPO = os.environ.get('C08_REPO')
PRIV = os.path.join(OUT, 'C08_priv')
THE_REPO = PRIV_REPO or REPO
H_DIR = os.path.join(PRIV, 'harness') if PRIV_REPO else HARNESS
LOCK_COQ = os.path.join(PRIV, 'coq') if PRIV_REPO else COQ


def setup_private():
    if not PRIV_REPO:
        return
    shutil.rmtree(PRIV, ignore_errors=True)
    os.makedirs(os.path.join(H_DIR, 'cmd'))
    for d in ('cmd/h5ops', 'cmd/callgraph', 'fakehdf5'):
        shutil.copytree(os.path.join(HARNESS, d), os.path.join(H_DIR, d))
    gm = open(os.path.join(HARNESS, 'go.mod')).read().replace('=> /repo', '=> ' + os.path.abspath(PRIV_REPO))
    open(os.path.join(H_DIR, 'go.mod'), 'w').write(gm)
    hook = os.path.join(PRIV_REPO, 'io', 'verif_export.go')
    if not os.path.exists(hook):
        shutil.copy(os.path.join(VERIF, 'hooks', 'io', 'verif_export.go'), hook)
    for d in ('IO', 'Gen'):
        os.makedirs(os.path.join(LOCK_COQ, d))
    for f in ('IO/LockCheck.v', 'IO/LockGraphCheck.v'):
        shutil.copy(os.path.join(COQ, f), os.path.join(LOCK_COQ, f))


def build_bins(cmds, tags='verif', race=False):
    if not PRIV_REPO:
        return build_harness(cmds, tags=tags, race=race)
    sh('cp %s/go.sum %s/go.sum' % (THE_REPO, H_DIR))
    for cn in cmds:
        out = os.path.join(H_DIR, 'bin', cn + ('-race' if race else ''))
        sh(['go', 'build'] + (['-tags', tags] if tags else []) + (['-race'] if race else []) + ['-o', out, './cmd/' + cn],
           cwd=H_DIR, env=GOENV, timeout=1800)


def bin_path(name):
    return os.path.join(H_DIR, 'bin', name)


MAXI = (1 << 63) - 1
MINI = -(1 << 63)


def ss_ok(a, b, s, n):
    """The hypotheses of the Coq theorems on [start, stop, step] for an axis of extent n (IO.HyperslabProofs.ss_ok): Go ints,
    start >= 0, step >= 1, n + step <= 2^63 (extent + step - 1 cannot overflow), MinInt64 + n <= stop (MaxInt64 included)."""
    return 0 <= a <= MAXI and s >= 1 and n >= 0 and n + s <= (1 << 63) and MINI + n <= b <= MAXI


def extreme_stop(rng, n, s=1):
    return rng.choice([MAXI, MAXI - 1, MAXI - s, 1 << 62, 1 << 31, (1 << 32) - 1, (1 << 32) + 1, n + (1 << 40)])


TYPES = {'float64': 64, 'float32': 32, 'int32': 32, 'uint32': 32, 'int64': 64, 'uint64': 64, 'int': 64, 'uint': 64}
WIDE = ('int', 'uint')      # Go types the binding maps to a narrower file type (known finding native-int-width)


# ------------------------------------------------------------------ helpers
def prod(l):
    r = 1
    for x in l:
        r *= x
    return r


def indices(dims):
    return itertools.product(*[range(d) for d in dims])


def lin(dims, idx):
    r = 0
    for d, i in zip(dims, idx):
        r = r * d + i
    return r


def rand_value(rng, ty):
    bits = TYPES[ty]
    k = rng.random()
    if ty.startswith('float'):
        import struct
        x = rng.choice([0.0, 1.0, -1.5, 3.25, 1e10, -7.0, rng.uniform(-100, 100)])
        if bits == 64:
            return struct.unpack('<Q', struct.pack('<d', x))[0]
        return struct.unpack('<I', struct.pack('<f', x))[0]
    if k < 0.6:
        return rng.randint(1, 200)
    if k < 0.8:
        return (1 << bits) - rng.randint(1, 50)          # negative / huge
    return rng.getrandbits(bits)


def chain_tokens(chain):
    """VIEW tokens for a chain of operations ('S', start, count, step-or-None) / ('R', dims)."""
    t = [len(chain)]
    for op in chain:
        if op[0] == 'S':
            _, start, count, step = op
            t += ['S', len(start)] + list(start) + list(count) + (['N'] if step is None else ['E'] + list(step))
        else:
            t += ['R', len(op[1])] + list(op[1])
    return [2, len(t)] + t


def apply_chain(dims, elems, chain, gather):
    """The view's own elements, row-major (what Get returns), computed here independently of the code."""
    dims = list(dims)
    for op in chain:
        if op[0] == 'S':
            _, start, count, step = op
            elems = gather(elems, dims, start, count, [1] * len(dims) if step is None else step)
            dims = list(count)
        else:
            dims = list(op[1])
    return dims, elems


def small_gather(vals, dims, start, count, step):
    return [vals[lin(dims, [s + k * st for s, k, st in zip(start, idx, step)])] for idx in indices(count)]


class View:
    """A source array: contiguous base + a view of it: None, one Slice (start, count, step), or a chain
    of nested Slice (nil / explicit step) and Reshape operations."""
    def __init__(self, base, vals, sl, chain=None):
        self.base, self.vals, self.sl, self.chain = base, vals, sl, chain
        if chain is not None:
            self.dims, self.elems = apply_chain(base, list(vals), chain, small_gather)
        elif sl is None:
            self.dims, self.elems = list(base), list(vals)
        else:
            start, count, step = sl
            self.dims = list(count)
            self.elems = small_gather(vals, base, start, count, step)

    def tokens(self):
        t = [len(self.base)] + self.base + [len(self.vals)] + ['%x' % v for v in self.vals]
        if self.chain is not None:
            t += chain_tokens(self.chain)
        elif self.sl is None:
            t += [0]
        else:
            t += [1] + list(self.sl[0]) + list(self.sl[1]) + list(self.sl[2])
        t += [len(self.dims)] + self.dims + [len(self.elems)] + ['%x' % v for v in self.elems]
        return [str(x) for x in t]


def nested_chain(rng, shape, sub):
    """base dims + chain for: a strided view of the root, then a sub-view of THAT with a nil step
    (sub = 'nil'), an explicit all-ones step ('ones') or a further step ('step')."""
    r = len(shape)
    s2 = [rng.randint(1, 2) for _ in shape] if sub == 'step' else [1] * r
    a2 = [rng.randint(0, 1) for _ in shape]
    pcount = [a + (c - 1) * st + 1 + rng.randint(0, 1) for a, c, st in zip(a2, shape, s2)]
    s1 = [rng.randint(1, 3) for _ in shape]
    if all(x == 1 for x in s1):
        s1[rng.randrange(r)] = rng.randint(2, 3)                 # the parent really is strided
    a1 = [rng.randint(0, 1) for _ in shape]
    base = [a + (c - 1) * st + 1 + rng.randint(0, 1) for a, c, st in zip(a1, pcount, s1)]
    chain = [('S', a1, pcount, s1), ('S', a2, list(shape), None if sub == 'nil' else s2)]
    return base, chain


def reshape_chain(rng, shape):
    """a strided 1-d view reshaped to [shape] (a copy), or a reshaped contiguous root that is then cut."""
    n = prod(shape)
    if rng.random() < 0.5:
        st, a = rng.randint(1, 3), rng.randint(0, 2)
        base = [a + (n - 1) * st + 1 + rng.randint(0, 2)]
        return base, [('S', [a], [n], [st]), ('R', list(shape))]
    big = [c + rng.randint(0, 2) for c in shape]
    start = [rng.randint(0, b - c) for b, c in zip(big, shape)]
    return [prod(big)], [('R', big), ('S', start, list(shape), rng.choice([None, [1] * len(shape)]))]


def gen_view(rng, ty, shape, kinds):
    """A view whose logical shape is [shape]; kind drawn from contiguous / gapped / stepped /
    nested (sub-view of a strided view: nil, all-ones or further step) / reshaped."""
    kind = rng.choice(['contiguous', 'gapped', 'stepped', 'stepped', 'nested-nil', 'nested-ones', 'nested-ones', 'nested-step', 'reshaped'])
    if prod(shape) == 0:
        kind = 'contiguous'
    kinds[kind] = kinds.get(kind, 0) + 1
    if kind == 'contiguous':
        return View(list(shape), [rand_value(rng, ty) for _ in range(prod(shape))], None)
    if kind.startswith('nested') or kind == 'reshaped':
        base, chain = nested_chain(rng, shape, kind[7:]) if kind.startswith('nested') else reshape_chain(rng, shape)
        return View(base, [rand_value(rng, ty) for _ in range(prod(base))], None, chain)
    start, step, base = [], [], []
    for c in shape:
        s = 1 if kind == 'gapped' else rng.randint(1, 3)
        a = rng.randint(0, 2)
        start.append(a)
        step.append(s)
        base.append(a + (c - 1) * s + 1 + rng.randint(0, 2))
    return View(base, [rand_value(rng, ty) for _ in range(prod(base))], (start, list(shape), step))


def gen_shape(rng, kinds=None):
    r = rng.choice([1, 1, 2, 2, 3, 4])
    k = rng.random()
    if k < 0.1:
        sh = [1] * r                                           # single element
        if kinds is not None:
            kinds['single-element'] = kinds.get('single-element', 0) + 1
    elif k < 0.3 and r >= 2:
        sh = [1] * (r - 1) + [rng.randint(2, 6)]               # one series [1,..,1,n] of a block (as ow-sim writes them)
        if kinds is not None:
            kinds['series'] = kinds.get('series', 0) + 1
    elif k < 0.4 and r >= 2:
        sh = [rng.randint(2, 5)] + [1] * (r - 1)               # column
        if kinds is not None:
            kinds['column'] = kinds.get('column', 0) + 1
    else:
        sh = [rng.randint(1, 5 if r < 4 else 3) for _ in range(r)]
    return sh


NAMES = ['a', 'b', 'g/a', 'g/b', 'g/h/c', '/g/a', '/b', 'k/l/m/n']
ODD_NAMES = ['', '/', 'a/', 'g//a', '//g/a', 'g/./a', '.', 'g', 'g/h', 'a/x', 'zz', 'g/zz']


def norm(name):
    return tuple(c for c in name.split('/') if c not in ('', '.'))


def mem_slice(dims, elems, sel):
    """The in-memory slice [start:stop:step] per axis (None = whole axis), computed
    independently of the code: elements at start + k*step < min(stop, n)."""
    axes = []
    for n, s in zip(dims, sel):
        axes.append(list(range(n)) if s is None else list(range(s[0], min(s[1], n), s[2])))
    ndims = [len(a) for a in axes]
    out = [elems[lin(dims, idx)] for idx in itertools.product(*axes)]
    return ndims, out


class Spec:
    """Independent abstract specification of one file: dataset path -> [dims, elems]."""
    def __init__(self):
        self.exists = False
        self.ds = {}
        self.groups = set()

    def creatable(self, p):
        if not p or p in self.groups or p in self.ds:
            return False
        return not any(p[:i] in self.ds for i in range(1, len(p)))

    def add(self, p, dims, elems):
        for i in range(1, len(p)):
            self.groups.add(p[:i])
        self.ds[p] = [list(dims), list(elems)]


def fmt_arr(dims, elems):
    return ' '.join([str(len(dims))] + [str(d) for d in dims] + [str(len(elems))] + ['%x' % v for v in elems])


# ------------------------------------------------------------------ large blocks
import array, hashlib
BIG_TYPES = {'float64': 'd', 'float32': 'f', 'int32': 'i', 'int64': 'q'}


def strides_of(dims):
    st, m = [0] * len(dims), 1
    for i in range(len(dims) - 1, -1, -1):
        st[i] = m
        m *= dims[i]
    return st


def big_gather(flat, dims, start, count, step):
    """Row-major elements of the view (start, count, step) of the row-major array [flat] of extent [dims];
    the last axis is handled by C-speed slices."""
    out = array.array(flat.typecode)
    st = strides_of(dims)
    last = len(dims) - 1

    def rec(ax, off):
        if ax == last:
            if count[ax] > 0:
                s0 = off + start[ax]
                out.extend(flat[s0:s0 + (count[ax] - 1) * step[ax] + 1:step[ax]])
            return
        for k in range(count[ax]):
            rec(ax + 1, off + (start[ax] + k * step[ax]) * st[ax])
    rec(0, 0)
    return out


def big_scatter(ds, dims, loc, bshape, src):
    """ds[loc : loc + bshape] = src (row-major), in place."""
    st = strides_of(dims)
    last = len(dims) - 1
    pos = [0]

    def rec(ax, off):
        if ax == last:
            o = off + loc[ax]
            ds[o:o + bshape[ax]] = src[pos[0]:pos[0] + bshape[ax]]
            pos[0] += bshape[ax]
            return
        for k in range(bshape[ax]):
            rec(ax + 1, off + (loc[ax] + k) * st[ax])
    rec(0, 0)


def big_digest(a):
    return 'H' + hashlib.sha256(a.tobytes()).hexdigest()[:16]


def big_fmt(dims, a):
    return ' '.join([str(len(dims))] + [str(d) for d in dims] + [str(len(a)), big_digest(a)])


def big_dump(path, dims, a):
    t = 'd:/' + path + ' ' + big_fmt(dims, a)
    if dims and 0 < dims[0] <= 64:
        row = len(a) // dims[0]
        t += ''.join(' R' + hashlib.sha256(a[r * row:(r + 1) * row].tobytes()).hexdigest()[:8] for r in range(dims[0]))
    return t


class BigView:
    def __init__(self, tc, base, seed, sl, chain=None):
        self.base, self.seed, self.sl, self.chain = base, seed, sl, chain
        flat = array.array(tc, range(seed, seed + prod(base)))
        if chain is not None:
            self.dims, self.elems = apply_chain(base, flat, chain, big_gather)
        elif sl is None:
            self.dims, self.elems = list(base), flat
        else:
            self.dims = list(sl[1])
            self.elems = big_gather(flat, base, *sl)

    def tokens(self):
        t = [len(self.base)] + self.base + ['%x' % self.seed]
        if self.chain is not None:
            t += chain_tokens(self.chain)
        else:
            t += [0] if self.sl is None else [1] + list(self.sl[0]) + list(self.sl[1]) + list(self.sl[2])
        return [str(x) for x in t]


def gen_big_view(rng, tc, shape, kind):
    r = len(shape)
    base, start, step = list(shape), [0] * r, [1] * r
    if kind == 'contiguous':
        return BigView(tc, base, rng.randint(0, 900), None)
    if kind.startswith('nested'):
        # a strided parent (step 2 on the last or the first axis), then a sub-view of it: nil / all-ones / further step
        ax = r - 1 if rng.random() < 0.6 else 0
        sub = kind[7:]
        s2, a2 = [1] * r, [0] * r
        if sub == 'step':
            s2[ax] = 2
        a2[ax] = rng.randint(0, 1)
        pcount = [a + (c - 1) * st + 1 for a, c, st in zip(a2, shape, s2)]
        s1, a1 = [1] * r, [0] * r
        s1[ax] = 2
        base = [a + (c - 1) * st + 1 for a, c, st in zip(a1, pcount, s1)]
        chain = [('S', a1, pcount, s1), ('S', a2, list(shape), None if sub == 'nil' else s2)]
        return BigView(tc, base, rng.randint(0, 900), None, chain)
    ax = r - 1 if kind.endswith('last') else 0
    if kind.startswith('gapped'):
        gap = rng.randint(1, 3)
        start[ax] = rng.randint(0, gap)
        base[ax] = shape[ax] + gap
    else:
        step[ax] = 2
        start[ax] = rng.randint(0, 1)
        base[ax] = start[ax] + (shape[ax] - 1) * 2 + 1 + rng.randint(0, 1)
    return BigView(tc, base, rng.randint(0, 900), (start, list(shape), step))


def gen_big_case(rng, ty, n0, stats, stratum=None):
    """One large-block case: (case line, expected result strings, expected dump lines, description).
    stratum (stratified sampling of {below, above the power of two} x {contiguous, strided source}):
    None = draw both at random, 'above-strided', 'below-strided', 'above-contiguous'."""
    tc = BIG_TYPES[ty]
    r = rng.choice([1, 2, 3])
    n = n0 + rng.choice([-rng.randint(1, 40), rng.randint(1, 40), rng.randint(41, 3000), rng.randint(1, 3000)])
    if stratum and stratum.startswith('above'):
        n = n0 + rng.choice([rng.randint(1, 40), rng.randint(41, 3000)])
    elif stratum:
        n = n0 - rng.randint(1, 3000)
    if r == 1:
        shape = [n]
    elif r == 2:
        f = rng.choice([3, 5, 7, 9, 11, 13])
        shape = [f, -(-n // f)]
    else:
        f, g = rng.choice([3, 5, 7, 9, 11]), rng.choice([2, 3])
        shape = [f, g, -(-n // (f * g))]
    kind = rng.choice(['contiguous', 'gapped-last', 'gapped-first', 'stepped-last', 'stepped-first', 'gapped-last', 'stepped-first',
                       'nested-ones', 'nested-nil', 'nested-step'])
    if stratum and stratum.endswith('strided'):
        kind = rng.choice(['gapped-last', 'stepped-last', 'stepped-first', 'nested-ones', 'nested-nil'] if r > 1
                          else ['stepped-last', 'stepped-first', 'nested-ones'])
    elif stratum:
        kind = rng.choice(['contiguous', 'gapped-first'])
    if stratum and stratum.startswith('below') and r > 1:
        shape[-1] = max(1, n // prod(shape[:-1]))              # round down: stay below the power of two
    v = gen_big_view(rng, tc, shape, kind)
    stats['kinds'][kind] = stats['kinds'].get(kind, 0) + 1
    stats['element_counts'].append(prod(shape))
    toks, expect, store = ['BIG', ty], [], {}
    # WriteSlice of the block into a larger zero dataset, then whole and selected loads
    dsd = [shape[0] + rng.randint(1, 3)] + [d + rng.randint(0, 1) for d in shape[1:]]
    loc = [rng.randint(0, a - b) for a, b in zip(dsd, shape)]
    ds = array.array(tc, bytes(prod(dsd) * array.array(tc).itemsize))
    big_scatter(ds, dsd, loc, shape, v.elems)
    store['big'] = (dsd, ds)
    toks += ['C', '@big', str(len(dsd))] + [str(d) for d in dsd] + ['0']
    toks += ['S', '@big'] + v.tokens() + [str(len(loc))] + [str(x) for x in loc]
    toks += ['L', '@big']
    expect += ['ok', 'ok', 'ok ' + big_fmt(dsd, ds)]
    sel = []
    for i, d in enumerate(dsd):
        if i == len(dsd) - 1:
            sel.append([rng.randint(0, 50), rng.choice([d - rng.randint(0, 50), d, d + 200, MAXI, MAXI - 1]), rng.choice([1, 2, 3, 997])])
        else:
            sel.append(None if rng.random() < 0.4 else [rng.randint(0, 2), rng.randint(d - 1, d + 2), rng.randint(1, 2)])
    toks += ['LS', '@big', str(len(sel))]
    st_, cn_, sp_ = [], [], []
    for s, d in zip(sel, dsd):
        toks += ['N'] if s is None else ['T'] + [str(x) for x in s]
        rg = range(d) if s is None else range(s[0], min(s[1], d), s[2])
        st_.append(rg.start if len(rg) else 0)
        cn_.append(len(rg))
        sp_.append(rg.step)
    got = big_gather(ds, dsd, st_, cn_, sp_) if all(cn_) else array.array(tc)
    expect.append('ok ' + big_fmt(cn_, got))
    # whole Write of the same view into a new dataset (not for the very largest: keeps the file small)
    if prod(shape) < 3000000 or rng.random() < 0.3:
        toks += ['W', '@g/w'] + v.tokens() + ['L', '@g/w']
        store['g/w'] = (v.dims, v.elems)
        expect += ['ok', 'ok ' + big_fmt(v.dims, v.elems)]
    dump = {big_dump(pth, d, a) for pth, (d, a) in store.items()}
    if 'g/w' in store:
        dump.add('g:/g')
    return ' '.join(toks), expect, dump, {'type': ty, 'shape': shape, 'view': kind, 'dataset': dsd, 'loc': loc, 'selection': sel}


class Pool:
    """Argument objects of one sequence that are passed to SEVERAL calls (the Go harness keeps one
    slice / array object per id: "SHARE id" in the case line).  The specification always uses the
    values the object was created with: a call must not modify its arguments."""
    def __init__(self):
        self.n = 0
        self.objs = {'shape': [], 'loc': [], 'entry': [], 'sel': [], 'view': []}

    def add(self, kind, obj):
        self.n += 1
        self.objs[kind].append((self.n, obj))
        return self.n


def share(i):
    return ['SHARE', str(i)] if i else []


def gen_sequence(rng, ty, nops, stats, malformed=False, reuse=False):
    """Returns (case line, expectations) — expectations[i] is the string the oracle
    wants for op i, or None when the property says nothing about that op.
    reuse: a sequence that starts with several datasets of one rank and different extents and
    then mostly re-uses the same selection / shape / loc / source-array objects across them."""
    spec = Spec()
    toks = ['SEQ', ty]
    expect = []
    descr = []
    pool = Pool()
    p_re = 0.7 if reuse else 0.25
    if reuse:
        r0 = rng.choice([1, 2, 2, 3])
        seen = set()
        for name in rng.sample(['a', 'b', 'g/a', 'g/b'], rng.randint(2, 3)):
            shape = [rng.randint(1, 6) for _ in range(r0)]
            while tuple(shape) in seen:
                shape[rng.randrange(r0)] += 1
            seen.add(tuple(shape))
            v = gen_view(rng, ty, shape, stats['views'])
            toks += ['W', '@' + name] + v.tokens()
            spec.exists = True
            spec.add(norm(name), v.dims, v.elems)
            expect.append('ok')
            descr.append('write')
    for _ in range(nops):
        existing = list(spec.ds)
        r = rng.random()
        if reuse:
            r = rng.choice([0.1, 0.3, 0.45, 0.5, 0.6, 0.7, 0.75, 0.8, 0.85]) if rng.random() < 0.9 else r
        odd = malformed and rng.random() < 0.35
        name = rng.choice(ODD_NAMES if odd else NAMES)
        p = norm(name)
        if existing and rng.random() < (0.9 if reuse else 0.6) and not odd:
            p = rng.choice(existing)
            name = rng.choice(['', '/']) + '/'.join(p)
        if r < 0.16:                                            # ---- Create
            shape = gen_shape(rng)
            if p in spec.ds and rng.random() < 0.5:
                shape = list(spec.ds[p][0])
            compress = 1 if (malformed and rng.random() < 0.2) else 0
            if malformed and rng.random() < 0.1:
                shape = []
            elif malformed and rng.random() < 0.15:
                shape = list(shape)
                shape[rng.randrange(len(shape))] = 0            # zero extent
                odd = True
            sid = 0
            if not odd and not compress and shape:
                if pool.objs['shape'] and rng.random() < p_re:
                    sid, shape = rng.choice(pool.objs['shape'])
                    shape = list(shape)
                    stats['shared-arg-reuses'] += 1
                elif rng.random() < 0.5:
                    sid = pool.add('shape', list(shape))
            toks += ['C', '@' + name] + share(sid) + [str(len(shape))] + [str(d) for d in shape] + [str(compress)]
            descr.append('create')
            if odd or compress or not shape:
                expect.append(None)
                _odd_effect(spec, name, shape, compress, stats)
                continue
            spec.exists = True
            if p in spec.ds:
                expect.append('ok' if spec.ds[p][0] == shape else 'err')
                stats['create-existing'] += 1
            elif spec.creatable(p):
                spec.add(p, shape, [0] * prod(shape))
                expect.append('ok')
            else:
                expect.append('err')
        elif r < 0.36:                                          # ---- Write
            shape = gen_shape(rng, stats['views'])
            if p in spec.ds and rng.random() < 0.7:
                shape = list(spec.ds[p][0])
            if malformed and rng.random() < 0.08:
                shape = list(shape)
                shape[rng.randrange(len(shape))] = 0            # a fresh array with no elements: Write panics
                v = View(shape, [], None)
                odd = True
            else:
                v = gen_view(rng, ty, shape, stats['views'])
            vid = 0
            if not odd:
                if pool.objs['view'] and rng.random() < p_re * 0.6:
                    vid, v = rng.choice(pool.objs['view'])
                    shape = list(v.dims)
                    stats['shared-arg-reuses'] += 1
                elif rng.random() < 0.4:
                    vid = pool.add('view', v)
            toks += ['W', '@' + name] + share(vid) + v.tokens()
            descr.append('write')
            if odd:
                expect.append(None)
                _odd_effect(spec, name, shape, 0, stats)
                continue
            spec.exists = True
            if p in spec.ds:
                if spec.ds[p][0] == v.dims:
                    spec.ds[p][1] = list(v.elems)
                    expect.append('ok')
                else:
                    expect.append('err')
            elif spec.creatable(p):
                spec.add(p, v.dims, v.elems)
                expect.append('ok')
            else:
                expect.append('err')
        elif r < 0.56:                                          # ---- WriteSlice
            if p in spec.ds:
                dims = spec.ds[p][0]
                oob = rng.random() < 0.12
                bshape, loc = [], []
                for n in dims:
                    c = rng.randint(1, n)
                    o = rng.randint(0, n - c)
                    bshape.append(c)
                    loc.append(o)
                vid = lid = 0
                v = None
                cands = [(i, w) for (i, w) in pool.objs['view'] if len(w.dims) == len(dims) and all(a <= n for a, n in zip(w.dims, dims))]
                if cands and rng.random() < p_re:
                    vid, v = rng.choice(cands)
                    bshape = list(v.dims)
                    loc = [rng.randint(0, n - c) for n, c in zip(dims, bshape)]
                    stats['shared-arg-reuses'] += 1
                if oob:
                    ax = rng.randrange(len(dims))
                    loc[ax] = dims[ax] - bshape[ax] + rng.randint(1, 2)
                lcands = [(i, l) for (i, l) in pool.objs['loc'] if len(l) == len(dims)]
                if lcands and rng.random() < p_re:
                    lid, loc = rng.choice(lcands)
                    loc = list(loc)
                    stats['shared-arg-reuses'] += 1
                oob = any(l + c > n for l, c, n in zip(loc, bshape, dims))
                rank_bad = malformed and rng.random() < 0.2
                if rank_bad:
                    loc = loc + [0] if rng.random() < 0.5 else loc[:-1]
                    lid = 0
                elif not lid and rng.random() < 0.5:
                    lid = pool.add('loc', list(loc))
                if v is None:
                    v = gen_view(rng, ty, bshape, stats['views'])
                    if rng.random() < 0.4:
                        vid = pool.add('view', v)
                toks += ['S', '@' + name] + share(vid) + v.tokens() + share(lid) + [str(len(loc))] + [str(x) for x in loc]
                descr.append('writeslice')
                if rank_bad:
                    expect.append(None)       # error / no-op / whole-dataset write: model-vs-code only
                    if len(loc) == 0 and prod(bshape) == prod(dims):
                        spec.ds[p][1] = list(v.elems)
                    continue
                if not oob:
                    d, e = spec.ds[p]
                    for idx in indices(bshape):
                        e[lin(d, [o + i for o, i in zip(loc, idx)])] = v.elems[lin(bshape, idx)]
                    stats['writeslice-inbounds'] += 1
                    expect.append('ok')
                else:
                    stats['writeslice-outofbounds'] += 1
                    expect.append(None)       # the property says nothing about the return value here (today: nil, the error of
                                              # WriteSubset is dropped -- noted, not flagged); the contents must be unchanged (final dump)
            else:
                bshape = gen_shape(rng)
                v = gen_view(rng, ty, bshape, stats['views'])
                loc = [0] * len(bshape)
                toks += ['S', '@' + name] + v.tokens() + [str(len(loc))] + [str(x) for x in loc]
                descr.append('writeslice-missing')
                expect.append(None if odd else 'err')
        elif r < 0.86:                                          # ---- Load
            if p in spec.ds and rng.random() < 0.75:
                dims, elems = spec.ds[p]
                sel, eids = [], []
                sid = 0
                scands = [(i, w) for (i, w) in pool.objs['sel'] if len(w[0]) == len(dims)]
                if scands and rng.random() < p_re * 0.6:
                    sid, (sel, eids) = rng.choice(scands)
                    sel, eids = list(sel), list(eids)
                    stats['shared-arg-reuses'] += 1
                else:
                    for n in dims:
                        k = rng.random()
                        if k < 0.3:
                            sel.append(None)
                            eids.append(0)
                        elif pool.objs['entry'] and rng.random() < p_re:
                            eid, e = rng.choice(pool.objs['entry'])
                            sel.append(list(e))
                            eids.append(eid)
                            stats['shared-arg-reuses'] += 1
                        else:
                            a = rng.randint(0, n + 1)
                            b = rng.randint(0, 9) if reuse else rng.randint(0, n + 3)
                            e = [a, b, rng.randint(1, 4)]
                            if rng.random() < 0.2:                  # extreme values: open-ended stops, huge start / step
                                st_ = rng.choice([1, 2, 3, 4, 5, 1 << 31, (1 << 32) + 1, 1 << 62, MAXI - 64])
                                e = [rng.choice([0, 0, 1, 2, a, 1 << 31, 1 << 62, MAXI]), extreme_stop(rng, n, st_), st_]
                                stats['extreme-entries'] = stats.get('extreme-entries', 0) + 1
                            sel.append(e)
                            eids.append(pool.add('entry', list(e)) if rng.random() < 0.6 else 0)
                bad = None
                if malformed and rng.random() < 0.3:
                    bad = rng.choice(['step0', 'long', 'short', 'shortentry'])
                    sid, eids = 0, [0] * (len(sel) + 1)
                    if bad == 'step0':
                        sel[rng.randrange(len(sel))] = [0, 2, 0]
                    elif bad == 'long':
                        sel.append([0, 1, 1])
                    elif bad == 'short':
                        sel = sel[:-1]
                    else:
                        sel[rng.randrange(len(sel))] = 'X'
                elif not sid and rng.random() < 0.4:
                    sid = pool.add('sel', (list(sel), list(eids)))
                toks += ['LS', '@' + name] + share(sid) + [str(len(sel))]
                for s, eid in zip(sel, eids):
                    if s is None:
                        toks.append('N')
                    elif s == 'X':
                        toks += ['X', '2', '0', '1']
                    else:
                        toks += share(eid) + ['T'] + [str(x) for x in s]
                descr.append('load-sel')
                if bad:
                    expect.append(None)
                elif all(s is None for s in sel):
                    expect.append('ok ' + fmt_arr(dims, elems))
                    stats['load-allnil'] += 1
                else:
                    nd, ne = mem_slice(dims, elems, sel)
                    expect.append('ok ' + fmt_arr(nd, ne))
                    stats['load-sel'] += 1
                    if any(s is not None and s[1] > n for s, n in zip(sel, dims)):
                        stats['load-sel-stop-beyond'] += 1
                    if any(s is not None and (min(s[1], n) - s[0]) % s[2] != 0 and s[0] < min(s[1], n) for s, n in zip(sel, dims)):
                        stats['load-sel-inexact-step'] += 1
            else:
                toks += ['L', '@' + name]
                descr.append('load')
                if odd:
                    expect.append(None)
                elif p in spec.ds:
                    expect.append('ok ' + fmt_arr(*spec.ds[p]))
                    stats['load-whole'] += 1
                else:
                    expect.append('err')
        elif r < 0.90:
            toks += ['P', '@' + name]
            descr.append('shape')
            expect.append(None if odd else ('ok ' + ' '.join([str(len(spec.ds[p][0]))] + [str(d) for d in spec.ds[p][0]]) if p in spec.ds else 'err'))
        elif r < 0.95:
            toks += ['E', '@' + name]
            descr.append('exists')
            expect.append(None if odd else ('true' if (p in spec.ds or p in spec.groups) and spec.exists else 'false'))
        else:
            which = rng.choice(['D', 'G'])
            toks += [which, '@' + name]
            descr.append('list')
            if odd or not spec.exists:
                expect.append(None if odd else 'err')
            elif p == () or p in spec.groups:
                kids = sorted({q[len(p)] for q in (spec.ds if which == 'D' else spec.groups) if len(q) == len(p) + 1 and q[:len(p)] == p})
                expect.append(' '.join(['ok', str(len(kids))] + ['@' + k for k in kids]))
            else:
                expect.append('err')
    return ' '.join(toks), expect, spec, descr


def _odd_effect(spec, name, shape, compress, stats):
    """Malformed stream only: after an operation with an odd name / compress the
    independent spec is no longer maintained (the sequence is then compared
    model-vs-code only)."""
    spec.tainted = True
    stats['tainted'] += 1


def main():
    c = Check('C08')
    quick = c.tier == 'quick'
    rng = c.rng
    dev = os.environ.get('C08_DEV') == '1'          # development only: skip translator + proofs
    setup_private()
    lock_info = None if dev else regenerate_lock_graph(c)
    if not dev:
        c.prove()
        if PRIV_REPO and not c.proof_broken:
            try:
                sh('timeout 900 coqc -Q . OW IO/LockCheck.v && timeout 900 coqc -Q . OW Gen/LockGraph.v && '
                   'timeout 900 coqc -Q . OW IO/LockGraphCheck.v', cwd=LOCK_COQ)
            except BuildError as e:
                c.proof_broken = ('coq: IO/LockGraphCheck.v (lock graph of %s)' % THE_REPO, e.output[-3000:])
    build_driver(['c08'])
    build_bins(['h5ops'])
    if c.proof_broken and 'LockGraph' in (c.proof_broken[0] + c.proof_broken[1]):
        lock_failure_search(c)
    lines, metas = [], []
    # ---- exhaustive box for sliceSize / makeHyperslab
    box = (12, 12, 1, 5, 10)
    lines.append('SSALL %d %d %d %d %d' % box)
    metas.append(('ssall',))
    lines.append('MH1ALL %d %d %d %d %d' % box)
    metas.append(('mh1all',))
    lines.append('SSALL 3 3 0 0 3')            # step 0: both sides panic
    metas.append(('ss0',))
    # ---- sliceSize on extreme arguments (near MaxInt64, 2^31, 2^32, huge start / step, a few negative): the whole product
    ex_n = [0, 1, 2, 7, 10, 1000]
    ex_list = []
    for n in ex_n:
        starts = [0, 1, 2, 3, 5, max(n - 1, 0), n, n + 1, 1 << 31, (1 << 32) + 1, 1 << 62, MAXI - 5, MAXI, -1, MINI]
        steps = [1, 2, 3, 4, 5, 7, 1 << 31, (1 << 32) + 1, 1 << 62, MAXI - n, min(MAXI - n + 1, MAXI), MAXI - 1, MAXI, -1, -3]
        for a in starts:
            for s_ in steps:
                stops = [0, 1, max(n - 1, 0), n, n + 1, 1 << 31, (1 << 32) - 1, (1 << 32) + 1, 1 << 62, MAXI - abs(s_), MAXI - 1, MAXI, -1, MINI]
                for b in stops:
                    ex_list.append((a, b, s_, n))
    lines.append(' '.join(['SSLIST', str(len(ex_list))] + ['%d %d %d %d' % q for q in ex_list]))
    metas.append(('sslist', ex_list))
    # ---- random multi-axis makeHyperslab (a third of the entries with extreme stop / start / step)
    for _ in range(90 if quick else 1500):
        r = rng.randint(1, 4)
        dims = [rng.randint(0, 10) for _ in range(r)]
        sel = [None if rng.random() < 0.3 else [rng.randint(0, 12), rng.randint(0, 12), rng.randint(1, 5)] for _ in range(r)]
        for j, n in enumerate(dims):
            if sel[j] is not None and rng.random() < 0.33:
                st_ = rng.choice([1, 2, 3, 5, 1 << 31, 1 << 62, MAXI - n, min(MAXI - n + 1, MAXI), MAXI])
                sel[j] = [rng.choice([0, 1, 2, n, 1 << 31, MAXI]), extreme_stop(rng, n, st_), st_]
        t = ['MH', str(r)]
        for s in sel:
            t += ['N'] if s is None else ['T'] + [str(x) for x in s]
        t += [str(r)] + [str(d) for d in dims]
        lines.append(' '.join(t))
        metas.append(('mh', sel, dims))
    # ---- operation sequences
    stats = {'views': {}, 'create-existing': 0, 'writeslice-inbounds': 0, 'writeslice-outofbounds': 0, 'load-allnil': 0,
             'load-sel': 0, 'load-sel-stop-beyond': 0, 'load-sel-inexact-step': 0, 'load-whole': 0, 'tainted': 0,
             'shared-arg-reuses': 0, 'reuse-sequences': 0}
    nseq = 25 if quick else 700
    for ty in TYPES:
        for k in range(nseq):
            malformed = k % 5 == 4
            reuse = k % 5 in (1, 3)
            stats['reuse-sequences'] += reuse
            line, expect, spec, descr = gen_sequence(rng, ty, rng.randint(4, 14), stats, malformed, reuse)
            lines.append(line)
            metas.append(('seq', ty, expect, spec, descr, malformed))
    impl = run_lines(bin_path('h5ops'), lines, env=GOENV)
    model = run_model(lines)
    extreme = {'slicesize_points': 0, 'outside_theorem_hypotheses': 0, 'outside_and_not_the_mathematical_count': 0,
               'makehyperslab_outside_hypotheses': 0, 'load_entries_with_extreme_values': stats.get('extreme-entries', 0)}
    n_ops = 0
    n_argmod = 0
    n_calls = 0
    n_unroll = 0
    for i, (meta, li, lm) in enumerate(zip(metas, impl, model)):
        kind = meta[0]
        agree = li == lm
        if kind in ('ssall', 'mh1all', 'ss0'):
            vi, vm = li.split(), lm.split()
            amax, bmax, smin, smax, nmax = box if kind != 'ss0' else (3, 3, 0, 0, 3)
            combos = [(a, b, s, n) for a in range(amax + 1) for b in range(bmax + 1) for s in range(smin, smax + 1) for n in range(nmax + 1)]
            if kind == 'mh1all':
                combos += [(None, None, None, n) for n in range(nmax + 1)]
            if len(vi) != len(combos) or len(vm) != len(combos):
                c.corr_broken.append({'case': kind, 'diff': 'result count impl=%d model=%d want=%d' % (len(vi), len(vm), len(combos)), 'impl': li[:200]})
                continue
            for (a, b, s, n), x, y in zip(combos, vi, vm):
                c.count((kind, a, b, s, n), nontrivial=(a is not None and a < min(b, n)))
                if x != y and len(c.corr_broken) < 40:
                    c.corr_broken.append({'case': [kind, a, b, s, n], 'impl': x, 'model': y})
                if kind == 'ss0' or a is None:
                    continue
                want = len(range(a, min(b, n), s))               # the in-memory slice's extent
                if kind == 'ssall':
                    if x != str(want):
                        c.violation('slicesize_%d_%d_%d_%d.json' % (a, b, s, n),
                                    {'kind': 'sliceSize != extent of the in-memory slice', 'slice': [a, b, s], 'axis': n,
                                     'sliceSize': x, 'in_memory_extent': want, 'case_line': 'SSALL box, element start=%d stop=%d step=%d n=%d' % (a, b, s, n)})
                else:
                    if x != '%d:%d:%d:1' % (a, s, want):
                        c.violation('makehyperslab_%d_%d_%d_%d.json' % (a, b, s, n),
                                    {'kind': 'makeHyperslab != (start, step, extent of in-memory slice, 1)', 'slice': [a, b, s], 'axis': n, 'got': x})
            continue
        if kind == 'sslist':
            vi, vm = li.split(), lm.split()
            if len(vi) != len(meta[1]) or len(vm) != len(meta[1]):
                c.corr_broken.append({'case': 'sslist', 'diff': 'result count impl=%d model=%d want=%d' % (len(vi), len(vm), len(meta[1])), 'impl': li[:200]})
                continue
            for (a, b, s_, n), x, y in zip(meta[1], vi, vm):
                inside = ss_ok(a, b, s_, n)
                c.count(('ssx', a, b, s_, n), nontrivial=inside)
                extreme['slicesize_points'] += 1
                if x != y and len(c.corr_broken) < 40:
                    c.corr_broken.append({'case': ['sliceSize', a, b, s_, n], 'impl': x, 'model': y})
                if not inside:
                    extreme['outside_theorem_hypotheses'] += 1
                    if s_ >= 1 and a >= 0 and b >= 0 and x != str(len(range(a, min(b, n), s_))):
                        extreme['outside_and_not_the_mathematical_count'] += 1       # e.g. step > MaxInt64 - extent: extent+step-1 wraps (noted)
                    continue
                want = len(range(a, min(b, n), s_))
                if x != str(want):
                    c.violation('slicesize_extreme_%d.json' % extreme['slicesize_points'],
                                {'kind': 'sliceSize != extent of the in-memory slice (arguments inside the hypotheses of C08_slice_size_spec)',
                                 'slice': [a, b, s_], 'axis': n, 'sliceSize': x, 'in_memory_extent': want,
                                 'case_line': 'SSLIST 1 %d %d %d %d' % (a, b, s_, n)})
            continue
        if kind == 'mh':
            c.count(lines[i], nontrivial=True)
            if not agree:
                c.corr_broken.append({'case': lines[i], 'impl': li, 'model': lm})
            _, sel, dims = meta
            if not all(s is None or ss_ok(s[0], s[1], s[2], n) for s, n in zip(sel, dims)):
                extreme['makehyperslab_outside_hypotheses'] += 1
                continue
            want = ':'.join([','.join(str(0 if s is None else s[0]) for s in sel), ','.join(str(1 if s is None else s[2]) for s in sel),
                             ','.join(str(n if s is None else len(range(s[0], min(s[1], n), s[2]))) for s, n in zip(sel, dims)),
                             ','.join('1' for _ in sel)])
            if li != want:
                c.violation('makehyperslab_case_%d.json' % i, {'kind': 'makeHyperslab oracle', 'case_line': lines[i], 'got': li, 'want': want})
            continue
        # ---- sequences
        _, ty, expect, spec, descr, malformed = meta
        c.count(lines[i], nontrivial=any(d in ('load-sel', 'writeslice') for d in descr))
        li, _, notes = li.partition(' ## ')
        agree = li == lm
        if not agree:
            c.corr_broken.append({'case_line': lines[i], 'impl': li[:2000], 'model': lm[:2000]})
        if 'ARGUMENT-MODIFIED' in notes:
            n_argmod += 1
            c.violation('argument_modified_%d.json' % i,
                        {'kind': 'a call modified its arguments (snapshot of every []int / [][]int argument and of the source array before/after the call)',
                         'elem_type': ty, 'modified': [x for x in notes.split(' ; ') if x.startswith('ARGUMENT-MODIFIED')][:6],
                         'case_line': lines[i], 'implementation_line': li})
        if li.startswith('CRASH') or 'GET-MISMATCH' in notes:
            c.violation('seq_%d.json' % i, {'kind': 'crash, or the source view read by Get differs from the generator\'s view (C01)', 'case_line': lines[i],
                                            'impl': li, 'notes': notes[:2000]})
            continue
        res, _, dump = li.partition(' || ')
        results = res.split(' | ')
        n_ops += len(results)
        n_calls += sum(1 for d in descr if d in ('create', 'write', 'writeslice', 'writeslice-missing', 'load', 'load-sel'))
        tainted = getattr(spec, 'tainted', False)
        bad = None
        if not tainted:
            for j, (e, got) in enumerate(zip(expect, results)):
                if e is not None and e != got:
                    bad = {'op_index': j, 'op': descr[j], 'expected_by_property': e, 'implementation': got}
                    break
            if bad is None:
                # final contents: every dataset holds what the specification says (frame + effect of every op)
                want = set()
                for p, (dims, elems) in spec.ds.items():
                    want.add('d:/' + '/'.join(p) + ' ' + fmt_arr(dims, elems))
                for g in spec.groups:
                    want.add('g:/' + '/'.join(g))
                got = set(dump.split(' ', 2)[2].split(' ; ')) if dump.startswith('FILE') and dump.split(' ')[1] != '0' else set()
                if want != got:
                    bad = {'op_index': 'final', 'expected_contents_only': sorted(want - got)[:5], 'implementation_only': sorted(got - want)[:5]}
        if bad is not None:
            key = 'native-int-width' if (ty in WIDE and agree and 'UNROLL-MISMATCH' not in notes) else None
            c.violation('oracle_seq_%d.json' % i, dict(kind='io-oracle', elem_type=ty, case_line=lines[i], implementation_line=li,
                                                       harness_notes=notes[:1500], **bad), key=key)
        if 'UNROLL-MISMATCH' in notes:
            n_unroll += 1
            c.violation('unroll_%d.json' % i, {'kind': 'Unroll() of a source view differs from its elements read by Get, row-major (what Write / WriteSlice '
                                                       'hand to the library is not the array) -- property C02, seen from C08', 'elem_type': ty,
                                               'notes': notes[:2000], 'case_line': lines[i]})
        if i % 41 == 0:
            c.sample({'type': ty, 'ops': descr, 'result_head': li[:160]})
    # ---- large blocks (judged by the Python abstract store only)
    big_info = large_blocks(c, rng, quick)
    # ---- concurrent results (TESTING): loads with different selections at the same time, loads + writers; forced interleaving
    concload = concurrent_results(c, quick)
    # ---- coqchk (thorough)
    chk = None
    if not quick and not c.proof_broken:
        try:
            with _Lock():
                out = sh('timeout 2400 coqchk -silent -o -Q . OW OW.Properties.C08', cwd=COQ, timeout=2500)
            chk = ' '.join(l.strip() for l in out.split('\n') if l.strip().startswith('* '))
            if 'Axioms: <none>' not in chk:
                c.assumptions.append('coqchk reports: ' + chk)
        except BuildError as e:
            c.proof_broken = ('coqchk rejected Properties/C08.vo', e.output[-2000:])
    # ---- concurrency (thorough; TESTING)
    conc = None
    if not quick:
        build_bins(['h5ops'], race=True)
        p = subprocess.run([bin_path('h5ops-race'), '-conc', '16', '-rounds', '60'], stdout=subprocess.PIPE,
                           stderr=subprocess.STDOUT, text=True, env=GOENV, timeout=1200)
        conc = p.stdout.strip().split('\n')[-1]
        if p.returncode != 0 or 'DATA RACE' in p.stdout or not conc.startswith('CONC ok'):
            c.violation('concurrency.json', {'kind': 'concurrent readers/writers (16 goroutines, -race, overlap detector)',
                                             'output': p.stdout[-4000:], 'replay': 'harness/bin/h5ops-race -conc 16 -rounds 60'})
    c.cov['rule'] = ('sliceSize and makeHyperslab (one axis) enumerated exhaustively over start,stop in [0,12], step in [1,5], n in [0,10] '
                     '(exported under build tag verif) against the model and against the extent of the in-memory slice; random multi-axis '
                     'makeHyperslab; operation sequences (Create/Write/WriteSlice/Load with and without selection/Shape/Exists/GetDatasets/'
                     'GetGroups, 4-14 ops) on one fresh fake file per case for all 8 element types with source views contiguous / gapped / '
                     'stepped / column / single series [1,..,1,n] / single element, and NESTED views (sub-view of a strided view with nil, all-ones or further step; reshaped views) whose elements read by Get and whose Unroll() are both compared with the generator view, each compared op-by-op and on the final file contents with the extracted IoOps model, '
                     'and with an independent Python specification (loaded == in-memory slice; WriteSlice frame+effect; create-existing no-op); '
                     'every 5th sequence is a malformed stream (odd names, step 0, wrong ranks, compress) compared model-vs-code only; '
                     'two sequences in five start with 2-3 datasets of one rank and different extents and then RE-USE the same selection / '
                     'selection-entry / shape / loc / source-array objects across calls (SHARE ids), and every call is bracketed in the harness by a '
                     'snapshot of all its arguments (ARGUMENT-MODIFIED = violation); a large-blocks stream (element counts around 2^16, 2^20, 2^22, '
                     'stratified below/above the power of two x contiguous/strided source, 1-3 dims, odd first extents) is judged by the Python '
                     'abstract store through SHA-256 digests; '
                     'sliceSize is also enumerated on the product of extreme values (stops MaxInt64, MaxInt64-1, MaxInt64-step, 2^62, 2^31, 2^32+-1; huge and negative '
                     'starts / steps; n in {0,1,2,7,10,1000}): model-vs-code everywhere, oracle where the theorem hypotheses ss_ok hold; the same extremes '
                     'enter a third of the random makeHyperslab cases and a fifth of the Load selection entries; a concurrent-results stream (8 goroutines, '
                     'forced interleaving by a 200us delay in every fake-library call) checks that concurrent Loads with different selections and Loads '
                     'concurrent with writers return what they return alone; '
                     'non-trivial = sequence contains a Load with selection or a WriteSlice / box point with start < min(stop,n)')
    c.finish(extra_cov={'exhaustive': True, 'exhaustive_scope': 'sliceSize/makeHyperslab box only; sequences are sampled',
                        'sequence_ops': n_ops, 'op_mix': {k: v for k, v in stats.items() if k != 'views'}, 'source_views': stats['views'],
                        'lock_graph': lock_info, 'concurrency_testing': conc, 'coqchk': chk, 'large_blocks': big_info, 'concurrent_results': concload, 'extreme_selection_values': extreme,
                        'argument_snapshot_oracle': {'calls_bracketed': n_calls, 'argument_modified_reports': n_argmod},
                        'source_view_checks': {'views_read_by_Get_and_by_Unroll': sum(v for k, v in stats['views'].items() if k not in ('single-element', 'series', 'column')), 'unroll_mismatch_sequences': n_unroll,
                                               'nested_or_reshaped_views': sum(v for k, v in stats['views'].items() if k.startswith('nested') or k == 'reshaped')}},
             assumptions=['libhdf5 + gonum binding replaced by harness/fakehdf5 (README.md there states the modelled hyperslab / transfer semantics); '
                          'the claim is about the Go I/O layer against that documented semantics',
                          'Unroll() of any source view is its row-major element list (property C02); the harness cross-checks it per case',
                          'sliceSize is modelled with 64-bit wrap-around (go_int) and agrees with the code on every enumerated extreme argument; the theorems assume ss_ok '
                          '(Go ints, start >= 0, step >= 1, n + step <= 2^63, stop >= MinInt64 + n; stop = MaxInt64 is inside); the other index arithmetic is on Z without overflow',
                          'noted, not flagged: for step > MaxInt64 - extent the Go expression extent + step - 1 wraps and sliceSize returns 0 instead of 1 '
                          '(outside ss_ok; counted in extreme_selection_values.outside_and_not_the_mathematical_count)',
                          'one element type per file (no cross-type loads); arrays with zero elements are outside the Write model',
                          'noted, not flagged: Load/WriteSlice drop the error of Read/WriteSubset (an out-of-extent WriteSlice returns nil and writes nothing); '
                          'Create ignores fillValue (zero fill); Create(compress=true) fails after creating the intermediate groups',
                          'concurrency run (thorough) is testing: 16 goroutines, -race, fake overlap detector'])


def concurrent_results(c, quick):
    """What a call returns must not depend on what other goroutines do at the same time: N goroutines Load the same and
    different datasets (two files) with different selections simultaneously, then Loads run while other goroutines
    Write / WriteSlice other datasets; every result must equal what the same Load returns alone (= the in-memory slice),
    the written datasets must equal the sequential abstract store.  Every library call is stretched by 200 us
    (fake layer) so that the interleaving is forced, not left to luck.  Thorough: also under -race."""
    runs = []
    plan = [('h5ops', 8, 24)] if quick else [('h5ops', 8, 24), ('h5ops', 16, 60), ('h5ops-race', 16, 40)]
    for binary, n, rounds in plan:
        if binary.endswith('-race'):
            build_bins(['h5ops'], race=True)
        cmd = [bin_path(binary), '-concload', str(n), '-rounds', str(rounds), '-seed', str(c.seed), '-delay', '200us']
        try:
            p = subprocess.run(cmd, stdout=subprocess.PIPE, stderr=subprocess.STDOUT, text=True, env=GOENV, timeout=900)
            out, rc = p.stdout, p.returncode
        except subprocess.TimeoutExpired as e:
            out, rc = 'TIMEOUT (deadlock?) ' + str(e.stdout)[-500:], 124
        last = [l for l in out.strip().split('\n') if l.startswith('CONCLOAD')][-1:] or [out[-300:]]
        runs.append(last[0][:400])
        c.count(('concload', binary, n, rounds), nontrivial=True)
        if rc != 0 or 'DATA RACE' in out:
            c.violation('concurrent_results_%s_%d.json' % (binary, n),
                        {'kind': 'a result depends on concurrent callers: a Load returned something else than it returns alone, or a written '
                                 'dataset differs from the sequential store, or the race detector fired',
                         'replay': ' '.join(cmd), 'summary': last[0], 'output_tail': out[-3000:]})
    return {'runs': runs, 'forced_interleaving': 'every fake-library call lasts >= 200us', 'testing_not_proof': True}


def large_blocks(c, rng, quick):
    """A few LARGE blocks per run (element counts around 2^16, 2^20, 2^22; 1-3 dims, odd first extents;
    contiguous / gapped / stepped source views): WriteSlice into a larger dataset, Load whole and with a
    selection, Write.  Judged by the abstract store computed here (Python, array module) through SHA-256
    digests of the raw element bytes; the extracted Coq model is NOT run on these (its list-based
    data transfer is quadratic in the element count)."""
    t0 = time.time()
    stats = {'kinds': {}, 'element_counts': []}
    strata = ['above-strided', None, 'below-strided', 'above-contiguous']
    plan = [(1 << 22, 'above-strided'), (1 << 22, None), (1 << 20, 'above-strided'), (1 << 20, 'below-strided'),
            (1 << 16, 'above-strided'), (1 << 16, None)] if quick else \
        [(1 << 22, strata[k % 4]) for k in range(8)] + [(1 << 20, strata[k % 4]) for k in range(8)] + \
        [(1 << 16, strata[k % 4]) for k in range(12)] + [((1 << 22) + (1 << 20), 'above-strided')]
    cases = []
    for n0, stratum in plan:
        ty = rng.choice(['float64', 'float32', 'int32', 'int64'] if n0 < (1 << 22) else ['float64', 'float32', 'int32'])
        cases.append(gen_big_case(rng, ty, n0, stats, stratum))
    impl = run_lines(bin_path('h5ops'), [x[0] for x in cases], env=GOENV, timeout=1800)
    bad = 0
    for i, ((line, expect, dump, info), li) in enumerate(zip(cases, impl)):
        c.count(('big', line), nontrivial=True)
        li, _, notes = li.partition(' ## ')
        res, _, dmp = li.partition(' || ')
        results = res.split(' | ')
        fail = None
        if li.startswith('CRASH') or notes:
            fail = {'notes': notes or li}
        else:
            for j, (e, g) in enumerate(zip(expect, results)):
                if e != g:
                    fail = {'op_index': j, 'expected_by_property': e, 'implementation': g}
                    break
            if fail is None and len(results) != len(expect):
                fail = {'op_index': 'count', 'implementation': res[:300]}
            got = set(dmp.split(' ', 2)[2].split(' ; ')) if dmp.startswith('FILE') else set()
            if got != dump:
                w = sorted(dump - got)
                g = sorted(got - dump)
                rows = None
                if len(w) == 1 and len(g) == 1:       # same dataset: name the indices of the first axis that differ
                    a, b = w[0].split(' R'), g[0].split(' R')
                    rows = [k - 1 for k in range(1, min(len(a), len(b))) if a[k] != b[k]]
                fail = dict(fail or {'op_index': 'final contents'}, final_contents_expected=[x[:160] for x in w],
                            final_contents_implementation=[x[:160] for x in g], first_axis_indices_that_differ=rows)
        if fail is not None:
            bad += 1
            c.violation('large_block_%d.json' % i, dict(kind='large-block oracle (abstract store in Python, SHA-256 digests of element bytes)',
                                                       case_line=line, case=info, **fail))
    return {'cases': len(cases), 'element_counts': stats['element_counts'], 'source_views': stats['kinds'], 'failed': bad,
            'judged_by': 'abstract store in Python only (digests of raw element bytes); the extracted Coq model is not run at these sizes',
            'wall_s': round(time.time() - t0, 1)}


def lock_failure_search(c):
    """The lock-discipline obligation (check Gen.LockGraph.graph = true) broke: name the entry points the
    checker rejects, then look for a concrete failing run with the run-time overlap detector."""
    diag = os.path.join(OUT, 'C08', 'lockdiag.v')
    open(diag, 'w').write(
        'From Coq Require Import ZArith List Bool String.\nFrom OW Require Import IO.LockCheck Gen.LockGraph.\nImport ListNotations.\n'
        'Definition t := ct_iter lock_rounds graph (ct_init graph).\n'
        'Eval vm_compute in (ct_valid graph t, map (fun fn => (fn_name fn, is_writer graph fn)) (filter (fun fn => fn_entry fn && '
        'negb (oheld_eqb (ct_fun t (fn_id fn) HU (is_writer graph fn)) (Some HU))) graph)).\n')
    rejected = ''
    try:
        with _Lock():
            if not PRIV_REPO:
                sh('timeout 600 coqc -Q . OW Gen/LockGraph.v', cwd=COQ)
            rejected = sh('timeout 600 coqc -Q %s OW -o %s %s' % (LOCK_COQ, os.path.join(OUT, 'C08', 'lockdiag.vo'), diag), cwd=LOCK_COQ)
    except BuildError as e:
        rejected = 'diagnostic failed: ' + e.output[-500:]
    names = re.findall(r'"([^"]+)"%string', rejected)
    log('lock checker rejects entry points:', names[:12])
    try:
        p = subprocess.run([bin_path('h5ops'), '-conc', '16', '-rounds', '60'], stdout=subprocess.PIPE,
                           stderr=subprocess.STDOUT, text=True, env=GOENV, timeout=600)
        last = p.stdout.strip().split('\n')[-1] if p.stdout.strip() else ''
        if p.returncode != 0:
            c.violation('lock_discipline_run.json', {'kind': 'lock discipline violated at run time: HDF5 library calls of a writer overlap other calls '
                                                             '(fake HDF5 overlap detector; 16+2 goroutines, file A under two spellings + file B)',
                                                      'rejected_entry_points': names, 'run': bin_path('h5ops') + ' -conc 16 -rounds 60',
                                                      'output': p.stdout[-3000:], 'summary': last})
            return
    except (BuildError, subprocess.TimeoutExpired) as e:
        log('concurrency search failed to run:', e)
    c.proof_broken = (c.proof_broken[0] + ' ; lock checker rejects: ' + ', '.join(names[:20]), c.proof_broken[1])


def regenerate_lock_graph(c):
    """Run the callgraph translator on /repo/io and rewrite coq/Gen/LockGraph.v when it changed."""
    try:
        build_bins(['callgraph'], tags='')
    except BuildError as e:
        c.proof_broken = ('callgraph translator does not build', e.output[-2000:])
        return {'error': 'build'}
    p = subprocess.run([bin_path('callgraph'), '-dir', os.path.join(THE_REPO, 'io'), '-repo', THE_REPO,
                        '-hdf5dir', os.path.join(H_DIR, 'fakehdf5')], stdout=subprocess.PIPE,
                       stderr=subprocess.PIPE, text=True, timeout=120, env=GOENV, cwd=H_DIR)
    if p.returncode != 0:
        c.violation('callgraph_failed.json', {'kind': 'translator failed on /repo/io', 'stderr': p.stderr[-2000:]}, no_input=True)
        return {'error': p.stderr[-300:]}
    dst = os.path.join(LOCK_COQ, 'Gen', 'LockGraph.v')
    with _Lock():
        old = open(dst).read() if os.path.exists(dst) else ''
        if old != p.stdout:
            open(dst, 'w').write(p.stdout)
    info = {}
    for l in p.stderr.split('\n'):
        if l.startswith('callgraph:'):
            for kv in l.split()[1:]:
                if '=' in kv:
                    k, v = kv.split('=', 1)
                    info[k] = v
    return info


if __name__ == '__main__':
    from vlib import _Lock
    main()
