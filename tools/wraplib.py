"""Shared machinery of the C04 / C05 checks (generated vectorised wrappers):
regeneration of coq/Gen/WrapperSpecs.v from /repo's OW-SPEC blocks, case
streams for harness/cmd/cellrun, model footprints from the extracted Coq model
(OCaml driver command FOOTPRINT) and their comparison with the recorded
accesses of the real code."""
import json, os, subprocess, sys
sys.path.insert(0, os.path.dirname(os.path.abspath(__file__)))
import vlib
from vlib import *

# VERIF_CELLRUN / VERIF_CELLRUN_RACE: use these prebuilt private binaries (built against a scratch
# copy of the repository named by VERIF_REPO_DIR) instead of building harness/bin/cellrun from /repo.
CELLRUN = os.environ.get('VERIF_CELLRUN') or os.path.join(HARNESS, 'bin', 'cellrun')
CELLRUN_RACE = os.environ.get('VERIF_CELLRUN_RACE') or (CELLRUN + '-race')
PRIVATE = bool(os.environ.get('VERIF_CELLRUN'))
REPO_DIR = os.environ.get('VERIF_REPO_DIR') or REPO
DRIVER_COMPONENTS = ['zz_c04']
KEY_INIT = 'init-states-sized-from-cell0'


def regen_specs():
    """coq/Gen/WrapperSpecs.v <- OW-SPEC blocks of /repo/models (written only when changed)."""
    if not PRIVATE:
        build_harness(['cellrun'])
    out = sh([CELLRUN, '-specs', os.path.join(REPO_DIR, 'models')], env=GOENV)
    path = os.path.join(COQ, 'Gen', 'WrapperSpecs.v')
    try:
        old = open(path).read()
    except OSError:
        old = None
    if old != out:
        with open(path, 'w') as f:
            f.write(out)
    specs = json.loads(sh([CELLRUN, '-specsjson', os.path.join(REPO_DIR, 'models')], env=GOENV))
    return {s['Name']: s for s in specs}


def catalogue():
    r = json.loads(run_lines(CELLRUN, ['DESC'], env=GOENV)[0])
    return r['extra']


def spec_vs_description(specs, cat):
    """The spec records parsed from the sources must describe the compiled wrappers."""
    bad = []
    for name, d in cat.items():
        s = specs.get(name)
        if s is None:
            bad.append('%s: in sim.Catalog but no OW-SPEC block found' % name)
            continue
        if len(s['Inputs'] or []) != d['inputs'] or len(s['Outputs'] or []) != d['outputs'] or len(s['States'] or []) != d['states']:
            bad.append('%s: inputs/outputs/states of the OW-SPEC block differ from Description()' % name)
        sp = [(p['Name'], p['Dims'] or []) for p in (s['Params'] or [])]
        dp = [(p['name'], p['dims'] or []) for p in d['params']]
        if sp != dp:
            bad.append('%s: parameters of the OW-SPEC block %r differ from Description() %r' % (name, sp, dp))
    for name in specs:
        if name not in cat:
            bad.append('%s: OW-SPEC block without catalogue entry' % name)
    return bad


# (N, nSets, nIn): equal / dividing / coprime with N, and single cells
SHAPES = [(1, 1, 1), (2, 1, 2), (2, 2, 1), (3, 3, 3), (3, 2, 1), (3, 1, 2), (5, 5, 5), (5, 2, 3), (5, 3, 2), (5, 1, 4),
          (8, 8, 8), (8, 2, 4), (8, 4, 2), (8, 3, 5), (8, 5, 3), (8, 1, 7)]
TS = [0, 1, 7, 40]
PADS = [(0, 0, 0), (1, 1, 2), (2, 0, 1), (0, 2, 0), (0, 0, 3)]


def run_line(model, N, nSets, nIn, T, pad, padS, seed, backend='go', warm=1, record=1, pmode='std', probe=0, omode=None, imode=None):
    l = 'RUN %s %d %d %d %d %d %d %d %d %d %s %d %d %s %d' % (model, N, nSets, nIn, T, pad[0], pad[1], pad[2], padS, seed, backend,
                                                        warm, record, pmode, probe)
    if omode or imode:
        l += ' %s %s' % (omode or 'zero', imode or 'rand')
    return l


KEY_UNWRITTEN = 'output-not-written-on-some-inputs'


def gen_stale_output_cases(rng, models, reps=1):
    """Outputs PRE-FILLED with a stale pattern (NaN payload / large finite value, alternating) - a caller
    re-using an output array - crossed with DEGENERATE forcing: every input series all zero, each input
    all zero individually, constant series, cold starts (the model's own InitialiseStates) and warm ones,
    default and random parameters; every catalogued model, Go- and C-backed.  Reference: single-cell
    runs on fresh zero arrays."""
    combos = [('rand', 'std', 1), ('zero', 'std', 0), ('zero', 'def', 0), ('const', 'def', 0), ('zero0', 'std', 0), ('zero1', 'std', 1),
              ('const', 'std', 1), ('zero2', 'def', 0), ('zero', 'std', 1), ('rand', 'def', 0)]
    lines = []
    for m in models:
        for rep in range(reps):
            for k, (im, pm, warm) in enumerate(combos[:6] if reps == 1 else combos):
                N, nSets, nIn = [(3, 2, 2), (2, 1, 1), (3, 3, 1)][(k + rep) % 3]
                lines.append(run_line(m, N, nSets, nIn, [7, 5][k % 2], PADS[k % len(PADS)], 0, rng.randrange(1 << 30),
                                      'c' if (k + rep) % 3 == 2 else 'go', warm, 0, pm, 0, 'dirty', im))
    return lines


class UnwrittenOutputs:
    """Which output series does the kernel leave untouched?  RECORDED, NOT JUDGED.  The repository's contract is that
    output arrays are handed over zero-initialised (sim.InitialiseOutputs; C04 quantifies over "zero-initialised output
    arrays"), and the unchanged tree relies on it: BaseflowFilter writes neither output, StorageTrapAll never writes
    outflowMass, DynamicSednetGully writes generatedFine/Coarse only on active steps, InstreamParticulateNutrient skips
    loadDeposited on a flushed step.  What IS judged per element (callers of this class): an element the run wrote must be
    bit-identical to the reference on fresh zero arrays, and an element it left untouched must be 0 in that reference -
    i.e. on a zero-initialised array the results are those of the single-cell runs, which is what C04 and C03 state."""

    def __init__(self):
        self.seen = {}      # (model, k) -> {status: example case line}

    def add(self, line, r):
        u = r.get('unwritten_per_output')
        if u is None:
            return
        n = r.get('elements_per_output') or 0
        for k, cnt in enumerate(u):
            st = 'all' if cnt == 0 else 'none' if cnt == n else 'partial'
            self.seen.setdefault((r['model'], k), {}).setdefault(st, line)

    def report(self, c, pid):
        never, mixed = [], []
        for (m, k), sts in sorted(self.seen.items()):
            if set(sts) == {'all'}:
                continue
            (never if set(sts) == {'none'} else mixed).append('%s[%d]' % (m, k))
        return {'outputs_never_written_by_the_kernel': never, 'outputs_written_only_on_some_inputs': mixed}


# shapes for the parameter-position streams: mostly SHARED blocks (one parameter set and / or one
# input block for several cells), where a kernel writing into what it was handed hits its neighbours
EDGE_SHAPES = [(3, 1, 1), (5, 2, 1), (2, 1, 2), (8, 8, 1), (3, 3, 3)]


def gen_edge_cases(rng, models, rots=(0, 1, 2, 3, 4), backend='go', record=1):
    """Every scalar parameter at exactly its range ends / exactly 0 / its default / inside its range:
    the position of parameter j in set c is POSITIONS[(rot + 2j + c) % 5], so the five rotations
    put every parameter of every model at every position (threshold branches are taken on both
    sides).  States straight from InitialiseStates (no warm-up) so that a PROBE sees the same data."""
    lines = []
    for m in models:
        for k, rot in enumerate(rots):
            N, nSets, nIn = EDGE_SHAPES[(k + rot) % len(EDGE_SHAPES)]
            lines.append(run_line(m, N, nSets, nIn, [7, 3, 5][k % 3], PADS[k % len(PADS)], 0, rng.randrange(1 << 30), backend, 0, record,
                                  'edge%d' % rot))
    return lines


def gen_out_of_range(rng, models, per_model=1, backend='go', record=1):
    """Low-frequency stream outside the documented ranges (x100 / negated scalars, tables x100) with
    nSets, nIn in {1, N}: shared parameter tables and shared input blocks."""
    lines = []
    k = 0
    for m in models:
        for _ in range(per_model):
            N = [2, 3, 5][k % 3]
            nSets, nIn = [(1, 1), (N, N), (1, N), (N, 1)][k % 4]
            lines.append(run_line(m, N, nSets, nIn, [5, 7][k % 2], PADS[k % len(PADS)], 0, rng.randrange(1 << 30), backend, 0, record, 'out'))
            k += 1
    return lines


def is_special(line):
    """edge / out-of-range case (a crash may be the kernel rejecting the parameter draw)"""
    f = line.split()
    return len(f) > 14 and f[14] != 'std'


def probe_of(line, which='1'):
    f = line.split()
    f[15] = which
    f[13] = '0'      # no recorder
    return ' '.join(f)


def kernel_rejects(line, binary=None, env=None):
    """A special-stream case crashed.  Run the single-cell runs alone and ONE vectorised run alone:
    'both'   : the kernel panics on this parameter draw however it is run (skip the case);
    'single' : only the single-cell runs panic  -> vectorised and alone DIFFER (a violation);
    'vector' : only the vectorised run panics   -> likewise;
    'neither': the crash is elsewhere (views, repeated Run, ..) -> a violation."""
    rs = run_lines(binary or CELLRUN, [probe_of(line, '1')], env=env or GOENV)[0]
    rv = run_lines(binary or CELLRUN, [probe_of(line, '2')], env=env or GOENV)[0]
    cs, cv = not rs.startswith('{'), not rv.startswith('{')
    return 'both' if cs and cv else 'single' if cs else 'vector' if cv else 'neither'


def add_positions(table, r):
    L = r['layout']
    t = table.setdefault(L['Model'], {})
    for pname, poss in (r.get('positions') or {}).items():
        t.setdefault(pname, set()).update(poss)


def positions_summary(table):
    return {m: {p: sorted(v) for p, v in sorted(ps.items())} for m, ps in sorted(table.items())}


def gen_run_cases(rng, models, per_model, backends=('go',), record=1):
    """A stream that, over the models, covers every (N,nSets,nIn) class, every T and padded /
    exact outputs; each model gets `per_model` cases."""
    lines = []
    k = 0
    for m in models:
        for j in range(per_model):
            N, nSets, nIn = SHAPES[(k * 7 + j * 3) % len(SHAPES)] if j else SHAPES[rng.randrange(len(SHAPES))]
            T = TS[(k + j) % len(TS)]
            pad = PADS[(k + 2 * j) % len(PADS)]
            padS = [0, 2][(k + j) % 2]
            be = backends[(k + j) % len(backends)]
            lines.append(run_line(m, N, nSets, nIn, T, pad, padS, rng.randrange(1 << 30), be, rng.choice([0, 1, 1]),
                                  record if be == 'go' else 0))
            k += 1
    return lines


OUT_CASE_DEADLINE = 8      # seconds per out-of-range case
MANY_N = [63, 64, 65, 100, 129, 200, 257]
MANY_MODELS = ['RunoffCoefficient', 'EmcDwc', 'Sum', 'Muskingum', 'GR4J', 'Lag', 'RatingCurvePartition']


def coprime_with(rng, n):
    import math
    while True:
        k = rng.randrange(2, max(3, n))
        if math.gcd(k, n) == 1:
            return k


def divisor_of(rng, n):
    ds = [d for d in range(2, n) if n % d == 0]
    return rng.choice(ds) if ds else 1


def gen_many_cells(rng, models, ns, record_upto=10 ** 9, per_n=None):
    """'Many cells' stream: cell counts around and beyond any plausible worker / batch size, for a
    handful of cheap models (one with table parameters, two with custom states of uniform length);
    nSets / nIn in {1, N, a divisor, a coprime}; short series."""
    ms = [m for m in MANY_MODELS if m in models]
    lines = []
    k = 0
    for n in ns:
        for m in (ms if per_n is None else [ms[(k + j) % len(ms)] for j in range(per_n)]):
            choices = [1, n, divisor_of(rng, n), coprime_with(rng, n)]
            nSets = choices[k % 4]
            nIn = choices[(k // 2 + 1) % 4]
            T = [3, 5, 7][k % 3]
            pad = PADS[k % len(PADS)]
            lines.append(run_line(m, n, nSets, nIn, T, pad, 0, rng.randrange(1 << 30), 'c' if k % 5 == 4 else 'go', 1,
                                  1 if n <= record_upto else 0))
            k += 1
    return lines


def run_cases(lines, binary=CELLRUN, env=None, timeout=900):
    """-> list of (line, result dict | None, raw)"""
    if os.environ.get('VERIF_DUMP_LINES'):
        with open(os.environ['VERIF_DUMP_LINES'], 'a') as f:
            f.write('\n'.join(lines) + '\n')
    # out-of-range draws can send a kernel into very long sub-step loops: each such case runs in its own
    # process with a deadline and is skipped ('TIMEOUT') when the kernel does not come back
    slow_idx = [i for i, l in enumerate(lines) if len(l.split()) > 14 and l.split()[14] == 'out']
    fast = [l for i, l in enumerate(lines) if i not in set(slow_idx)]
    raw_fast = iter(run_lines(binary, fast, timeout=timeout, env=env or GOENV))
    raw = []
    ss = set(slow_idx)
    for i, l in enumerate(lines):
        if i in ss:
            try:
                r1 = run_lines(binary, [l], timeout=OUT_CASE_DEADLINE, env=env or GOENV)[0]
                raw.append('TIMEOUT' if r1.startswith('TIMEOUT') else r1)   # run_lines reports an overrun as a TIMEOUT answer
            except subprocess.TimeoutExpired:
                raw.append('TIMEOUT')
        else:
            raw.append(next(raw_fast))
    res = []
    for l, r in zip(lines, raw):
        try:
            res.append((l, json.loads(r), r))
        except ValueError:
            res.append((l, None, r))
    return res


def footprint_line(r):
    L = r['layout']
    dims = ' '.join('%s %d' % (d, v) for d, v in zip(L['DimNames'] or [], L['MaxDims'] or []))
    p = r.get('p_hex') or []
    return ('FOOTPRINT %s %d %d %d %d %d %d %d %d %d %d %d %s P %d %s' % (
        L['Model'], L['NIn'], L['NI'], L['T'], L['N'], L['S'], L['ON'], L['OK'], L['OT'], L['NP'], L['NSets'],
        len(L['DimNames'] or []), dims, len(p), ' '.join(p))).replace('  ', ' ')


def parse_footprint(s):
    """'OK FD a=1,.. | cell 0 R I:.. S:.. O:.. P:.. W I:.. ...' -> (fd dict|None, [ {RI:set,..,WI:set..} ])"""
    if not s.startswith('OK '):
        return None, None
    parts = s[3:].split(' | ')
    fdtxt = parts[0].split()[1] if len(parts[0].split()) > 1 else '-'
    fd = None
    if fdtxt != 'PANIC':
        fd = {}
        if fdtxt != '-':
            for kv in fdtxt.split(','):
                k, v = kv.split('=')
                fd[k] = int(v)
    cells = []
    for c in parts[1:]:
        t = c.split()
        cur = None
        d = {}
        for tok in t[2:]:
            if tok in ('R', 'W'):
                cur = tok
                continue
            b, lst = tok.split(':')
            d[cur + b] = set(int(x) for x in lst.split(',') if x != '')
        cells.append(d)
    return fd, cells


def compare_footprints(r, model_cells, flavour):
    """Observed per-goroutine accesses of the real Run against the model's closed-form
    footprint.  -> list of problem strings."""
    bad = []
    L = r['layout']
    obs = r.get('cells') or []
    if r.get('stray'):
        bad += ['stray: ' + s for s in r['stray']]
    # goroutines that handled several cells (not the modelled one-goroutine-per-cell structure): their
    # accesses must lie in the union of those cells' footprints, and each state row must be written back
    grouped = set()
    for g in r.get('groups') or []:
        cs = [c for c in g['cells'] if 0 <= c < L['N']]
        grouped.update(cs)
        if len(cs) != len(g['cells']):
            bad.append('a goroutine slices the outputs / states arrays at cell indices %s outside 0..N-1' % g['cells'])
        acc = lambda k: set(g['acc'].get(k) or [])
        for b in 'ISOP':
            ur = set().union(*[model_cells[c]['R' + b] | model_cells[c]['W' + b] for c in cs]) if cs else set()
            uw = set().union(*[model_cells[c]['W' + b] for c in cs]) if cs else set()
            if not (acc('R' + b) | acc('U' + b)) <= ur:
                bad.append('goroutine of cells %s: reads of %s outside the cells\' footprints' % (cs[:6], b))
            if not acc('W' + b) <= uw:
                bad.append('goroutine of cells %s: WRITES to %s outside the cells\' write sets' % (cs[:6], b))
        if acc('WS') != set().union(*[model_cells[c]['WS'] for c in cs]) if cs else False:
            bad.append('goroutine of cells %s: state elements written differ from the cells\' state rows' % cs[:6])
    for i in range(L['N']):
        o = obs[i] if i < len(obs) else None
        m = model_cells[i]
        expect_access = bool(m['WO'] or m['WS'] or m['RI'] or m['RP'] or m['RS'])
        if o is None:
            if i in grouped:
                continue
            if expect_access:
                bad.append('cell %d: no goroutine touched its rows but the model expects accesses' % i)
            continue
        g = lambda k: set(o.get(k) or [])
        for b in 'ISOP':
            mr, mw = m['R' + b], m['W' + b]
            if not g('R' + b) <= (mr | mw):
                bad.append('cell %d: reads of %s outside the model footprint: %s' % (i, b, sorted(g('R' + b) - (mr | mw))[:8]))
            if not g('U' + b) <= (mr | mw):
                bad.append('cell %d: raw exposure (Unroll) of %s outside the model footprint: %s' % (i, b, sorted(g('U' + b) - (mr | mw))[:8]))
            if not g('W' + b) <= mw:
                bad.append('cell %d: WRITES to %s outside the model write set: %s' % (i, b, sorted(g('W' + b) - mw)[:8]))
        # the wrapper writes back every state column it owns (output rows are written by the kernel,
        # which may leave elements untouched: only inclusion is required there)
        if g('WS') != m['WS']:
            bad.append('cell %d: state elements written %s != model write set %s' % (i, sorted(g('WS')), sorted(m['WS'])))
        if flavour == 'fixed' and g('RS') != m['RS']:
            bad.append('cell %d: state elements read %s != model %s' % (i, sorted(g('RS')), sorted(m['RS'])))
    # the oracle of C05 on the IMPLEMENTATION's accesses: pairwise disjointness
    for i in range(len(obs)):
        for j in range(len(obs)):
            if i == j or obs[i] is None or obs[j] is None:
                continue
            for b in 'ISOP':
                wi = set(obs[i].get('W' + b) or [])
                oj = set(obs[j].get('R' + b) or []) | set(obs[j].get('W' + b) or []) | set(obs[j].get('U' + b) or [])
                if wi & oj:
                    bad.append('cells %d and %d: conflicting accesses to %s elements %s' % (i, j, b, sorted(wi & oj)[:8]))
    return bad


def init_lines(rng, models, n_hom, hetero_models=('GR4J', 'Lag'), n_het=6):
    """INIT <Model> n nSets seed mode;  mode 0: the state-length parameters are shared by the sets,
    1: every set drawn independently (state lengths differ), 2: different values, SAME state length.
    nSets in {1, n, 2, 3}, including counts that do not divide n."""
    lines = []
    for m in models:
        for _ in range(n_hom):
            n = rng.choice([1, 2, 3, 5, 8])
            lines.append(('hom', 'INIT %s %d %d %d 0' % (m, n, rng.choice([1, 2, 3, n]), rng.randrange(1 << 30))))
    shapes = [(5, 2), (5, 3), (4, 2), (3, 3), (7, 3), (2, 2), (6, 1), (8, 3), (3, 2), (5, 5)]
    for m in hetero_models:
        if m in models:
            for k in range(n_het):
                n, nSets = shapes[k % len(shapes)]
                lines.append(('het', 'INIT %s %d %d %d 1' % (m, n, nSets, rng.randrange(1 << 30))))
            for k in range(max(2, n_het // 2)):
                n, nSets = shapes[(k * 3) % len(shapes)]
                lines.append(('samelen', 'INIT %s %d %d %d 2' % (m, n, nSets, rng.randrange(1 << 30))))
    return lines


def initmodel_line(r, n, nSets):
    """the faithful model's InitialiseStates for the same parameter matrix (OCaml driver INITMODEL)"""
    e = r['extra']
    rows = ' '.join('%d %s' % (len(rw), ' '.join(rw)) for rw in e['set_rows_hex'])
    return ('INITMODEL %s %d %d %d P %s ROWS %s' % (r['model'], n, nSets, e['nP'], ' '.join(e['p_hex']), rows)).replace('  ', ' ')


def init_model_agrees(r, model_out):
    """-> (agree?, description).  Implementation and model agree when both panic, or both return the
    same matrix (extents and every element bit for bit)."""
    e = r['extra']
    t = model_out.split()
    if not t or t[0] == 'PANIC':
        return ('panic' in e), 'model: panic; code: %s' % ('panic' if 'panic' in e else 'matrix %s' % e.get('matrix'))
    if t[0] != 'OK':
        return False, 'model unavailable: ' + model_out[:80]
    if 'panic' in e:
        return False, 'model: matrix %s x %s; code: panic (%s)' % (t[1], t[2], e['panic'][:80])
    dims, vals = [int(t[1]), int(t[2])], t[3:]
    if dims != e.get('matrix'):
        return False, 'model matrix %s, code matrix %s' % (dims, e.get('matrix'))
    if vals != (e.get('matrix_hex') or []):
        k = next(i for i, (a, b) in enumerate(zip(vals, e['matrix_hex'])) if a != b)
        return False, 'matrix element %d (cell %d, state %d): model %s, code %s' % (k, k // max(dims[1], 1), k % max(dims[1], 1), h2f(vals[k]), h2f(e['matrix_hex'][k]))
    return True, 'same %s matrix' % dims


def coqchk(c, pid):
    """thorough tier: independent re-check of the compiled proofs with coqchk."""
    try:
        out = sh('timeout 1500 coqchk -silent -o -Q . OW OW.Properties.%s' % pid, cwd=COQ, timeout=1600)
    except BuildError as e:
        c.proof_broken = c.proof_broken or ('coqchk ' + pid, e.output[-2000:])
        return 'failed'
    if 'Axioms: <none>' not in out.replace('\n', ' ').replace('  ', ' '):
        return 'ok (axioms: see output) ' + ' '.join(out.split())[:300]
    return 'ok, axioms: none'


def repo_state():
    """fingerprint of /repo's working tree (HEAD + uncommitted changes)"""
    import hashlib
    h = hashlib.sha1()
    if PRIVATE:
        return 'private-binaries'
    for cmd in ('git -C /repo rev-parse HEAD', 'git -C /repo diff', 'git -C /repo status --porcelain'):
        h.update(sh(cmd, check=False).encode())
    return h.hexdigest()


def build_pair(max_tries=4):
    """Build the plain and the -race harness from ONE state of /repo's working tree (other
    checks may be mutating /repo concurrently while this one runs): rebuild until the tree did
    not change between the two builds.  -> (state fingerprint, stable?)"""
    if PRIVATE:
        return 'private-binaries', True
    st = None
    for _ in range(max_tries):
        st = repo_state()
        build_harness(['cellrun'])
        build_harness(['cellrun'], race=True)
        if repo_state() == st:
            return st, True
    return st, False
