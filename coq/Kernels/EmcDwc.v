(** models/generation/emc_dwc.go *)
From Coq Require Import ZArith List Bool.
From OW Require Import Base.Arith Base.Mealy Kernels.C16Common Kernels.UnitConsts.
Import ListNotations.

Section K.
  Context {T : Type} {A : Arith T}.
  Local Open Scope ar_scope.

  (** (quickLoad, slowLoad, totalLoad) *)
  Definition emc_dwc_row (emc dwc : T) (x : T * T) : T * T * T :=
    let '(qf, sf) := x in
    let ql := qf * emc * u_MG_PER_LITRE_TO_KG_PER_M3 in
    let sl := sf * dwc * u_MG_PER_LITRE_TO_KG_PER_M3 in
    let total := ql + sl in
    (ql, sl, total).
  Definition emc_dwc_step (emc dwc : T) := loop_step (emc_dwc_row emc dwc).

  Definition emc_dwc_kernel (params states : list T) (inputs : list (list T))
    : option (list (list T) * list T) :=
    match params, inputs with
    | [emc; dwc], [quickflow; baseflow] =>
        let rows := combine quickflow baseflow in
        if (emc =? zero) && (dwc =? zero) then
          Some ([untouched rows; untouched rows; untouched rows], states)
        else
          let os := snd (run (emc_dwc_step emc dwc) tt rows) in
          Some ([map (fun o => fst (fst o)) os; map (fun o => snd (fst o)) os; map snd os], states)
    | _, _ => None
    end.
End K.
