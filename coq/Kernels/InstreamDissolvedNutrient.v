(** models/routing/instream_dissolved_nutrient.go : instreamDissolvedNutrient
    (InstreamDissolvedNutrientDecay).  Definitions only.
    With [doDecay < 0.5] the model is LumpedConstituentTransport with the annual
    point-source load converted to kg/s as point input.  The decay loop is
    modelled for the correspondence only (it never updates the stored mass; C12
    does not speak about it).  An empty series returns at once with the stored
    mass unchanged ([if n == 0 { return storedMass }], before
    [prevVolume := reachVolume.Get([0])]); in the model the run over zero rows
    does exactly that, so the first reach volume is only looked at when there is one. *)
From Coq Require Import ZArith List.
From OW Require Import Base.Arith Base.Mealy Kernels.C12Common Kernels.LumpedConstituent.
Import ListNotations.

Section K.
  Context {T : Type} {A : Arith T}.
  Local Open Scope ar_scope.

  (** rough.DAYS_PER_YEAR * units.SECONDS_PER_DAY = 365.25 * 86400 (one constant expression) *)
  Definition DN_SECONDS_PER_YEAR : T := of_q 31557600 1.
  Definition DN_SECONDS_PER_DAY : T := of_q 86400 1.

  Record dn_params := mk_dn_params {
    dn_pointSourcePerSecond : T; dn_linkHeight : T; dn_linkWidth : T; dn_linkLength : T;
    dn_uptakeVelocity : T; dn_durationInSeconds : T }.

  Record dn_in := mk_dn_in { dni_up : T; dni_lat : T; dni_reachVolume : T; dni_outflow : T }.
  Record dn_out := mk_dn_out { dno_decayedLoad : T; dno_loadDownstream : T; dno_loadFromPointSource : T }.

  (** state of the decay loop: (storedMass [never changed], prevVolume) *)
  Definition dn_decay_step (p : dn_params) (s : T * T) (x : dn_in) : (T * T) * dn_out :=
    let '(storedMass, prevVolume) := s in
    let durationInSeconds := dn_durationInSeconds p in
    let timeStepInDays := DN_SECONDS_PER_DAY / durationInSeconds in
    let reachVolumeNow := dni_reachVolume x in
    let incomingMassNow := dni_up x + dni_lat x in
    let totalConstsituentLoad0 := storedMass + incomingMassNow in
    let pointSourceLoad_kg := if reachVolumeNow >? zero then dn_pointSourcePerSecond p else zero in
    let constituentStoragePriorToInflows := totalConstsituentLoad0 - incomingMassNow in
    let totalConstsituentLoad := totalConstsituentLoad0 + pointSourceLoad_kg in
    let avStorage := (reachVolumeNow + prevVolume) / of_Z 2 in
    let waterDepth := amin (dn_linkHeight p) (avStorage / (dn_linkLength p * dn_linkWidth p)) in
    let crossAreaSection_m2 := waterDepth * dn_linkWidth p in
    let outflowRate := dni_outflow x in
    let travelTimeInSeconds :=
      if crossAreaSection_m2 >? zero then
        let flowVelocity := if outflowRate >? zero then outflowRate / crossAreaSection_m2 else zero in
        if flowVelocity >? zero then dn_linkLength p / flowVelocity else zero
      else zero in
    let decayCoefficient := if waterDepth >? zero then dn_uptakeVelocity p / waterDepth else of_Z 1000 in
    let effectiveDecayCoefficient := aexp (of_Z (-1) * decayCoefficient * timeStepInDays) in
    let DailyLateralLoad := dni_lat x + pointSourceLoad_kg in
    let allAvailConstit := totalConstsituentLoad in
    let o :=
      if effectiveDecayCoefficient <=? zero then
        {| dno_decayedLoad := zero; dno_loadDownstream := totalConstsituentLoad; dno_loadFromPointSource := zero |}
      else if travelTimeInSeconds <=? durationInSeconds then
        let loadOut := allAvailConstit * effectiveDecayCoefficient in
        let dailyDecayed := allAvailConstit - loadOut in
        {| dno_decayedLoad := zero; dno_loadDownstream := allAvailConstit - dailyDecayed; dno_loadFromPointSource := zero |}
      else
        let loadOut := (DailyLateralLoad + constituentStoragePriorToInflows)
                         * (durationInSeconds / travelTimeInSeconds) * effectiveDecayCoefficient in
        let dailyDecayed := allAvailConstit - loadOut in
        {| dno_decayedLoad := dailyDecayed; dno_loadDownstream := allAvailConstit - dailyDecayed;
           dno_loadFromPointSource := pointSourceLoad_kg |} in
    ((storedMass, reachVolumeNow), o).

  Definition dn_rows (a b c d : list T) : list dn_in :=
    map (fun r => let '(a, b, c, d) := r in mk_dn_in a b c d) (zip4 a b c d).

  (** params doDecay pointSourceLoad linkHeight linkWidth linkLength uptakeVelocity
      durationInSeconds; state totalStoredMass; inputs incomingMassUpstream
      incomingMassLateral reachVolume outflow floodplainDepositionFraction; outputs
      decayedLoad loadDownstream loadToFloodplain loadFromPointSource *)
  Definition instream_dissolved_nutrient_decay_kernel (params states : list T) (inputs : list (list T))
    : option (list (list T) * list T) :=
    match params, states, inputs with
    | [doDecay; pointSourceLoad; lh; lw; ll; uv; dt], [storedMass], [up; lat; vol; outflow; fpf] =>
        let psps := pointSourceLoad / DN_SECONDS_PER_YEAR in
        if doDecay <? of_q 1 2 then
          let (s', os) := lumped_transport up (Some lat) outflow vol storedMass psps dt in
          Some ([zeros os; map lo_outflowLoad os; zeros os; map lo_pointSourceLoad os], [s'])
        else
          let p := mk_dn_params psps lh lw ll uv dt in
          (* prevVolume := reachVolume[0]; with an empty series there are no rows and it is never used *)
          let v0 := match vol with [] => zero | v :: _ => v end in
          let '((s', _), os) := run (dn_decay_step p) (storedMass, v0) (dn_rows up lat vol outflow) in
          Some ([map dno_decayedLoad os; map dno_loadDownstream os; zeros os; map dno_loadFromPointSource os], [s'])
    | _, _, _ => None
    end.
End K.
