(** models/storage/dissolved_decay.go : storageDissolvedDecay.  Definitions only.
    With [doStorageDecay < 0.5] the model is LumpedConstituentTransport with a
    nil lateral series, no point input and no point-source output; decayedMass
    is never written.  The decay-enabled loop is modelled for the correspondence
    only (C12 speaks about the decay-disabled model). *)
From Coq Require Import ZArith List.
From OW Require Import Base.Arith Base.Mealy Kernels.C12Common Kernels.LumpedConstituent.
Import ListNotations.

Section K.
  Context {T : Type} {A : Arith T}.
  Local Open Scope ar_scope.

  (** decay disabled *)
  Definition dissolved_nodecay (inflowMass storageOutflow storageVolume : list T)
      (initialStoredMass deltaT : T) : T * list lumped_out :=
    lumped_transport inflowMass None storageOutflow storageVolume initialStoredMass zero deltaT.

  (** decay enabled: one loop iteration; input row (inflowMass, outflow, storageVolume);
      output (decayedMass, outflowMass) *)
  Definition dissolved_decay_step (deltaT bankFullFlow medianFloodResidenceTime : T)
      (storedMass : T) (x : T * T * T) : T * (T * T) :=
    let '(inflowMass, outflowRate, storageVol) := x in
    let upstreamFlowMass := inflowMass * deltaT in
    let '(dailyDecayedConstituentLoad, availLoadForOutflow) :=
      if outflowRate <? bankFullFlow then (storedMass, upstreamFlowMass)
      else
        let totalConstsituentLoad := upstreamFlowMass + storedMass in
        if medianFloodResidenceTime <=? zero then (zero, upstreamFlowMass + storedMass)
        else
          let propLost := amin one (medianFloodResidenceTime / of_Z 5) in
          let decayed := propLost * totalConstsituentLoad in
          (decayed, totalConstsituentLoad - decayed) in
    let concentration := availLoadForOutflow / storageVol in
    let constituentRateInOutflow := concentration * outflowRate in
    (storedMass - dailyDecayedConstituentLoad - deltaT * constituentRateInOutflow,
     (dailyDecayedConstituentLoad, constituentRateInOutflow)).

  (** params DeltaT doStorageDecay annualReturnInterval bankFullFlow
      medianFloodResidenceTime; state storedMass; inputs inflowMass inflow outflow
      storageVolume; outputs decayedMass outflowMass *)
  Definition storage_dissolved_decay_kernel (params states : list T) (inputs : list (list T))
    : option (list (list T) * list T) :=
    match params, states, inputs with
    | [deltaT; doStorageDecay; ari; bankFullFlow; mfrt], [storedMass], [inflowMass; inflow; outflow; storageVolume] =>
        if doStorageDecay <? of_q 1 2 then
          let (s', os) := dissolved_nodecay inflowMass outflow storageVolume storedMass deltaT in
          Some ([zeros os; map lo_outflowLoad os], [s'])
        else
          let (s', os) := run (dissolved_decay_step deltaT bankFullFlow mfrt) storedMass
                              (zip3 inflowMass outflow storageVolume) in
          Some ([map fst os; map snd os], [s'])
    | _, _, _ => None
    end.
End K.
