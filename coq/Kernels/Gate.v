(** models/functions/gate.go *)
From Coq Require Import ZArith List.
From OW Require Import Base.Arith Base.Mealy Kernels.C16Common.
Import ListNotations.

Section K.
  Context {T : Type} {A : Arith T}.
  Local Open Scope ar_scope.

  Definition gate_row (x : T * T) : T :=
    let '(t, i) := x in
    if t >? zero then i else zero.
  Definition gate_step := loop_step gate_row.

  Definition gate_kernel (params states : list T) (inputs : list (list T))
    : option (list (list T) * list T) :=
    match params, inputs with
    | [], [trigger; incoming] => Some ([snd (run gate_step tt (combine trigger incoming))], states)
    | _, _ => None
    end.
End K.
