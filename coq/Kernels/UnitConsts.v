(** The unit-conversion constants of /repo/conv/units, /repo/conv/rough (and
    generation.EFFECTIVELY_ZERO) as the kernels use them.  Each Go constant is an
    untyped constant expression, evaluated exactly by the Go compiler and rounded
    once where it meets a float64: ONE [of_q p q].  The pairs (p, q) are proved
    equal (as rationals) to the constants regenerated from the Go source into
    Gen/Units.v in KernelProofs/UnitsTie.v.  Definitions only. *)
From Coq Require Import ZArith.
From OW Require Import Base.Arith.

Definition q_MG_PER_LITRE_TO_KG_PER_M3 : Z * positive := (1%Z, 1000%positive).
Definition q_MILLIGRAM_TO_KG : Z * positive := (1%Z, 1000000%positive).
Definition q_KG_TO_MILLIGRAM : Z * positive := (1000000%Z, 1%positive).
Definition q_TONNES_TO_KG : Z * positive := (1000%Z, 1%positive).
Definition q_MILLIMETRES_TO_METRES : Z * positive := (1%Z, 1000%positive).
Definition q_METRES_TO_MILLIMETRES : Z * positive := (1000%Z, 1%positive).
Definition q_PERCENT_TO_PROPORTION : Z * positive := (1%Z, 100%positive).
Definition q_SECONDS_PER_DAY : Z * positive := (86400%Z, 1%positive).
Definition q_CUBIC_METRES_TO_LITRES : Z * positive := (1000%Z, 1%positive).
Definition q_MEGA_LITRES_TO_LITRES : Z * positive := (1000000%Z, 1%positive).
Definition q_SQUARE_METRES_TO_HECTARES : Z * positive := (1%Z, 10000%positive).
Definition q_CUMECS_TO_ML_PER_DAY : Z * positive := (864%Z, 10%positive).
Definition q_DAYS_PER_YEAR : Z * positive := (36525%Z, 100%positive).
Definition q_EFFECTIVELY_ZERO : Z * positive := (1%Z, 100000000%positive).
(** float64(units.SECONDS_PER_DAY) * units.CUBIC_METRES_TO_LITRES : a constant
    expression (a conversion of a constant is a constant) *)
Definition q_CUMECS_TO_LITRES_PER_DAY : Z * positive := (86400000%Z, 1%positive).

Section K.
  Context {T : Type} {A : Arith T}.
  Definition of_qp (c : Z * positive) : T := of_q (fst c) (snd c).
  Definition u_MG_PER_LITRE_TO_KG_PER_M3 : T := of_qp q_MG_PER_LITRE_TO_KG_PER_M3.
  Definition u_MILLIGRAM_TO_KG : T := of_qp q_MILLIGRAM_TO_KG.
  Definition u_KG_TO_MILLIGRAM : T := of_qp q_KG_TO_MILLIGRAM.
  Definition u_TONNES_TO_KG : T := of_qp q_TONNES_TO_KG.
  Definition u_MILLIMETRES_TO_METRES : T := of_qp q_MILLIMETRES_TO_METRES.
  Definition u_METRES_TO_MILLIMETRES : T := of_qp q_METRES_TO_MILLIMETRES.
  Definition u_PERCENT_TO_PROPORTION : T := of_qp q_PERCENT_TO_PROPORTION.
  Definition u_SECONDS_PER_DAY : T := of_qp q_SECONDS_PER_DAY.
  Definition u_CUBIC_METRES_TO_LITRES : T := of_qp q_CUBIC_METRES_TO_LITRES.
  Definition u_MEGA_LITRES_TO_LITRES : T := of_qp q_MEGA_LITRES_TO_LITRES.
  Definition u_SQUARE_METRES_TO_HECTARES : T := of_qp q_SQUARE_METRES_TO_HECTARES.
  Definition u_CUMECS_TO_ML_PER_DAY : T := of_qp q_CUMECS_TO_ML_PER_DAY.
  Definition u_DAYS_PER_YEAR : T := of_qp q_DAYS_PER_YEAR.
  Definition u_EFFECTIVELY_ZERO : T := of_qp q_EFFECTIVELY_ZERO.
  Definition u_CUMECS_TO_LITRES_PER_DAY : T := of_qp q_CUMECS_TO_LITRES_PER_DAY.
End K.
