(** Model of models/rr/simhyd.go (C10), over an [Arith] (definitions only;
    proofs in KernelProofs/Simhyd.v).  States: [SoilMoistureStore, Groundwater,
    TotalStore]; outputs in spec order: runoff, quickflow, baseflow, store. *)
From Coq Require Import ZArith List Bool.
From OW Require Import Base.Arith Base.Mealy.
Import ListNotations.

Section K.
  Context {T : Type} {A : Arith T}.
  Local Open Scope ar_scope.

  Record simhyd_par := {
    sh_baseflowCoefficient : T; sh_imperviousThreshold : T; sh_infiltrationCoefficient : T;
    sh_infiltrationShape : T; sh_interflowCoefficient : T; sh_perviousFraction : T;
    sh_risc : T; sh_rechargeCoefficient : T; sh_smsc : T }.

  (** machine state: (soilMoistureStore, gw, totalStore) *)
  Record simhyd_st := { sh_sms : T; sh_gw : T; sh_total : T }.
  (** per-step outputs (runoff, quickflow, baseflow, store) *)
  Record simhyd_out := { sh_runoff : T; sh_quickflow : T; sh_baseflow : T; sh_store : T }.

  Definition SOIL_ET_CONST : T := of_Z 10.

  Definition simhyd_step (p : simhyd_par) (st : simhyd_st) (io : T * T) : simhyd_st * simhyd_out :=
    let '(rainToday, petToday) := io in
    let smsc := sh_smsc p in
    let pf := sh_perviousFraction p in
    let perviousIncident := rainToday in
    let imperviousIncident := rainToday in
    let imperviousEt := amin (sh_imperviousThreshold p) imperviousIncident in
    let imperviousRunoff := imperviousIncident - imperviousEt in
    let interceptionEt := amin perviousIncident (amin petToday (sh_risc p)) in
    let throughfall := perviousIncident - interceptionEt in
    let smf0 := sh_sms st / smsc in
    let infiltrationCapacity :=
      sh_infiltrationCoefficient p * aexp ((- sh_infiltrationShape p) * smf0) in
    let infiltration := amin throughfall infiltrationCapacity in
    let infiltrationXsRunoff := throughfall - infiltration in
    let interflowRunoff := sh_interflowCoefficient p * smf0 * infiltration in
    let infiltrationAfterInterflow := infiltration - interflowRunoff in
    let recharge := sh_rechargeCoefficient p * smf0 * infiltrationAfterInterflow in
    let soilInput := infiltrationAfterInterflow - recharge in
    let sms1 := sh_sms st + soilInput in
    let smf1 := sms1 / smsc in
    let gw1 := sh_gw st + recharge in
    let '(gw2, sms2, smf2) :=
      if smf1 >? one then (gw1 + (sms1 - smsc), smsc, one) else (gw1, sms1, smf1) in
    let baseflowRunoff := sh_baseflowCoefficient p * gw2 in
    let gw3 := gw2 - baseflowRunoff in
    let soilEt := amin sms2 (amin (petToday - interceptionEt) (smf2 * SOIL_ET_CONST)) in
    let sms3 := sms2 - soilEt in
    let totalStore := (sms3 + gw3) * pf in
    let eventRunoff := (one - pf) * imperviousRunoff + pf * (infiltrationXsRunoff + interflowRunoff) in
    let totalRunoff := eventRunoff + pf * baseflowRunoff in
    ({| sh_sms := sms3; sh_gw := gw3; sh_total := totalStore |},
     {| sh_runoff := totalRunoff; sh_quickflow := eventRunoff;
        sh_baseflow := baseflowRunoff * pf; sh_store := sms3 |}).

  Definition simhyd_run (p : simhyd_par) (st : simhyd_st) (io : list (T * T))
    : simhyd_st * list simhyd_out := run (simhyd_step p) st io.

  Definition simhyd_kernel (params states : list T) (inputs : list (list T))
    : option (list (list T) * list T) :=
    match params, inputs with
    | [bc; it; ic; ish; ifc; pf; risc; rc; smsc], [rain; pet] =>
        match states with
        | s0 :: g0 :: t0 :: rest =>
            let p := {| sh_baseflowCoefficient := bc; sh_imperviousThreshold := it;
                        sh_infiltrationCoefficient := ic; sh_infiltrationShape := ish;
                        sh_interflowCoefficient := ifc; sh_perviousFraction := pf;
                        sh_risc := risc; sh_rechargeCoefficient := rc; sh_smsc := smsc |} in
            let '(st', os) := simhyd_run p {| sh_sms := s0; sh_gw := g0; sh_total := t0 |}
                                         (combine rain pet) in
            Some ([map sh_runoff os; map sh_quickflow os; map sh_baseflow os; map sh_store os],
                  sh_sms st' :: sh_gw st' :: sh_total st' :: rest)
        | _ => None
        end
    | _, _ => None
    end.
End K.
