(** models/generation/fixed_concentration.go *)
From Coq Require Import ZArith List.
From OW Require Import Base.Arith Base.Mealy Kernels.C16Common Kernels.UnitConsts.
Import ListNotations.

Section K.
  Context {T : Type} {A : Arith T}.
  Local Open Scope ar_scope.

  Definition fixed_concentration_row (conc : T) (f : T) : T :=
    f * conc * u_MG_PER_LITRE_TO_KG_PER_M3.
  Definition fixed_concentration_step (conc : T) := loop_step (fixed_concentration_row conc).

  Definition fixed_concentration_kernel (params states : list T) (inputs : list (list T))
    : option (list (list T) * list T) :=
    match params, inputs with
    | [conc], [flow] =>
        if conc =? zero then Some ([untouched flow], states)
        else Some ([snd (run (fixed_concentration_step conc) tt flow)], states)
    | _, _ => None
    end.
End K.
