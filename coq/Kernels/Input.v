(** models/functions/input.go : output.CopyFrom(input) *)
From Coq Require Import ZArith List.
From OW Require Import Base.Arith.
Import ListNotations.

Section K.
  Context {T : Type} {A : Arith T}.
  Definition input_kernel (params states : list T) (inputs : list (list T))
    : option (list (list T) * list T) :=
    match params, inputs with
    | [], [input] => Some ([input], states)
    | _, _ => None
    end.
End K.
