(** models/generation/bank_erosion.go *)
From Coq Require Import ZArith List Bool.
From OW Require Import Base.Arith Base.Mealy Kernels.C16Common Kernels.UnitConsts.
Import ListNotations.

Section K.
  Context {T : Type} {A : Arith T}.
  Local Open Scope ar_scope.

  Record be_params := {
    be_riparianVegPercent : T; be_maxRiparianVegEffectiveness : T; be_soilErodibility : T;
    be_bankErosionCoeff : T; be_linkSlope : T; be_bankFullFlow : T; be_bankMgtFactor : T;
    be_sedBulkDensity : T; be_bankHeight : T; be_linkLength : T;
    be_dailyFlowPowerFactor : T; be_longTermAvDailyFlow : T; be_soilPercentFine : T;
    be_durationInSeconds : T }.

  Definition mean_annual_bank_erosion (p : be_params) : T :=
    let densityWater := of_Z 1000 in
    let gravity := of_q 981 100 in
    let BankErodability :=
      (one - amin (be_riparianVegPercent p / of_Z 100) (be_maxRiparianVegEffectiveness p / of_Z 100))
      * (be_soilErodibility p / of_Z 100) in
    let RetreatRate := be_bankErosionCoeff p * densityWater * gravity * be_linkSlope p
                       * be_bankFullFlow p * be_bankMgtFactor p in
    let massConversion := be_sedBulkDensity p * be_bankHeight p * be_linkLength p in
    massConversion * RetreatRate * BankErodability.

  Definition link_discharge_factor (p : be_params) (outflow totalVolume : T) : T :=
    if (totalVolume <=? zero) || (outflow <=? zero) || (be_longTermAvDailyFlow p <=? zero) then zero
    else apow (outflow * be_durationInSeconds p) (be_dailyFlowPowerFactor p) / be_longTermAvDailyFlow p.

  (** total kg/s before the fine/coarse split *)
  Definition bank_erosion_total (p : be_params) (meanAnnual : T) (x : T * T) : T :=
    let '(outflow, totalVolume) := x in
    let ldf := link_discharge_factor p outflow totalVolume in
    let tPerDay := (meanAnnual * ldf) / u_DAYS_PER_YEAR in
    tPerDay * u_TONNES_TO_KG / be_durationInSeconds p.

  (** (bankErosionFine, bankErosionCoarse) *)
  Definition bank_erosion_row (p : be_params) (meanAnnual : T) (x : T * T) : T * T :=
    let total := bank_erosion_total p meanAnnual x in
    (total * (be_soilPercentFine p * u_PERCENT_TO_PROPORTION),
     total * (one - (be_soilPercentFine p * u_PERCENT_TO_PROPORTION))).
  Definition bank_erosion_step (p : be_params) (meanAnnual : T) := loop_step (bank_erosion_row p meanAnnual).

  Definition bank_erosion_kernel (params states : list T) (inputs : list (list T))
    : option (list (list T) * list T) :=
    match params, inputs with
    | [rv; mrv; se; coeff; slope; bff; mgt; dens; height; len; power; ltadf; spf; dur],
      [downstreamFlowVolume; totalVolume] =>
        let p := {| be_riparianVegPercent := rv; be_maxRiparianVegEffectiveness := mrv; be_soilErodibility := se;
                    be_bankErosionCoeff := coeff; be_linkSlope := slope; be_bankFullFlow := bff;
                    be_bankMgtFactor := mgt; be_sedBulkDensity := dens; be_bankHeight := height;
                    be_linkLength := len; be_dailyFlowPowerFactor := power; be_longTermAvDailyFlow := ltadf;
                    be_soilPercentFine := spf; be_durationInSeconds := dur |} in
        let meanAnnual := mean_annual_bank_erosion p in
        let os := snd (run (bank_erosion_step p meanAnnual) tt (combine downstreamFlowVolume totalVolume)) in
        Some ([map fst os; map snd os], states)
    | _, _ => None
    end.
End K.
