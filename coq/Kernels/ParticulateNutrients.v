(** models/generation/particulate_nutrients.go (SednetParticulateNutrientGeneration) *)
From Coq Require Import ZArith List.
From OW Require Import Base.Arith Base.Mealy Kernels.C16Common Kernels.UnitConsts.
Import ListNotations.

Section K.
  Context {T : Type} {A : Arith T}.
  Local Open Scope ar_scope.

  Record pn_params := {
    pn_area : T; pn_nutSurfSoilConc : T; pn_hillDeliveryRatio : T; pn_NER : T;
    pn_nutSubSoilConc : T; pn_NER_gully : T; pn_gullyDeliveryRatio : T;
    pn_nutrientDWC : T; pn_doCreams : T }.

  Record pn_out := {
    pn_quick : T; pn_slow : T; pn_total : T; pn_hillslope : T; pn_gully : T }.

  (** inputs: ((((fineSheet, coarseSheet), fineGully), coarseGully), slowflow) *)
  Definition particulate_nutrients_row (p : pn_params) (x : T * T * T * T * T) : pn_out :=
    let '(fineSheet, coarseSheet, fineGully, coarseGully, slowflow) := x in
    let hill_erosion := fineSheet + coarseSheet in
    let gully_erosion := fineGully + coarseGully in
    let '(hill_load, gully_load) :=
      if pn_doCreams p >? of_q 5 10 then
        (hill_erosion * pn_nutSurfSoilConc p * pn_NER p * (pn_hillDeliveryRatio p * u_PERCENT_TO_PROPORTION),
         gully_erosion * pn_nutSubSoilConc p * pn_NER_gully p * (pn_gullyDeliveryRatio p * u_PERCENT_TO_PROPORTION))
      else
        (hill_erosion * pn_nutSurfSoilConc p * pn_NER p * (pn_hillDeliveryRatio p * u_PERCENT_TO_PROPORTION),
         gully_erosion * pn_nutSubSoilConc p * pn_NER_gully p * (pn_gullyDeliveryRatio p * u_PERCENT_TO_PROPORTION)) in
    let total_particulate := hill_load + gully_load in
    let quickLoad := total_particulate in
    let slowLoad := slowflow * pn_nutrientDWC p * u_MG_PER_LITRE_TO_KG_PER_M3 in
    {| pn_quick := quickLoad; pn_slow := slowLoad; pn_total := quickLoad + slowLoad;
       pn_hillslope := hill_load; pn_gully := gully_load |}.
  Definition particulate_nutrients_step (p : pn_params) := loop_step (particulate_nutrients_row p).

  Definition combine5 (a b c d e : list T) : list (T * T * T * T * T) :=
    combine (combine (combine (combine a b) c) d) e.

  Definition particulate_nutrients_kernel (params states : list T) (inputs : list (list T))
    : option (list (list T) * list T) :=
    match params, inputs with
    | [area; nsc; hdr; ner; nssc; nerg; gdr; dwc; creams], [fs; cs; fg; cg; sf] =>
        let p := {| pn_area := area; pn_nutSurfSoilConc := nsc; pn_hillDeliveryRatio := hdr; pn_NER := ner;
                    pn_nutSubSoilConc := nssc; pn_NER_gully := nerg; pn_gullyDeliveryRatio := gdr;
                    pn_nutrientDWC := dwc; pn_doCreams := creams |} in
        let os := snd (run (particulate_nutrients_step p) tt (combine5 fs cs fg cg sf)) in
        Some ([map pn_quick os; map pn_slow os; map pn_total os; map pn_hillslope os; map pn_gully os], states)
    | _, _ => None
    end.
End K.
