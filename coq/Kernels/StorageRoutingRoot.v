(** Model of util/fn/root.go [FindRoot] as it is used by
    models/routing/storage_routing.go (C11): the objective function may panic
    (runRouting panics on a NaN outflow), so here [f : T -> option T]
    ([None] = panic) and a panic of [f] aborts the search.  [fn_dx] is always
    non-nil at the call site but the [nil] test is kept ([fdx : option _]).

    This is an independent copy of the algorithm that C18 models in
    Num/FindRoot.v (there with a total [fn] and evaluation traces); the control
    structure is the same: every Go [if] is one Gallina [if].

      delta = fn(initialX); x = initialX; maxDelta := fn(maxX); minDelta := fn(minX)
      if minDelta > 0 || maxDelta < 0 { panic("Invalid range") }
      for iteration := 0; iteration < maxIterations; iteration++ {
        halvingX   := maxX - (maxX-minX)*0.5
        bisectionX := maxX - (maxX-minX)*maxDelta/(maxDelta-minDelta)
        trialXs = [halvingX, bisectionX] (+ newtonRaphsonX if fn_dx != nil && deriv != 0
                                            && minX < newtonRaphsonX < maxX)
        for _, trial := range trialXs {
          if |x-trial| < convergenceLimit { hit++ }
          trialDelta := fn(trial)
          if |trialDelta| < tolerance { return trial, trialDelta }
          if trialDelta < 0 { if trial > minTrialX && trial <= maxTrialX { min := trial } }
          else              { if trial < maxTrialX && trial >= minTrialX { max := trial } }
        }
        adopt the trial bracket; x, delta := the end with the smaller |delta|
        if hit == len(trialXs) { return }
      }

    Degenerate secant denominator (maxDelta - minDelta = 0): Go computes
    0/0 = NaN (or +-Inf) and carries on; with Coq's total division on R the
    quotient would silently be 0, so the case is an EXPLICIT branch: the trial
    is tagged [degenerate] and never moves the bracket nor counts as a
    convergence hit (which is what every comparison with a NaN does in Go); at
    the float instance the tagged value is the very NaN Go computes.  The
    theorems about StorageRouting never depend on what FindRoot returns. *)
From Coq Require Import ZArith List Bool.
From OW Require Import Base.Arith.
Import ListNotations.

Section FindRoot.
  Context {T : Type} {A : Arith T}.
  Local Open Scope ar_scope.

  Variable f : T -> option T.          (* fn ; None = panic *)
  Variable fdx : option (T -> T).      (* fn_dx ; None = nil *)
  Variables tol conv : T.              (* tolerance, convergenceLimit *)

  (** bracket while scanning the trial points: minTrialX, minTrialDelta, maxTrialX, maxTrialDelta, hits *)
  Record fr_t := mkFT { tminx : T; tmind : T; tmaxx : T; tmaxd : T; thit : nat }.

  Inductive fr_try := TryPanic | TryEarly (x d : T) | TryNext (t : fr_t).

  (** body of [for _, trial := range trialXs]; [deg] tags the degenerate secant point *)
  Definition fr_try_one (x : T) (trial : T) (deg : bool) (s : fr_t) : fr_try :=
    let hit := if deg then thit s else if aabs (x - trial) <? conv then S (thit s) else thit s in
    match f trial with
    | None => TryPanic
    | Some td =>
        if aabs td <? tol then TryEarly trial td
        else if deg then TryNext (mkFT (tminx s) (tmind s) (tmaxx s) (tmaxd s) hit)
        else if td <? zero then
          if (trial >? tminx s) && (trial <=? tmaxx s)
          then TryNext (mkFT trial td (tmaxx s) (tmaxd s) hit)
          else TryNext (mkFT (tminx s) (tmind s) (tmaxx s) (tmaxd s) hit)
        else
          if (trial <? tmaxx s) && (trial >=? tminx s)
          then TryNext (mkFT (tminx s) (tmind s) trial td hit)
          else TryNext (mkFT (tminx s) (tmind s) (tmaxx s) (tmaxd s) hit)
    end.

  Fixpoint fr_try_all (x : T) (ts : list (T * bool)) (s : fr_t) : fr_try :=
    match ts with
    | [] => TryNext s
    | (t, deg) :: r => match fr_try_one x t deg s with
                       | TryNext s' => fr_try_all x r s'
                       | other => other
                       end
    end.

  (** outer-loop state: x, delta, minX, minDelta, maxX, maxDelta *)
  Record fr_s := mkFS { sx : T; sd : T; smin : T; smind : T; smax : T; smaxd : T }.

  Definition fr_half : T := of_q 1 2.

  Definition fr_trials (s : fr_s) : list (T * bool) :=
    let halving := smax s - (smax s - smin s) * fr_half in
    let den := smaxd s - smind s in
    let secant := smax s - (smax s - smin s) * smaxd s / den in
    let base := [(halving, false); (secant, den =? zero)] in
    match fdx with
    | None => base
    | Some g =>
        let deriv := g (sx s) in
        if negb (deriv =? zero) then
          let nr := sx s - sd s / deriv in
          if (nr >? smin s) && (nr <? smax s) then base ++ [(nr, false)] else base
        else base
    end.

  Inductive fr_out := FrPanic | FrDone (x d : T) | FrCont (s : fr_s).

  Definition fr_iter (s : fr_s) : fr_out :=
    let ts := fr_trials s in
    match fr_try_all (sx s) ts (mkFT (smin s) (smind s) (smax s) (smaxd s) O) with
    | TryPanic => FrPanic
    | TryEarly x d => FrDone x d
    | TryNext t =>
        let '(x, d) := if aabs (tmind t) <=? tmaxd t then (tminx t, tmind t) else (tmaxx t, tmaxd t) in
        if Nat.eqb (thit t) (length ts) then FrDone x d
        else FrCont (mkFS x d (tminx t) (tmind t) (tmaxx t) (tmaxd t))
    end.

  Fixpoint fr_loop (n : nat) (s : fr_s) : option (T * T) :=
    match n with
    | O => Some (sx s, sd s)
    | S k => match fr_iter s with
             | FrPanic => None
             | FrDone x d => Some (x, d)
             | FrCont s' => fr_loop k s'
             end
    end.

  (** [None] = panic (of [fn], or "Invalid range") *)
  Definition sr_find_root (x0 a b : T) (n : nat) : option (T * T) :=
    match f x0 with
    | None => None
    | Some d =>
    match f b with
    | None => None
    | Some maxd =>
    match f a with
    | None => None
    | Some mind =>
        if (mind >? zero) || (maxd <? zero) then None
        else fr_loop n (mkFS x0 d a mind b maxd)
    end end end.
End FindRoot.
