(** models/generation/sednet_gully.go : the shared time loop [sednetGully] and
    the original daily-load function [gullyLoadOrig] (catalogue model
    DynamicSednetGully). *)
From Coq Require Import ZArith List Bool.
From OW Require Import Base.Arith Base.Mealy Kernels.C16Common Kernels.UnitConsts.
Import ListNotations.

Section K.
  Context {T : Type} {A : Arith T}.
  Local Open Scope ar_scope.

  Record gully_params := {
    g_yearDisturbance : T; g_gullyEndYear : T; g_area : T; g_averageGullyActivityFactor : T;
    g_annualAverageSedimentSupply : T; g_percentFine : T; g_managementPracticeFactor : T;
    g_longtermRunoffFactor : T; g_dailyRunoffPowerFactor : T; g_sdrFine : T; g_sdrCoarse : T;
    g_timestepInSeconds : T }.

  Record gully_out := { g_fineLoad : T; g_coarseLoad : T; g_generatedFine : T; g_generatedCoarse : T }.

  (** calc(runoffRate, annualRunoff, area, propFine, activityFactor, managementPracticeFactor,
           annualLoad, annualSupply, longTermRunoffFactor, dailyRunoffPowerfactor) -> (fine, coarse) *)
  Definition gully_export_fn := T -> T -> T -> T -> T -> T -> T -> T -> T -> T -> T * T.

  Definition gully_zero_out : gully_out :=
    {| g_fineLoad := zero; g_coarseLoad := zero; g_generatedFine := zero; g_generatedCoarse := zero |}.

  Definition gully_activity (p : gully_params) (yr : T) : T :=
    if yr >? g_gullyEndYear p then g_averageGullyActivityFactor p else one.

  (** inputs: (((quickflow, year), annualRunoff), annualLoad).  On the two
      [continue] paths only fineLoad and coarseLoad are written (0); generatedFine
      and generatedCoarse keep the zero they were allocated with. *)
  Definition sednet_gully_row (calc : gully_export_fn) (p : gully_params) (x : T * T * T * T) : gully_out :=
    let '(runoffRate, yr, annualRunoff, annualLoad) := x in
    let propFine := g_percentFine p / of_Z 100 in
    if yr <? g_yearDisturbance p then gully_zero_out
    else
      let activityFactor := gully_activity p yr in
      if (runoffRate =? zero) || (annualRunoff =? zero) then gully_zero_out
      else
        let '(gen_fine, gen_coarse) :=
          calc runoffRate annualRunoff (g_area p) propFine activityFactor (g_managementPracticeFactor p)
               annualLoad (g_annualAverageSedimentSupply p) (g_longtermRunoffFactor p)
               (g_dailyRunoffPowerFactor p) in
        let gen_fine := gen_fine / g_timestepInSeconds p in
        let gen_coarse := gen_coarse / g_timestepInSeconds p in
        {| g_fineLoad := gen_fine * (g_sdrFine p * of_q 1 100);
           g_coarseLoad := gen_coarse * (g_sdrCoarse p * of_q 1 100);
           g_generatedFine := gen_fine; g_generatedCoarse := gen_coarse |}.
  Definition sednet_gully_step (calc : gully_export_fn) (p : gully_params) :=
    loop_step (sednet_gully_row calc p).

  Definition combine4 (a b c d : list T) : list (T * T * T * T) :=
    combine (combine (combine a b) c) d.

  Definition sednet_gully_generic (calc : gully_export_fn) (params states : list T) (inputs : list (list T))
    : option (list (list T) * list T) :=
    match params, inputs with
    | [yd; ey; area; act; supply; pf; mpf; ltrf; drpf; sdrf; sdrc; ts], [quickflow; year; annualRunoff; annualLoad] =>
        let p := {| g_yearDisturbance := yd; g_gullyEndYear := ey; g_area := area;
                    g_averageGullyActivityFactor := act; g_annualAverageSedimentSupply := supply;
                    g_percentFine := pf; g_managementPracticeFactor := mpf; g_longtermRunoffFactor := ltrf;
                    g_dailyRunoffPowerFactor := drpf; g_sdrFine := sdrf; g_sdrCoarse := sdrc;
                    g_timestepInSeconds := ts |} in
        let os := snd (run (sednet_gully_step calc p) tt (combine4 quickflow year annualRunoff annualLoad)) in
        Some ([map g_fineLoad os; map g_coarseLoad os; map g_generatedFine os; map g_generatedCoarse os], states)
    | _, _ => None
    end.

  (** gullyLoadOrig *)
  Definition gully_daily_runoff_factor (dailyRunoff longTermRunoffFactor dailyRunoffPowerfactor : T) : T :=
    if longTermRunoffFactor >? zero then
      let pf := if dailyRunoffPowerfactor <=? zero then one else dailyRunoffPowerfactor in
      apow dailyRunoff pf / longTermRunoffFactor
    else one.

  Definition gully_load_orig : gully_export_fn :=
    fun dailyRunoff annualRunoff area propFine activityFactor managementPracticeFactor annualLoad annualSupply
        longTermRunoffFactor dailyRunoffPowerfactor =>
    let annualToDailyAdjustmentFactor := of_q 100 36525 in     (* 1 / 365.25 *)
    let thisYearsSedimentSupply := annualSupply in
    let dailyRunoffFactor := gully_daily_runoff_factor dailyRunoff longTermRunoffFactor dailyRunoffPowerfactor in
    (annualToDailyAdjustmentFactor * dailyRunoffFactor * propFine * activityFactor * managementPracticeFactor
       * thisYearsSedimentSupply * u_TONNES_TO_KG,
     annualToDailyAdjustmentFactor * dailyRunoffFactor * (one - propFine) * thisYearsSedimentSupply
       * managementPracticeFactor * u_TONNES_TO_KG).

  Definition dynamic_sednet_gully_kernel := sednet_gully_generic gully_load_orig.
End K.
