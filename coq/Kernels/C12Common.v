(** Shared helpers for the constituent transport / trapping kernels (C12):
    pairing of the per-input series into per-timestep rows.  The generated Go
    wrappers hand every kernel input series of one common length (they are rows
    of one 3-D array), so [combine] never truncates on the inputs exercised.
    Definitions only. *)
From Coq Require Import ZArith List.
From OW Require Import Base.Arith Base.Mealy.
Import ListNotations.

Section Z.
  Context {T : Type}.
  Definition zip3 (a b c : list T) : list (T * T * T) := combine (combine a b) c.
  Definition zip4 (a b c d : list T) : list (T * T * T * T) := combine (zip3 a b c) d.
  Definition zip5 (a b c d e : list T) : list (T * T * T * T * T) := combine (zip4 a b c d) e.
  Definition zip8 (a b c d e f g h : list T) : list (T * T * T * T * T * T * T * T) :=
    combine (combine (combine (zip5 a b c d e) f) g) h.
End Z.

Section K.
  Context {T : Type} {A : Arith T}.
  (** an output series the Go function never writes keeps the zero it was
      allocated with (sim.InitialiseOutputs) *)
  Definition zeros {X : Type} (xs : list X) : list T := map (fun _ => zero) xs.
End K.
