(** Model of models/rr/sacramento.go (C10), over an [Arith] (definitions only;
    proofs in KernelProofs/Sacramento.v).

    States (wrapper order): UprTensionWater, UprFreeWater, LwrTensionWater,
    LwrPrimaryFreeWater, LwrSupplFreeWater, AdditionalImperviousStore.
    Outputs (spec order): actualET, runoff, imperviousRunoff, surfaceRunoff, baseflow.
    The unit-hydrograph buffer [qq] and the side-adjusted contents [alzfsc],
    [alzfpc] are locals of the Go function that live across time steps of one
    run: they are part of the machine state here, initialised as the Go code
    does at the top of [sacramento] and NOT carried in the state vector.
    This version models the code WITH the three guards of hooks/fix-sacramento-guards.diff
    (ratio >= 0, fracp <= 1, adimc <= uztwm+lztwm as in the NWS Fortran).
    Constants: pdn20 = 5.08, pdnor = 25.4, 0.5*pdnor = 12.7 (constant
    expression), VERY_SMALL = 0.0, nunit = 5. *)
From Coq Require Import ZArith List Bool.
From OW Require Import Base.Arith Base.Mealy.
Import ListNotations.

Section K.
  Context {T : Type} {A : Arith T}.
  Local Open Scope ar_scope.

  Record sac_par := {
    lzpk : T; lzsk : T; uzk : T; uztwm : T; uzfwm : T; lztwm : T; lzfsm : T; lzfpm : T;
    pfree : T; rexp : T; zperc : T; side : T; ssout : T; pctim : T; adimp : T; sarva : T;
    rserv : T; uh1 : T; uh2 : T; uh3 : T; uh4 : T; uh5 : T }.

  Record sac_st := {
    uztwc : T; uzfwc : T; lztwc : T; lzfpc : T; lzfsc : T; adimc : T;
    alzfsc : T; alzfpc : T; qq : list T }.

  Record sac_out := { o_aet : T; o_runoff : T; o_imperv : T; o_surface : T; o_baseflow : T }.

  Definition pdn20 : T := of_q 508 100.
  Definition pdnor : T := of_q 254 10.
  Definition half_pdnor : T := of_q 127 10.

  (** sumSlice / makeUnitHydrograph *)
  Definition sac_uh_sum (p : sac_par) : T := sum_left [uh1 p; uh2 p; uh3 p; uh4 p; uh5 p].
  Definition sac_dro (p : sac_par) : list T :=
    let s := sac_uh_sum p in [uh1 p / s; uh2 p / s; uh3 p / s; uh4 p / s; uh5 p / s].

  (** variables updated by the drainage and percolation loop *)
  Record sac_inner := {
    i_adimc : T; i_alzfpc : T; i_alzfsc : T; i_flobf : T; i_uzfwc : T; i_floin : T;
    i_lztwc : T; i_flosf : T; i_roimp : T }.

  (** loop-invariant quantities of one pass of the [ii] loop *)
  Record sac_pass_c := { c_pinc : T; c_dinc : T; c_duz : T; c_dlzp : T; c_dlzs : T }.

  Definition sac_inc (p : sac_par) (uztwc_ : T) (c : sac_pass_c) (v : sac_inner) : sac_inner :=
    let alzfsm := lzfsm p * (one + side p) in
    let alzfpm := lzfpm p * (one + side p) in
    let pbase := alzfsm * lzsk p + alzfpm * lzpk p in
    let hpl := alzfpm / (alzfpm + alzfsm) in
    let pinc := c_pinc c in
    let dinc := c_dinc c in
    let ratio0 := (i_adimc v - uztwc_) / lztwm p in
    (* if ratio < 0 { ratio = 0 } *)
    let ratio := if ratio0 <? zero then zero else ratio0 in
    let addro := pinc * ratio * ratio in
    (* baseflow from the lower zone primary store *)
    let '(alzfpc0, bf1) := if i_alzfpc v >? zero then (i_alzfpc v, i_alzfpc v * c_dlzp c)
                           else (zero, zero) in
    let flobf1 := i_flobf v + bf1 in
    let alzfpc1 := alzfpc0 - bf1 in
    let '(alzfsc0, bf2) := if i_alzfsc v >? zero then (i_alzfsc v, i_alzfsc v * c_dlzs c)
                           else (zero, zero) in
    let alzfsc1 := alzfsc0 - bf2 in
    let flobf2 := flobf1 + bf2 in
    (* upper zone percolation and interflow *)
    let '(uzfwc3, floin3, lztwc3, alzfsc3, alzfpc3) :=
      if i_uzfwc v >? zero then
        let lzair := lztwm p - i_lztwc v + alzfsm - alzfsc1 + alzfpm - alzfpc1 in
        let '(perc, uzfwc1) :=
          if lzair >? zero then
            let perc0 := (pbase * dinc * i_uzfwc v) / uzfwm p in
            let perc1 := amin lzair (amin (i_uzfwc v)
                           (perc0 * (one + (zperc p *
                              apow (one - (alzfpc1 + alzfsc1 + i_lztwc v) / (alzfpm + alzfsm + lztwm p))
                                   (rexp p))))) in
            (perc1, i_uzfwc v - perc1)
          else (zero, i_uzfwc v) in
        let del := c_duz c * uzfwc1 in
        let floin1 := i_floin v + del in
        let uzfwc2 := uzfwc1 - del in
        let perctw0 := amin (perc * (one - pfree p)) (lztwm p - i_lztwc v) in
        let percfw0 := perc - perctw0 in
        let lzair2 := alzfsm - alzfsc1 + alzfpm - alzfpc1 in
        let '(perctw, percfw) := if percfw0 >? lzair2 then (perctw0 + percfw0 - lzair2, lzair2)
                                 else (perctw0, percfw0) in
        let lztwc1 := i_lztwc v + perctw in
        let '(alzfsc2, alzfpc2) :=
          if percfw >? zero then
            let ratlp := one - alzfpc1 / alzfpm in
            let ratls := one - alzfsc1 / alzfsm in
            let fracp0 := hpl * (ratlp + ratlp) / (ratlp + ratls) in
            (* if fracp > 1.0 { fracp = 1.0 } *)
            let fracp := if fracp0 >? one then one else fracp0 in
            let percs0 := amin (alzfsm - alzfsc1) (percfw * (one - fracp)) in
            let alzfsc_a := alzfsc1 + percs0 in
            let '(percs, alzfsc_b) := if alzfsc_a >? alzfsm then (percs0 - alzfsc_a + alzfsm, alzfsm)
                                      else (percs0, alzfsc_a) in
            let alzfpc_a := alzfpc1 + percfw - percs in
            if alzfpc_a >? alzfpm then (alzfsc_b + alzfpc_a - alzfpm, alzfpm)
            else (alzfsc_b, alzfpc_a)
          else (alzfsc1, alzfpc1) in
        (uzfwc2, floin1, lztwc1, alzfsc2, alzfpc2)
      else (i_uzfwc v, i_floin v, i_lztwc v, alzfsc1, alzfpc1) in
    (* fill upper zone free water with tension water spill *)
    let '(uzfwc4, flosf4, addro4) :=
      if pinc >? zero then
        if pinc - uzfwm p + uzfwc3 <=? zero then (uzfwc3 + pinc, i_flosf v, addro)
        else
          let pav := pinc - uzfwm p + uzfwc3 in
          (uzfwm p, i_flosf v + pav, addro + pav * (one - addro / pinc))
      else (uzfwc3, i_flosf v, addro) in
    (* the additional impervious store is capped at uztwm+lztwm; the excess becomes direct runoff *)
    let adimc_a := i_adimc v + pinc - addro4 in
    let '(addro5, adimc_b) :=
      if adimc_a >? uztwm p + lztwm p
      then (addro4 + adimc_a - (uztwm p + lztwm p), uztwm p + lztwm p)
      else (addro4, adimc_a) in
    {| i_adimc := adimc_b;
       i_alzfpc := alzfpc3; i_alzfsc := alzfsc3; i_flobf := flobf2; i_uzfwc := uzfwc4;
       i_floin := floin3; i_lztwc := lztwc3; i_flosf := flosf4;
       i_roimp := i_roimp v + addro5 * adimp p |}.

  (** one pass of [for ii := itime; ii <= 2; ii++] with the current adj, pav *)
  Definition sac_pass (p : sac_par) (uztwc_ adj pav : T) (v : sac_inner) : sac_inner :=
    let ninc := Z.add (truncZ (afloor ((i_uzfwc v * adj + pav) * of_q 1 5))) 1 in
    let dinc0 := one / of_Z ninc in
    let pinc := pav * dinc0 in
    let dinc := dinc0 * adj in
    let '(duz, dlzp, dlzs) :=
      if (ninc =? 1)%Z && (adj >=? one) then (uzk p, lzpk p, lzsk p)
      else
        ((if uzk p <? one then one - apow (one - uzk p) dinc else one),
         (if lzpk p <? one then one - apow (one - lzpk p) dinc else one),
         (if lzsk p <? one then one - apow (one - lzsk p) dinc else one)) in
    let c := {| c_pinc := pinc; c_dinc := dinc; c_duz := duz; c_dlzp := dlzp; c_dlzs := dlzs |} in
    Nat.iter (Z.to_nat ninc) (sac_inc p uztwc_ c) v.

  (** result of the land phase of one time step (everything before the channel
      computations): loop variables, the new upper tension content and the
      unscaled evaporation components e1 e2 e3 e5 *)
  Record sac_land_r := { l_v : sac_inner; l_uztwc : T; l_e1 : T; l_e2 : T; l_e3 : T; l_e5 : T }.

  (** land phase before the drainage-and-percolation loop: evaporation, transfer of free to
      tension water, resupply of the lower zone, filling of the upper tension store.
      [pr_v0] = loop variables at loop entry, [pr_pav] = excess rain entering the loop *)
  Record sac_pre_r := { pr_v0 : sac_inner; pr_uztwc : T; pr_pav : T;
                        pr_e1 : T; pr_e2 : T; pr_e3 : T; pr_e5 : T }.

  Definition sac_pre (p : sac_par) (st : sac_st) (io : T * T) : sac_pre_r :=
    let '(pliq, evapt) := io in
    let saved := rserv p * (lzfpm p + lzfsm p) in
    let alzfsm := lzfsm p * (one + side p) in
    let alzfpm := lzfpm p * (one + side p) in
    (* evaporation from the upper zone *)
    let e1a := if uztwm p >? zero then evapt * uztwc st / uztwm p else zero in
    let '(e1, e2, uztwc1, uzfwc1) :=
      if uztwc st <? e1a then
        let e1 := uztwc st in
        let e2 := amin (evapt - e1) (uzfwc st) in
        (e1, e2, zero, uzfwc st - e2)
      else (e1a, zero, uztwc st - e1a, uzfwc st) in
    let a1 := if uztwm p >? zero then uztwc1 / uztwm p else one in
    let b1 := if uzfwm p >? zero then uzfwc1 / uzfwm p else one in
    let '(uztwc2, uzfwc2) :=
      if a1 <? b1 then
        let a := (uztwc1 + uzfwc1) / (uztwm p + uzfwm p) in
        (uztwm p * a, uzfwm p * a)
      else (uztwc1, uzfwc1) in
    (* evaporation from ADIMP area and lower zone tension water *)
    let '(e3, e5) :=
      if uztwm p + lztwm p >? zero then
        (amin ((evapt - e1 - e2) * lztwc st / (uztwm p + lztwm p)) (lztwc st),
         (* if e5 < 0 { e5 = 0 } *)
         let e5a := amin (e1 + (evapt - e1 - e2) * (adimc st - e1 - uztwc2) / (uztwm p + lztwm p)) (adimc st) in
         if e5a <? zero then zero else e5a)
      else (zero, zero) in
    let lztwc1 := lztwc st - e3 in
    let adimc1 := adimc st - e5 in
    (* resupply of lower zone tension water *)
    let a2 := if lztwm p >? zero then lztwc1 / lztwm p else one in
    let b2 := if alzfpm + alzfsm - saved + lztwm p >? zero
              then (alzfpc st + alzfsc st - saved + lztwc1) / (alzfpm + alzfsm - saved + lztwm p)
              else one in
    let '(lztwc2, alzfsc2, alzfpc2) :=
      if a2 <? b2 then
        let del := (b2 - a2) * lztwm p in
        let alzfsc_a := alzfsc st - del in
        if alzfsc_a <? zero then (lztwc1 + del, zero, alzfpc st + alzfsc_a)
        else (lztwc1 + del, alzfsc_a, alzfpc st)
      else (lztwc1, alzfsc st, alzfpc st) in
    let roimp0 := pliq * pctim p in
    let pav0 := pliq + uztwc2 - uztwm p in
    let '(adimc2, uztwc3, pav) :=
      if pav0 <? zero then (adimc1 + pliq, uztwc2 + pliq, zero)
      else (adimc1 + uztwm p - uztwc2, uztwm p, pav0) in
    {| pr_v0 := {| i_adimc := adimc2; i_alzfpc := alzfpc2; i_alzfsc := alzfsc2; i_flobf := zero;
                   i_uzfwc := uzfwc2; i_floin := zero; i_lztwc := lztwc2; i_flosf := zero;
                   i_roimp := roimp0 |};
       pr_uztwc := uztwc3; pr_pav := pav; pr_e1 := e1; pr_e2 := e2; pr_e3 := e3; pr_e5 := e5 |}.

  (** the loop: one pass when pav <= pdn20, two passes otherwise *)
  Definition sac_loop (p : sac_par) (uztwc3 pav : T) (v0 : sac_inner) : sac_inner :=
    let '(adj, itime) :=
      if pav <=? pdn20 then (one, 2%Z)
      else ((if pav <? pdnor then of_q 1 2 * asqrt (pav / pdnor) else one - half_pdnor / pav), 1%Z) in
    if (itime =? 1)%Z
    then sac_pass p uztwc3 (one - adj) zero (sac_pass p uztwc3 adj pav v0)
    else sac_pass p uztwc3 adj pav v0.

  Definition sac_land (p : sac_par) (st : sac_st) (io : T * T) : sac_land_r :=
    let pre := sac_pre p st io in
    {| l_v := sac_loop p (pr_uztwc pre) (pr_pav pre) (pr_v0 pre); l_uztwc := pr_uztwc pre;
       l_e1 := pr_e1 pre; l_e2 := pr_e2 pre; l_e3 := pr_e3 pre; l_e5 := pr_e5 pre |}.

  (** channel phase: area scaling of the flow components, unit hydrograph,
      channel losses.  [c_qf] = runoff, [c_bf] = baseflow part of it. *)
  Record sac_chan_r := { c_qq : list T; c_qf : T; c_bf : T; c_e4 : T }.

  Definition sac_channel (p : sac_par) (qq0 : list T) (evapt flosf0 roimp floin0 flobf0 : T)
    : sac_chan_r :=
    let flosf := flosf0 * (one - pctim p - adimp p) in
    let floin := floin0 * (one - pctim p - adimp p) in
    let flobf := flobf0 * (one - pctim p - adimp p) in
    let qq1 := (flosf + roimp + floin) :: tl qq0 in
    let flwsf := fold_left add (map (fun qd => fst qd * snd qd) (combine qq1 (sac_dro p))) zero in
    let qq2 := nth 0 qq1 zero :: firstn 4 qq1 in
    let flwbf0 := flobf / (one + side p) in
    let flwbf := if flwbf0 <? zero then zero else flwbf0 in
    let qf0 := flwbf + flwsf in
    let baseflowFraction := if qf0 >? zero then flwbf / qf0 else zero in
    let qf1 := amax zero (qf0 - ssout p) in
    let e4 := amin (evapt * sarva p) qf1 in
    let qf := qf1 - e4 in
    let bf := baseflowFraction * qf in
    {| c_qq := qq2; c_qf := qf; c_bf := bf; c_e4 := e4 |}.

  Definition sac_step (p : sac_par) (st : sac_st) (io : T * T) : sac_st * sac_out :=
    let l := sac_land p st io in
    let v := l_v l in
    let ch := sac_channel p (qq st) (snd io) (i_flosf v) (i_roimp v) (i_floin v) (i_flobf v) in
    let e1s := l_e1 l * (one - adimp p - pctim p) in
    let e2s := l_e2 l * (one - adimp p - pctim p) in
    let e3s := l_e3 l * (one - adimp p - pctim p) in
    let e5s := l_e5 l * adimp p in
    ({| uztwc := l_uztwc l; uzfwc := i_uzfwc v; lztwc := i_lztwc v;
        lzfpc := i_alzfpc v / (one + side p); lzfsc := i_alzfsc v / (one + side p);
        adimc := i_adimc v; alzfsc := i_alzfsc v; alzfpc := i_alzfpc v; qq := c_qq ch |},
     {| o_aet := e1s + e2s + e3s + c_e4 ch + e5s; o_runoff := c_qf ch; o_imperv := i_roimp v;
        o_surface := c_qf ch - c_bf ch; o_baseflow := c_bf ch |}).

  Definition sac_init (p : sac_par) (s0 s1 s2 s3 s4 s5 : T) : sac_st :=
    {| uztwc := s0; uzfwc := s1; lztwc := s2; lzfpc := s3; lzfsc := s4; adimc := s5;
       alzfsc := s4 * (one + side p); alzfpc := s3 * (one + side p);
       qq := [zero; zero; zero; zero; zero] |}.

  Definition sac_run (p : sac_par) (st : sac_st) (io : list (T * T)) : sac_st * list sac_out :=
    run (sac_step p) st io.

  Definition sacramento_kernel (params states : list T) (inputs : list (list T))
    : option (list (list T) * list T) :=
    match params, inputs with
    | [p1; p2; p3; p4; p5; p6; p7; p8; p9; p10; p11; p12; p13; p14; p15; p16; p17; p18; p19; p20;
       p21; p22], [rain; pet] =>
        match states with
        | s0 :: s1 :: s2 :: s3 :: s4 :: s5 :: rest =>
            let p := {| lzpk := p1; lzsk := p2; uzk := p3; uztwm := p4; uzfwm := p5; lztwm := p6;
                        lzfsm := p7; lzfpm := p8; pfree := p9; rexp := p10; zperc := p11;
                        side := p12; ssout := p13; pctim := p14; adimp := p15; sarva := p16;
                        rserv := p17; uh1 := p18; uh2 := p19; uh3 := p20; uh4 := p21; uh5 := p22 |} in
            let '(st', os) := sac_run p (sac_init p s0 s1 s2 s3 s4 s5) (combine rain pet) in
            Some ([map o_aet os; map o_runoff os; map o_imperv os; map o_surface os;
                   map o_baseflow os],
                  uztwc st' :: uzfwc st' :: lztwc st' :: lzfpc st' :: lzfsc st' :: adimc st' :: rest)
        | _ => None
        end
    | _, _ => None
    end.
End K.
