(** models/functions/compute_proportion.go *)
From Coq Require Import ZArith List.
From OW Require Import Base.Arith Base.Mealy Kernels.C16Common.
Import ListNotations.

Section K.
  Context {T : Type} {A : Arith T}.
  Local Open Scope ar_scope.

  Definition compute_proportion_row (resultOnZeroDenominator : T) (x : T * T) : T :=
    let '(n, d) := x in
    if d =? zero then resultOnZeroDenominator else n / d.
  Definition compute_proportion_step (r : T) := loop_step (compute_proportion_row r).

  Definition compute_proportion_kernel (params states : list T) (inputs : list (list T))
    : option (list (list T) * list T) :=
    match params, inputs with
    | [r], [numerator; denominator] =>
        Some ([snd (run (compute_proportion_step r) tt (combine numerator denominator))], states)
    | _, _ => None
    end.
End K.
