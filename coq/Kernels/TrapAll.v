(** models/storage/trap_all.go : storageTrapAll.  Definitions only.

    [trappedMass.CopyFrom(inflowMass); trappedMass[0] += initialStoredMass;
    storedMass = 0].  As a Mealy machine the state is [Some m] before the first
    step (m = the initial stored mass, added to the first element) and [None]
    afterwards (the copied value is passed through unchanged).  The model has no
    time-step parameter: the kg/s input is copied into the output labelled kg.
    On an empty series the Go code indexes element 0 and panics. *)
From Coq Require Import ZArith List.
From OW Require Import Base.Arith Base.Mealy Kernels.C12Common.
Import ListNotations.

Section K.
  Context {T : Type} {A : Arith T}.
  Local Open Scope ar_scope.

  Definition trapall_step (s : option T) (inflowMass : T) : option T * T :=
    match s with
    | Some initialStoredMass => (None, inflowMass + initialStoredMass)
    | None => (None, inflowMass)
    end.

  (** the packed final state: storedMass = 0.0 *)
  Definition trapall_pack (s : option T) : T := zero.

  (** no params; state storedMass; inputs inflowMass inflow outflow storageVolume;
      outputs trappedMass outflowMass (never written) *)
  Definition storage_trap_all_kernel (params states : list T) (inputs : list (list T))
    : option (list (list T) * list T) :=
    match params, states, inputs with
    | [], [storedMass], [inflowMass; inflow; outflow; storageVolume] =>
        match inflowMass with
        | [] => None   (* trappedMass.Get([0]) on an empty array: index out of range *)
        | _ => let (s', os) := run trapall_step (Some storedMass) inflowMass in
               Some ([os; zeros os], [trapall_pack s'])
        end
    | _, _, _ => None
    end.
End K.
