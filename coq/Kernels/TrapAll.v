(** models/storage/trap_all.go : storageTrapAll.  Definitions only.

    [trappedMass.CopyFrom(inflowMass); trappedMass[0] += initialStoredMass;
    storedMass = 0].  As a Mealy machine the state is [Some m] before the first
    step (m = the initial stored mass, added to the first element) and [None]
    afterwards (the copied value is passed through unchanged).  The model has no
    time-step parameter: the kg/s input is copied into the output labelled kg.
    On an empty series nothing happens: [if inflowMass.Len1() == 0 { return
    initialStoredMass }], i.e. the machine is still in state [Some m] and packs
    to m; after at least one step the packed state is 0.0. *)
From Coq Require Import ZArith List.
From OW Require Import Base.Arith Base.Mealy Kernels.C12Common.
Import ListNotations.

Section K.
  Context {T : Type} {A : Arith T}.
  Local Open Scope ar_scope.

  Definition trapall_step (s : option T) (inflowMass : T) : option T * T :=
    match s with
    | Some initialStoredMass => (None, inflowMass + initialStoredMass)
    | None => (None, inflowMass)
    end.

  (** the packed final state: the untouched initial mass after an empty run,
      storedMass = 0.0 after any step *)
  Definition trapall_pack (s : option T) : T :=
    match s with Some initialStoredMass => initialStoredMass | None => zero end.

  (** no params; state storedMass; inputs inflowMass inflow outflow storageVolume;
      outputs trappedMass outflowMass (never written) *)
  Definition storage_trap_all_kernel (params states : list T) (inputs : list (list T))
    : option (list (list T) * list T) :=
    match params, states, inputs with
    | [], [storedMass], [inflowMass; inflow; outflow; storageVolume] =>
        let (s', os) := run trapall_step (Some storedMass) inflowMass in
        Some ([os; zeros os], [trapall_pack s'])
    | _, _, _ => None
    end.
End K.
