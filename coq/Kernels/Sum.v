(** models/functions/sum.go *)
From Coq Require Import ZArith List.
From OW Require Import Base.Arith Base.Mealy Kernels.C16Common.
Import ListNotations.

Section K.
  Context {T : Type} {A : Arith T}.
  Local Open Scope ar_scope.

  Definition sum_row (x : T * T) : T := let '(a, b) := x in a + b.
  Definition sum_step := loop_step sum_row.

  Definition sum_kernel (params states : list T) (inputs : list (list T))
    : option (list (list T) * list T) :=
    match params, inputs with
    | [], [i1; i2] => Some ([snd (run sum_step tt (combine i1 i2))], states)
    | _, _ => None
    end.
End K.
