(** models/conversion/depthtorate.go *)
From Coq Require Import ZArith List.
From OW Require Import Base.Arith Base.Mealy Kernels.C16Common Kernels.UnitConsts.
Import ListNotations.

Section K.
  Context {T : Type} {A : Arith T}.
  Local Open Scope ar_scope.

  (** conversion := units.MILLIMETRES_TO_METRES * area / deltaT *)
  Definition depth_to_rate_conversion (deltaT area : T) : T :=
    u_MILLIMETRES_TO_METRES * area / deltaT.
  Definition depth_to_rate_row (conversion : T) (input : T) : T := input * conversion.
  Definition depth_to_rate_step (conversion : T) := loop_step (depth_to_rate_row conversion).

  Definition depth_to_rate (deltaT area : T) (input : list T) : list T :=
    if area =? zero then untouched input
    else snd (run (depth_to_rate_step (depth_to_rate_conversion deltaT area)) tt input).

  Definition depth_to_rate_kernel (params states : list T) (inputs : list (list T))
    : option (list (list T) * list T) :=
    match params, inputs with
    | [deltaT; area], [input] => Some ([depth_to_rate deltaT area input], states)
    | _, _ => None
    end.
End K.
