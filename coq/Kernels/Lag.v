(** Model of models/routing/lag.go (C11), written once over [Arith].
    Definitions only; proofs are in KernelProofs/Lag.v.

    The Go code works on index ranges with in-place writes into the [lagged]
    slice (the state vector, obtained by [extractLagStates]) and into the
    [outflow] series (zero-initialised by the wrapper).  The model keeps each Go
    [for] loop as one [for_up] loop whose body is one array read + one array
    write; an index out of range is [None] (the Go runtime panic).

      lagSteps := int(timeLag)
      if lagSteps == 0 { outflow.CopyFrom(inflow); return lagged }
      for i := 0; i < MinInt(lagSteps, T); i++ { outflow[i] = lagged[i] }            (L1)
      for i := lagSteps; i < T; i++ { outflow[i] = inflow[i-lagSteps] }              (L2)
      if lagSteps > T {
        for i := T; i < lagSteps; i++ { lagged[i-T] = lagged[i] }                    (L3)
        for i := 0; i < T; i++ { lagged[lagSteps-T+i] = inflow[i] }                  (L4)
      } else {
        for i := 0; i < lagSteps; i++ { lagged[i] = inflow[T-lagSteps+i] }           (L5)
      }
      return lagged       (packed into the state vector by packLagStates)

    where T = inflow.Len1() = outflow.Len1(). *)
From Coq Require Import ZArith List Bool Arith.
From OW Require Import Base.Arith.
Import ListNotations.

(** [for i := lo; i < lo + n; i++ { s = body(i, s) }] ; [None] = panic in the body *)
Fixpoint for_up {S : Type} (n : nat) (i : nat) (body : nat -> S -> option S) (s : S) : option S :=
  match n with
  | O => Some s
  | Datatypes.S k => match body i s with
                     | Some s' => for_up k (Datatypes.S i) body s'
                     | None => None
                     end
  end.

(** [a[i] = v] ; [None] = index out of range *)
Fixpoint set_nth {X : Type} (l : list X) (i : nat) (v : X) : option (list X) :=
  match l, i with
  | [], _ => None
  | _ :: r, O => Some (v :: r)
  | a :: r, Datatypes.S j => match set_nth r j v with
                             | Some r' => Some (a :: r')
                             | None => None
                             end
  end.

(** [dst[di] = src[si]] *)
Definition copy_elem {X : Type} (src : list X) (si : nat) (dst : list X) (di : nat) : option (list X) :=
  match nth_error src si with
  | Some v => set_nth dst di v
  | None => None
  end.

Section K.
  Context {T : Type} {A : Arith T}.

  (** the body of [lag] for lagSteps = L > 0 (as a [nat]); returns (outflow, lagged) *)
  Definition lag_body (L : nat) (inflow lagged : list T) : option (list T * list T) :=
    let Tn := length inflow in
    let out0 := repeat zero Tn in
    (* L1 *)
    match for_up (Nat.min L Tn) 0 (fun i out => copy_elem lagged i out i) out0 with
    | None => None
    | Some out1 =>
    (* L2 *)
    match for_up (Tn - L) L (fun i out => copy_elem inflow (i - L) out i) out1 with
    | None => None
    | Some out2 =>
        if Nat.ltb Tn L then
          (* L3 *)
          match for_up (L - Tn) Tn (fun i lg => copy_elem lg i lg (i - Tn)) lagged with
          | None => None
          | Some lg1 =>
          (* L4 *)
          match for_up Tn 0 (fun i lg => copy_elem inflow i lg (L - Tn + i)) lg1 with
          | None => None
          | Some lg2 => Some (out2, lg2)
          end
          end
        else
          (* L5 *)
          match for_up L 0 (fun i lg => copy_elem inflow (Tn - L + i) lg i) lagged with
          | None => None
          | Some lg1 => Some (out2, lg1)
          end
    end
    end.

  (** [lag]: [None] = a Go runtime panic (negative lag: the first write of L2
      is at a negative index; state vector shorter than the lag: L1/L3/L5 index
      past its end) *)
  Definition lag_fn (timeLag : T) (inflow lagged : list T) : option (list T * list T) :=
    let lagSteps := truncZ timeLag in
    if Z.eqb lagSteps 0 then Some (inflow, lagged)
    else if Z.ltb lagSteps 0 then None
    else lag_body (Z.to_nat lagSteps) inflow lagged.

  (** initLag (called by the generated InitialiseStates): a zero buffer of int(timeLag)
      entries; [None] = make([]float64, n) with n < 0 panics *)
  Definition lag_init (timeLag : T) : option (list T) :=
    let n := truncZ timeLag in
    if Z.ltb n 0 then None else Some (repeat zero (Z.to_nat n)).

  (** parameters: timeLag; states: the lag buffer itself (variable length);
      input: inflow; output: outflow *)
  Definition lag_kernel (params : list T) (states : list T) (inputs : list (list T))
    : option (list (list T) * list T) :=
    match params, inputs with
    | timeLag :: _, inflow :: _ =>
        match lag_fn timeLag inflow states with
        | Some (out, lagged) => Some ([out], lagged)
        | None => None
        end
    | _, _ => None
    end.
End K.
