(** Model of models/rr/coeff.go (C10): runoff[i] = coeff * rainfall[i]; no states. *)
From Coq Require Import ZArith List Bool.
From OW Require Import Base.Arith Base.Mealy.
Import ListNotations.

Section K.
  Context {T : Type} {A : Arith T}.
  Local Open Scope ar_scope.

  Definition coeff_step (coeff : T) (st : unit) (rain : T) : unit * T := (st, coeff * rain).
  Definition coeff_run (coeff : T) (rain : list T) : list T := snd (run (coeff_step coeff) tt rain).

  Definition runoff_coefficient_kernel (params states : list T) (inputs : list (list T))
    : option (list (list T) * list T) :=
    match params, inputs with
    | [coeff], [rain] => Some ([coeff_run coeff rain], states)
    | _, _ => None
    end.
End K.
