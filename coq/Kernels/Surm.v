(** Model of models/rr/surm.go (C10), over an [Arith] (definitions only; proofs
    in KernelProofs/Surm.v).  States: [SoilMoistureStore, Groundwater,
    TotalStore]; outputs in spec order: runoff, quickflow, baseflow, store. *)
From Coq Require Import ZArith List Bool.
From OW Require Import Base.Arith Base.Mealy.
Import ListNotations.

Section K.
  Context {T : Type} {A : Arith T}.
  Local Open Scope ar_scope.

  Record surm_par := {
    su_bfac : T; su_coeff : T; su_dseep : T; su_fcFrac : T; su_fimp : T;
    su_rfac : T; su_smax : T; su_sq : T; su_thres : T }.
  Record surm_st := { su_sms : T; su_gw : T; su_total : T }.
  Record surm_out := { su_runoff : T; su_quickflow : T; su_baseflow : T; su_store : T }.

  Definition surm_step (p : surm_par) (st : surm_st) (io : T * T) : surm_st * surm_out :=
    let '(rainThisTS, petThisTS) := io in
    let smax := su_smax p in
    let fperv := one - su_fimp p in
    let fieldCapacity := su_fcFrac p * smax in
    let imperviousRunoff := amax (rainThisTS - su_thres p) zero in
    let quickflow1 := zero + imperviousRunoff * su_fimp p in
    let maxInfiltration := su_coeff p * aexp (((- su_sq p) * su_sms st) / smax) in
    let infiltration := amin maxInfiltration rainThisTS in
    let infiltrationExcess := fperv * (rainThisTS - infiltration) in
    let sms1 := su_sms st + infiltration in
    let saturationExcess := amax (sms1 - smax) zero * fperv in
    let sms2 := if sms1 >? smax then smax else sms1 in
    let perviousQuickflow := infiltrationExcess + saturationExcess in
    let quickflow := quickflow1 + perviousQuickflow in
    let et := amax (amin ((of_Z 10 * sms2) / smax) petThisTS) zero in
    let sms3 := sms2 - et in
    let recharge := su_rfac p * amax (sms3 - fieldCapacity) zero in
    let gw1 := su_gw st + recharge in
    let sms4 := sms3 - recharge in
    let seep := su_dseep p * gw1 in
    let gw2 := amax (gw1 - seep) zero in
    let baseflow0 := su_bfac p * gw2 in
    let gw3 := amax (gw2 - baseflow0) zero in
    let baseflow := baseflow0 * fperv in
    let runoff := quickflow + baseflow in
    let totalStore := sms4 + gw3 in
    ({| su_sms := sms4; su_gw := gw3; su_total := totalStore |},
     {| su_runoff := runoff; su_quickflow := quickflow; su_baseflow := baseflow;
        su_store := totalStore |}).

  Definition surm_run (p : surm_par) (st : surm_st) (io : list (T * T))
    : surm_st * list surm_out := run (surm_step p) st io.

  Definition surm_kernel (params states : list T) (inputs : list (list T))
    : option (list (list T) * list T) :=
    match params, inputs with
    | [bfac; coeff; dseep; fcFrac; fimp; rfac; smax; sq; thres], [rain; pet] =>
        match states with
        | s0 :: g0 :: t0 :: rest =>
            let p := {| su_bfac := bfac; su_coeff := coeff; su_dseep := dseep; su_fcFrac := fcFrac;
                        su_fimp := fimp; su_rfac := rfac; su_smax := smax; su_sq := sq;
                        su_thres := thres |} in
            let '(st', os) := surm_run p {| su_sms := s0; su_gw := g0; su_total := t0 |}
                                       (combine rain pet) in
            Some ([map su_runoff os; map su_quickflow os; map su_baseflow os; map su_store os],
                  su_sms st' :: su_gw st' :: su_total st' :: rest)
        | _ => None
        end
    | _, _ => None
    end.
End K.
