(** Write footprint of the nine constituent kernels (C12): which elements of the
    output series the Go function assigns in EVERY execution, as a function of the
    parameters and the inputs.  One 0/1 series per output, in spec order:
      [one]  = the element is written whatever branch the step takes;
      [zero] = the element is not (or not always) written: the Go code relies on
               the caller handing in zero-initialised output arrays there
               (sim.InitialiseOutputs); the kernels above model those elements by
               the literal [zero] / [zeros].
    The check runs the implementation into output arrays that hold old data (a
    second run into the same array, a sentinel pattern) and requires every element
    marked [one] to be bit-identical to the run into fresh arrays.
    Read off the Go sources:
      LumpedConstituentTransport   outflowLoads, pointSourceLoad: both branches write
      constituentDecay             decayedLoad only when halflife > 0; outflowLoads always
      instreamFineSediment         main loop: all five; bankFullFlow <= 1e-8: loadDownstream only
      instreamCoarseSediment       loadDownstream always
      instreamParticulateNutrient  loadFromStreambank, loadDownstream, loadToFloodplain always;
                                   loadDeposited not on a flushed step ([continue] before the Set)
      storageParticulateTrapping   both always
      storageTrapAll               trappedMass (CopyFrom); outflowMass never
      storageDissolvedDecay        decay off: outflowMass only (decayedMass never); decay on: both
      instreamDissolvedNutrient    decay off: loadDownstream, loadFromPointSource; decayedLoad and
                                   loadToFloodplain never.  decay on: loadDownstream always;
                                   decayedLoad / loadFromPointSource only on the slow-travel branch
                                   (marked zero: not always written); loadToFloodplain never.
    Definitions only. *)
From Coq Require Import ZArith List.
From OW Require Import Base.Arith Base.Mealy Kernels.C12Common Kernels.LumpedConstituent Kernels.Decay
  Kernels.InstreamFineSediment Kernels.InstreamCoarseSediment Kernels.InstreamParticulateNutrient
  Kernels.SedimentTrapping Kernels.TrapAll Kernels.DissolvedDecay Kernels.InstreamDissolvedNutrient.
Import ListNotations.

Section K.
  Context {T : Type} {A : Arith T}.
  Local Open Scope ar_scope.

  Definition ones {X : Type} (xs : list X) : list T := map (fun _ => one) xs.

  Definition lumped_constituent_routing_written (params states : list T) (inputs : list (list T))
    : option (list (list T) * list T) :=
    match params, inputs with
    | [x; pointInput; deltaT], [a; b; c; d] =>
        let rows := lumped_rows a (Some b) c d in Some ([ones rows; ones rows], [])
    | _, _ => None
    end.

  Definition constituent_decay_written (params states : list T) (inputs : list (list T))
    : option (list (list T) * list T) :=
    match params, inputs with
    | [x; halfLife; deltaT], [a; b; c; d; e] =>
        let rows := decay_rows a b c d e in
        Some ([if halfLife >? zero then ones rows else zeros rows; ones rows], [])
    | _, _ => None
    end.

  Definition instream_fine_sediment_written (params states : list T) (inputs : list (list T))
    : option (list (list T) * list T) :=
    match params, inputs with
    | [bff; vflood; fpa; lw; ll; ls; bh; pbh; sbd; mn; vs; vr; dt], [a; b; l; v; q] =>
        let rows := fine_rows a b l v q in
        if bff <=? FS_BANKFULL_EPS then Some ([ones rows; zeros rows; zeros rows; zeros rows; zeros rows], [])
        else Some ([ones rows; ones rows; ones rows; ones rows; ones rows], [])
    | _, _ => None
    end.

  Definition instream_coarse_sediment_written (params states : list T) (inputs : list (list T))
    : option (list (list T) * list T) :=
    match params, inputs with
    | [dt], [a; b; c] => Some ([ones (zip3 a b c)], [])
    | _, _ => None
    end.

  (** loadDeposited is assigned after the [continue] of the flush branch *)
  Definition pn_deposited_written (dt : T) (x : pn_in) : T :=
    if pn_working_vol dt x <? MINIMUM_VOLUME then zero else one.

  Definition instream_particulate_nutrient_written (params states : list T) (inputs : list (list T))
    : option (list (list T) * list T) :=
    match params, inputs with
    | [pnc; spf; dt], [up; lat; vol; outflow; sbe; latsed; fpf; cdf] =>
        let rows := pn_rows up lat vol outflow sbe latsed fpf cdf in
        Some ([map (pn_deposited_written dt) rows; ones rows; ones rows; ones rows], [])
    | _, _ => None
    end.

  Definition storage_particulate_trapping_written (params states : list T) (inputs : list (list T))
    : option (list (list T) * list T) :=
    match params, inputs with
    | [dt; cap; len; sub; mult; ldf; ldp], [a; b; c; d] =>
        let rows := trap_rows a b c d in Some ([ones rows; ones rows], [])
    | _, _ => None
    end.

  Definition storage_trap_all_written (params states : list T) (inputs : list (list T))
    : option (list (list T) * list T) :=
    match params, inputs with
    | [], [inflowMass; b; c; d] => Some ([ones inflowMass; zeros inflowMass], [])
    | _, _ => None
    end.

  Definition storage_dissolved_decay_written (params states : list T) (inputs : list (list T))
    : option (list (list T) * list T) :=
    match params, inputs with
    | [deltaT; doStorageDecay; ari; bankFullFlow; mfrt], [inflowMass; inflow; outflow; storageVolume] =>
        if doStorageDecay <? of_q 1 2 then
          let rows := lumped_rows inflowMass None outflow storageVolume in Some ([zeros rows; ones rows], [])
        else
          let rows := zip3 inflowMass outflow storageVolume in Some ([ones rows; ones rows], [])
    | _, _ => None
    end.

  Definition instream_dissolved_nutrient_decay_written (params states : list T) (inputs : list (list T))
    : option (list (list T) * list T) :=
    match params, inputs with
    | [doDecay; pointSourceLoad; lh; lw; ll; uv; dt], [up; lat; vol; outflow; fpf] =>
        if doDecay <? of_q 1 2 then
          let rows := lumped_rows up (Some lat) outflow vol in
          Some ([zeros rows; ones rows; zeros rows; ones rows], [])
        else
          let rows := dn_rows up lat vol outflow in
          Some ([zeros rows; ones rows; zeros rows; zeros rows], [])
    | _, _ => None
    end.
End K.
