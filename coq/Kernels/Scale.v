(** models/conversion/scale.go : applyScaling (catalogue model ApplyScalingFactor;
    DeliveryRatio in delivery_ratio.go uses the same function). *)
From Coq Require Import ZArith List.
From OW Require Import Base.Arith Base.Mealy Kernels.C16Common.
Import ListNotations.

Section K.
  Context {T : Type} {A : Arith T}.
  Local Open Scope ar_scope.

  (** loop body: output[i] = incoming * scale *)
  Definition apply_scaling_row (scale : T) (incoming : T) : T := incoming * scale.
  Definition apply_scaling_step (scale : T) := loop_step (apply_scaling_row scale).

  (** if scale == 0.0 { return }  -- the output series is left untouched *)
  Definition apply_scaling (scale : T) (input : list T) : list T :=
    if scale =? zero then untouched input
    else snd (run (apply_scaling_step scale) tt input).

  Definition apply_scaling_factor_kernel (params states : list T) (inputs : list (list T))
    : option (list (list T) * list T) :=
    match params, inputs with
    | [scale], [input] => Some ([apply_scaling scale input], states)
    | _, _ => None
    end.
End K.
