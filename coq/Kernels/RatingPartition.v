(** models/conversion/rating_partition.go, with util/fn/piecewise.go
    (brackets, Piecewise) as this kernel uses it, and the parameter-column
    decoding of generated_RatingCurvePartition.go (FindDimensions /
    ApplyParameters / Run for one cell):
      column = nPts :: inputAmount[0..max) ++ proportion[0..max) , max = int(nPts)
    [None] = the Go code panics (error from Piecewise, the explicit NaN panic, or
    a panic of the wrapper on a malformed column). *)
From Coq Require Import ZArith List Bool.
From OW Require Import Base.Arith Base.Mealy Kernels.C16Common.
Import ListNotations.

Section K.
  Context {T : Type} {A : Arith T}.
  Local Open Scope ar_scope.

  (** the scanning loop of [brackets]:
        i = 0; for j = 1; j < n; j++ { if xs[j] >= x { return }; i += 1 }
      i is always j-1; the table is scanned as (x,y) pairs carrying the previous
      knot, so that the result is directly (x0, x1, y0, y1). *)
  Fixpoint rc_scan (x px py : T) (rest : list (T * T)) : option (T * T * T * T) :=
    match rest with
    | [] => None
    | (cx, cy) :: r => if cx >=? x then Some (px, cx, py, cy) else rc_scan x cx cy r
    end.

  (** brackets + the lookups of Piecewise; [None] = "Couldn't find brackets" *)
  Definition rc_brackets (x : T) (xs ys : list T) : option (T * T * T * T) :=
    match xs, ys with
    | x0 :: xr, y0 :: yr =>
        if x <? x0 then None
        else if x >? last xs x0 then None
        else rc_scan x x0 y0 (combine xr yr)
    | _, _ => None
    end.

  Definition rc_piecewise (x : T) (xs ys : list T) : option T :=
    match rc_brackets x xs ys with
    | Some (x0, x1, y0, y1) =>
        let frac := (x - x0) / (x1 - x0) in
        Some (y0 + frac * (y1 - y0))
    | None => None
    end.

  (** one loop iteration of ratingPartition *)
  Definition rating_partition_row (xs ys : list T) (incoming : T) : option (T * T) :=
    match rc_piecewise incoming xs ys with
    | None => None                                   (* panic(err) *)
    | Some frac =>
        if is_nan frac || is_nan incoming then None  (* panic("nan") *)
        else Some (incoming * frac, incoming * (one - frac))
    end.

  (** the time loop; state = "has not panicked yet" *)
  Definition rating_partition_step (xs ys : list T) (ok : bool) (incoming : T) : bool * (T * T) :=
    if ok then
      match rating_partition_row xs ys incoming with
      | Some o => (true, o)
      | None => (false, (zero, zero))
      end
    else (false, (zero, zero)).

  Definition rating_partition (xs ys : list T) (input : list T) : option (list T * list T) :=
    let '(ok, os) := run (rating_partition_step xs ys) true input in
    if ok then Some (map fst os, map snd os) else None.

  (** column decoding as the generated wrapper does it for a single cell *)
  Definition rating_table (params : list T) : option (list T * list T) :=
    match params with
    | nPts :: rest =>
        let n := truncZ nPts in
        if (n <? 0)%Z then None
        else if (n =? 0)%Z then
          (* zero-row slices at row 1 of the column: the wrapper panics only when the
             column has no second row; the empty table then fails at the first time step *)
          match rest with [] => None | _ :: _ => Some ([], []) end
        else if (Z.of_nat (length rest) <? 2 * n)%Z then None
        else let k := Z.to_nat n in
             Some (firstn k rest, firstn k (skipn k rest))
    | [] => None
    end.

  Definition rating_curve_partition_kernel (params states : list T) (inputs : list (list T))
    : option (list (list T) * list T) :=
    match rating_table params, inputs with
    | Some (xs, ys), [input] =>
        match rating_partition xs ys input with
        | Some (o1, o2) => Some ([o1; o2], states)
        | None => None
        end
    | _, _ => None
    end.
End K.
