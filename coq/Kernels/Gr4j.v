(** Model of models/rr/gr4j.go (C10, C15), written once over an [Arith]
    (definitions only; proofs are in KernelProofs/Gr4j.v).

    Conventions: Go constant expressions are ONE [of_q] (5.0/2.0, 4.0/9.0,
    7.0/2.0, 0.9, 0.1, -0.25, 0.25, 0.5); integer-valued literals are [of_Z];
    math.Pow -> [apow], math.Tanh -> [atanh] (the class's name for tanh),
    int() -> [truncZ].  The state vector is
       [s, r, n1, n2, q1 (n2 values), q9 (n1 values)]
    exactly as extractGR4JStates / packGR4JStates lay it out; n1 and n2 are
    read from the STATES (not recomputed from x4) as in the Go code. *)
From Coq Require Import ZArith List Bool.
From OW Require Import Base.Arith Base.Mealy.
Import ListNotations.

Section K.
  Context {T : Type} {A : Arith T}.
  Local Open Scope ar_scope.

  Definition c52 : T := of_q 5 2.

  (** SH1[i] after the loop and the final [SH1[n1-1] = 1.0] *)
  Definition gr4j_sh1 (x4 : T) (n1 i : nat) : T :=
    if Nat.eqb (S i) n1 then one
    else apow (of_Z (Z.of_nat i + 1) / x4) c52.

  (** SH2[i] after the single loop (t<=x4 / else) and [SH2[n2-1] = 1.0] *)
  Definition gr4j_sh2 (x4 : T) (n2 i : nat) : T :=
    if Nat.eqb (S i) n2 then one
    else let t := of_Z (Z.of_nat i + 1) in
         if t <=? x4 then of_q 1 2 * apow (t / x4) c52
         else one - of_q 1 2 * apow (of_Z 2 - t / x4) c52.

  (** UH[0] = SH[0]; UH[i] = SH[i] - SH[i-1] *)
  Definition uh_ord (sh : nat -> T) (i : nat) : T :=
    match i with O => sh O | S j => sh i - sh j end.
  Definition uh_of (sh : nat -> T) (n : nat) : list T := map (uh_ord sh) (seq 0 n).

  Definition gr4j_uh1 (x4 : T) (n1 : nat) : list T := uh_of (gr4j_sh1 x4 n1) n1.
  Definition gr4j_uh2 (x4 : T) (n2 : nat) : list T := uh_of (gr4j_sh2 x4 n2) n2.

  Record gr4j_par := { g_x1 : T; g_x2 : T; g_x3 : T; g_x4 : T;
                       g_uh1 : list T; g_uh2 : list T }.
  Record gr4j_st := { g_s : T; g_r : T; g_q1 : list T; g_q9 : list T }.

  (** q[i] = q[i] + (c * UH[i])   with c = Pr*0.9 resp. Pr*0.1 *)
  Fixpoint uh_add (c : T) (q uh : list T) : list T :=
    match q, uh with
    | a :: q', u :: uh' => (a + c * u) :: uh_add c q' uh'
    | _, _ => []
    end.
  (** for i:=1;i<n;i++ { q[i-1]=q[i] }; q[n-1]=0 *)
  Definition uh_shift (q : list T) : list T := tl q ++ [zero].

  Definition cap13 (ws : T) : T := if ws >? of_Z 13 then of_Z 13 else ws.

  (** Production store part of one day: returns (S after percolation, Pr = Perc + Pr) *)
  Definition gr4j_production (x1 S rain pet : T) : T * T :=
    let '(Ps, Es, Pr) :=
      if rain >? pet then
        let netRainfall := rain - pet in
        let ws := cap13 (netRainfall / x1) in
        let Ps := (x1 * (one - apow (S / x1) (of_Z 2)) * atanh ws) /
                  (one + (S / x1) * atanh ws) in
        (Ps, zero, netRainfall - Ps)
      else
        let netET := pet - rain in
        let ws := cap13 (netET / x1) in
        let tws := atanh ws in
        let Es := (S * (of_Z 2 - S / x1) * tws) / (one + (one - S / x1) * tws) in
        (zero, Es, zero) in
    let S1 := S - Es + Ps in
    let Perc := S1 * (one - apow (one + apow (of_q 4 9 * (S1 / x1)) (of_Z 4)) (of_q (-1) 4)) in
    (S1 - Perc, Perc + Pr).

  (** Routing store and direct branch: returns (R', qtot) *)
  Definition gr4j_routing (x2 x3 R Q9 Q1 : T) : T * T :=
    let ech := x2 * apow (R / x3) (of_q 7 2) in
    let R1 := R + Q9 + ech in
    let R2 := if R1 <? zero then zero else R1 in
    let Qr := R2 - R2 / apow (one + apow (R2 / x3) (of_Z 4)) (of_q 1 4) in
    let R3 := R2 - Qr in
    let Tp := Q1 + ech in
    let Qd := if Tp >? zero then Q1 + ech else zero in
    (R3, Qr + Qd).

  (** One iteration of the day loop.  [nth 0 _ zero] is never out of range:
      the kernel only runs with length q9 = n1 >= 1 and length q1 = n2 >= 1. *)
  Definition gr4j_step (p : gr4j_par) (st : gr4j_st) (io : T * T) : gr4j_st * T :=
    let '(rain, pet) := io in
    let '(S2, Pr) := gr4j_production (g_x1 p) (g_s st) rain pet in
    let q9a := uh_add (Pr * of_q 9 10) (g_q9 st) (g_uh1 p) in
    let q1a := uh_add (Pr * of_q 1 10) (g_q1 st) (g_uh2 p) in
    let Q9 := nth 0 q9a zero in
    let Q1 := nth 0 q1a zero in
    let '(R3, qtot) := gr4j_routing (g_x2 p) (g_x3 p) (g_r st) Q9 Q1 in
    ({| g_s := S2; g_r := R3; g_q1 := uh_shift q1a; g_q9 := uh_shift q9a |}, qtot).

  Definition gr4j_mkpar (x1 x2 x3 x4 : T) (n1 n2 : nat) : gr4j_par :=
    {| g_x1 := x1; g_x2 := x2; g_x3 := x3; g_x4 := x4;
       g_uh1 := gr4j_uh1 x4 n1; g_uh2 := gr4j_uh2 x4 n2 |}.

  Definition gr4j_run (x1 x2 x3 x4 : T) (n1 n2 : nat) (st : gr4j_st) (io : list (T * T))
    : gr4j_st * list T :=
    run (gr4j_step (gr4j_mkpar x1 x2 x3 x4 n1 n2)) st io.

  (** initGR4J: [0, 0, ceil(x4), ceil(2*x4), zeros] *)
  Definition gr4j_init (x4 : T) : list T :=
    let n1 := truncZ (aceil x4) in
    let n2 := truncZ (aceil (of_Z 2 * x4)) in
    [zero; zero; of_Z n1; of_Z n2] ++ repeat zero (Z.to_nat n2) ++ repeat zero (Z.to_nat n1).

  (** The kernel as the generated wrapper runs it on one cell.  [None] = Go panics:
      fewer than 4 states, n1 < 1 or n2 < 1 (make / SH[n-1] index), state vector
      shorter than 4+n1+n2 (slice bounds).  Extra trailing states are left untouched. *)
  Definition gr4j_kernel (params states : list T) (inputs : list (list T))
    : option (list (list T) * list T) :=
    match params, inputs with
    | [x1; x2; x3; x4], [rain; pet] =>
        match states with
        | s :: r :: fn1 :: fn2 :: rest =>
            let n1 := truncZ fn1 in
            let n2 := truncZ fn2 in
            if ((1 <=? n1) && (1 <=? n2) && (n1 + n2 <=? Z.of_nat (length rest)))%Z then
              let k1 := Z.to_nat n1 in
              let k2 := Z.to_nat n2 in
              let st := {| g_s := s; g_r := r; g_q1 := firstn k2 rest;
                           g_q9 := firstn k1 (skipn k2 rest) |} in
              let '(st', qs) := gr4j_run x1 x2 x3 x4 k1 k2 st (combine rain pet) in
              Some ([qs], g_s st' :: g_r st' :: of_Z n1 :: of_Z n2 ::
                          g_q1 st' ++ g_q9 st' ++ skipn (k2 + k1) rest)
            else None
        | _ => None
        end
    | _, _ => None
    end.
End K.
