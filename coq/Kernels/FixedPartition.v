(** models/conversion/fixed_partition.go *)
From Coq Require Import ZArith List.
From OW Require Import Base.Arith Base.Mealy Kernels.C16Common.
Import ListNotations.

Section K.
  Context {T : Type} {A : Arith T}.
  Local Open Scope ar_scope.

  Definition fixed_partition_row (fraction : T) (incoming : T) : T * T :=
    (incoming * fraction, incoming * (one - fraction)).
  Definition fixed_partition_step (fraction : T) := loop_step (fixed_partition_row fraction).

  Definition fixed_partition_kernel (params states : list T) (inputs : list (list T))
    : option (list (list T) * list T) :=
    match params, inputs with
    | [fraction], [input] =>
        let os := snd (run (fixed_partition_step fraction) tt input) in
        Some ([map fst os; map snd os], states)
    | _, _ => None
    end.
End K.
