(** Shared helpers for the stateless per-timestep kernels of C16
    (models/conversion, models/functions, models/generation): a forward Go
    time loop [for i := 0; i < n; i++ { out[i] = f(in[i]) }] is a Mealy machine
    with a trivial state.  Definitions only. *)
From Coq Require Import ZArith List.
From OW Require Import Base.Arith Base.Mealy.
Import ListNotations.

Definition loop_step {I O : Type} (f : I -> O) (s : unit) (x : I) : unit * O := (s, f x).
Definition time_loop {I O : Type} (f : I -> O) (xs : list I) : list O :=
  snd (run (loop_step f) tt xs).

Section K.
  Context {T : Type} {A : Arith T}.
  (** an output series the Go function never writes: stays at the zero the
      wrapper's caller allocated it with (sim.InitialiseOutputs) *)
  Definition untouched {I : Type} (xs : list I) : list T := map (fun _ => zero) xs.
End K.
