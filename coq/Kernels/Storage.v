(** Model of models/storage/storage.go (C13): [storageWaterBalance] with its
    closures, written once over [Arith] (definitions only; the proofs are in
    KernelProofs/Storage.v).

    Conventions
    - every Go [if] is one Gallina [if]; Go panics (explicit [panic], index out
      of range, [panic(err)] on a Piecewise error) are [None] / [TPanic] /
      [OPanic] / [SPanic];
    - the two loops of the adaptive scheme carry explicit fuel; exhausting it is
      the distinguished outcome [IFuel] / [OFuel] / [SFuel] (never a value).
      KernelProofs/Storage.v proves that over the reals it is never reached;
    - Go constants: 0.5 = [of_q 1 2], 2 / 2.0 = [of_Z 2], 1e-3 = [of_q 1 1000], ...
      each literal rounded once;
    - the ghost output of a time step also lists the accepted sub-steps
      ([substep] records).  [storage_kernel] (what is run against the Go code)
      projects them away; [storage_trace] prints them for the check script.

    The model of util/fn/piecewise.go used here is local ([st_brackets_loop],
    [st_piecewise]) so that this file does not depend on Num/Piecewise.v. *)
From Coq Require Import ZArith List Bool.
From OW Require Import Base.Arith Base.Mealy.
Import ListNotations.

(** ** Generic bounded iteration with binary fuel and early exit.
    [iter_pos p f s] applies [f] at most [p] times, stopping at the first [inr];
    it is [iter_nat (Pos.to_nat p) f s] (proved in KernelProofs). *)
Section Iter.
  Context {S R : Type}.
  Variable f : S -> S + R.
  Fixpoint iter_nat (n : nat) (s : S) : S + R :=
    match n with
    | O => inl s
    | Datatypes.S k => match f s with inl s' => iter_nat k s' | inr r => inr r end
    end.
  Fixpoint iter_pos (p : positive) (s : S) : S + R :=
    match p with
    | xH => f s
    | xO q => match iter_pos q s with inl s' => iter_pos q s' | inr r => inr r end
    | xI q => match f s with
              | inl s1 => match iter_pos q s1 with inl s2 => iter_pos q s2 | inr r => inr r end
              | inr r => inr r
              end
    end.
End Iter.

Section K.
  Context {T : Type} {A : Arith T}.
  Local Open Scope ar_scope.

  (** *** constants of storage.go / conv/units *)
  Definition MIN_TIMESTEP_SECONDS_NEGATIVE : T := of_Z 6.
  Definition MIN_TIMESTEP_SECONDS_POSITIVE : T := of_Z 60.
  Definition ALLOWED_REL_ERROR_RELEASE_RATE : T := of_q 1 100000.
  Definition ALLOWED_ABS_ERROR_RELEASE_RATE : T := of_q 1 10000.
  Definition ESSENTIALLY_ZERO_RELEASE_RATE : T := of_q 1 10000.
  Definition MILLIMETRES_TO_METRES : T := of_q 1 1000.
  Definition half : T := of_q 1 2.

  (** *** util/fn/piecewise.go *)
  (** [for j = 1; j < n; j++ { if xs[j] >= x { return }; i += 1 }]; [i] is Go's i (= j-1),
      [rest] = xs[j..]; [None] is the (-1,-1) answer *)
  Fixpoint st_brackets_loop (x : T) (rest : list T) (i : nat) : option (nat * nat) :=
    match rest with
    | [] => None
    | v :: r => if v >=? x then Some (i, S i) else st_brackets_loop x r (S i)
    end.

  (** [None] = Go panics: index out of range on an empty table, or the caller
      ([cappedPiecewise]) panics with the error Piecewise returned. *)
  Definition st_piecewise (x : T) (xs ys : list T) : option T :=
    match xs with
    | [] => None
    | x0 :: r =>
        if x <? x0 then None
        else if x >? last xs x0 then None
        else match st_brackets_loop x r O with
             | None => None
             | Some (i, j) =>
                 match nth_error xs i, nth_error xs j, nth_error ys i, nth_error ys j with
                 | Some xi, Some xj, Some yi, Some yj =>
                     let frac := (x - xi) / (xj - xi) in
                     Some (yi + frac * (yj - yi))
                 | _, _, _, _ => None
                 end
             end
    end.

  (** *** one cell's tables, as the generated wrapper slices them (each of length nLVA) *)
  Record tables := {
    nlva : nat;
    t_levels : list T; t_volumes : list T; t_areas : list T;
    t_minRelease : list T; t_maxRelease : list T
  }.

  (** values captured once at the top of storageWaterBalance *)
  Record curves := {
    tb : tables;
    volCurveMin : T;     (* volumes[0] *)
    volCurveMax : T;     (* volumes[nLVA-1] *)
    maxSpill : T         (* minRelease[nLVA-1] *)
  }.

  Definition capped_piecewise (cv : curves) (vol : T) (ys : list T) : option T :=
    if vol <? volCurveMin cv then nth_error ys 0
    else if vol >? volCurveMax cv then nth_error ys (nlva (tb cv) - 1)
    else st_piecewise vol (t_volumes (tb cv)) ys.

  Definition release_rate (cv : curves) (demand vol : T) : option T :=
    match capped_piecewise cv vol (t_minRelease (tb cv)) with
    | None => None
    | Some minRel =>
        if demand <? minRel then Some minRel
        else match capped_piecewise cv vol (t_maxRelease (tb cv)) with
             | None => None
             | Some maxRel => if demand >? maxRel then Some maxRel else Some demand
             end
    end.

  Definition release_rates_close_enough (a b : T) : bool :=
    let absError := aabs (a - b) in
    if absError <? ALLOWED_ABS_ERROR_RELEASE_RATE then true
    else if (aabs a <? ESSENTIALLY_ZERO_RELEASE_RATE) && (aabs b <? ESSENTIALLY_ZERO_RELEASE_RATE) then true
    else let relError := absError / a in
         if relError >? ALLOWED_REL_ERROR_RELEASE_RATE then false else true.

  (** data.ND1Float64.Maximum: res = xs[0]; for v in xs { if v > res { res = v } } *)
  Definition maximum (xs : list T) : option T :=
    match xs with
    | [] => None
    | x0 :: _ => Some (fold_left (fun res v => if v >? res then v else res) xs x0)
    end.

  (** checkStorageConfiguration: [true] = an error is returned *)
  Definition storage_configuration_error (n : nat) (volumes : list T) : option bool :=
    if Nat.eqb n 0 then Some true
    else match maximum volumes with
         | None => None
         | Some m => if m <=? zero then Some true else Some false
         end.

  (** *** the inner trial loop: [for { ... }] with halving *)
  Inductive trial :=
  | TAccept (vp estAfter avgOutflow avgArea : T)   (* break *)
  | TRetry (h' : T)                               (* next trial with the reduced sub-step *)
  | TPanic.

  (** the values that stay fixed during one pass of [for timeRemaining > 0] *)
  Record pass := {
    p_volume : T; p_inflow : T; p_demand : T; p_net : T;
    p_estOutflow : T; p_area : T
  }.

  Definition halve (h : T) : T := amax (h * half) MIN_TIMESTEP_SECONDS_NEGATIVE.

  Definition trial_step (cv : curves) (p : pass) (h : T) : trial :=
    let testVol := p_volume p + ((p_inflow p - p_estOutflow p) + (p_net p * p_area p)) * h in
    if testVol <? zero then
      if h <=? MIN_TIMESTEP_SECONDS_NEGATIVE then TPanic
      else (* halved inside the branch and again at the end of the loop body *)
        TRetry (halve (halve h))
    else
      match capped_piecewise cv ((testVol + p_volume p) / of_Z 2) (t_areas (tb cv)) with
      | None => TPanic
      | Some avgArea =>
          let vp := p_volume p + ((p_inflow p - p_estOutflow p) + (p_net p * avgArea)) * h in
          match release_rate cv (p_demand p) vp with
          | None => TPanic
          | Some estOutflowAfter =>
              let avgOutflow := (estOutflowAfter + p_estOutflow p) / of_Z 2 in
              let testVol := p_volume p + ((p_inflow p - avgOutflow) + (p_net p * avgArea)) * h in
              if testVol >=? zero then
                if release_rates_close_enough (p_estOutflow p) avgOutflow then
                  TAccept vp estOutflowAfter avgOutflow avgArea
                else if h <=? MIN_TIMESTEP_SECONDS_POSITIVE then
                  TAccept vp estOutflowAfter avgOutflow avgArea
                else TRetry (halve h)
              else if h <=? MIN_TIMESTEP_SECONDS_NEGATIVE then TPanic
              else TRetry (halve h)
          end
      end.

  Inductive inner_result :=
  | IAccept (h vp estAfter avgOutflow avgArea : T)
  | IPanic
  | IFuel.

  Fixpoint inner_loop (fuel : nat) (cv : curves) (p : pass) (h : T) : inner_result :=
    match fuel with
    | O => IFuel
    | S f => match trial_step cv p h with
             | TAccept vp ea ao aa => IAccept h vp ea ao aa
             | TPanic => IPanic
             | TRetry h' => inner_loop f cv p h'
             end
    end.

  (** *** ghost record of one accepted sub-step *)
  Record substep := {
    ss_v0 : T;        (* volume at the start of the sub-step *)
    ss_h : T;         (* accepted sub-step length (s) *)
    ss_est : T;       (* releaseRate(demand, v0) *)
    ss_vp : T;        (* predicted end volume at which the release is re-evaluated *)
    ss_after : T;     (* releaseRate(demand, vp) *)
    ss_out : T;       (* avgOutflow *)
    ss_area : T;      (* avgArea *)
    ss_vmid : T;      (* volume after the sub-step, before spilling *)
    ss_spill : T;     (* excessOutflowVolume (0 when volume <= volCurveMax) *)
    ss_v1 : T         (* volume after spilling *)
  }.

  (** *** the outer loop [for timeRemaining > 0] of one time step *)
  Record ostate := {
    o_volume : T; o_timeRemaining : T; o_subtimestep : T;
    o_outflowVolume : T; o_rainfallVol : T; o_evaporationVol : T;
    o_trace : list substep      (* ghost, most recent first *)
  }.

  Inductive oresult :=
  | ODone (s : ostate)
  | OPanic
  | OFuel.

  (** per-time-step inputs *)
  Record tsin := {
    i_rainfall : T; i_pet : T; i_inflow : T; i_demand : T;
    i_targetMinimumVolume : T; i_targetMinimumCapacity : T
  }.

  (** values computed once per time step before the loop *)
  Record tsctx := {
    c_inflow : T; c_origDemand : T; c_targetMaxVol : T;
    c_rainfallPerSecond : T; c_petPerSecond : T; c_net : T
  }.

  Definition autoAdjustDemand : bool := false.

  Definition outer_step (inner_fuel : nat) (cv : curves) (c : tsctx) (s : ostate) : ostate + oresult :=
    if o_timeRemaining s >? zero then
      let volume := o_volume s in
      let subtimestep := amin (o_timeRemaining s) (o_subtimestep s * of_Z 2) in
      let demand :=
        if autoAdjustDemand && (volume >? c_targetMaxVol c)
        then amax (c_origDemand c) ((of_q 1 10000 * (volume - c_targetMaxVol c)) / subtimestep)
        else c_origDemand c in
      match release_rate cv demand volume with
      | None => inr OPanic
      | Some estOutflow =>
          match capped_piecewise cv volume (t_areas (tb cv)) with
          | None => inr OPanic
          | Some area =>
              let p := {| p_volume := volume; p_inflow := c_inflow c; p_demand := demand;
                          p_net := c_net c; p_estOutflow := estOutflow; p_area := area |} in
              match inner_loop inner_fuel cv p subtimestep with
              | IPanic => inr OPanic
              | IFuel => inr OFuel
              | IAccept h vp estAfter avgOutflow avgArea =>
                  let outflowVolume := o_outflowVolume s + avgOutflow * h in
                  let rainfallVol := o_rainfallVol s +
                      ((c_rainfallPerSecond c * MILLIMETRES_TO_METRES) * avgArea) * h in
                  let evaporationVol := o_evaporationVol s +
                      ((c_petPerSecond c * MILLIMETRES_TO_METRES) * avgArea) * h in
                  let vmid := volume + ((c_inflow c + (c_net c * avgArea)) - avgOutflow) * h in
                  if vmid <? zero then inr OPanic       (* panic(err) *)
                  else
                    let '(v1, outflowVolume1, spill) :=
                      if vmid >? volCurveMax cv then
                        let overTopRatio := amin (vmid / volCurveMax cv) (of_Z 2) in
                        let excessOutflow := amax ((overTopRatio * maxSpill cv) - avgOutflow) zero in
                        let excessOutflowVolume := excessOutflow * h in
                        let excessOutflowVolume :=
                          amax (amin excessOutflowVolume (vmid - volCurveMax cv)) zero in
                        (vmid - excessOutflowVolume, outflowVolume + excessOutflowVolume, excessOutflowVolume)
                      else (vmid, outflowVolume, zero) in
                    inl {| o_volume := v1;
                           o_timeRemaining := o_timeRemaining s - h;
                           o_subtimestep := h;
                           o_outflowVolume := outflowVolume1;
                           o_rainfallVol := rainfallVol;
                           o_evaporationVol := evaporationVol;
                           o_trace := {| ss_v0 := volume; ss_h := h; ss_est := estOutflow; ss_vp := vp;
                                         ss_after := estAfter; ss_out := avgOutflow; ss_area := avgArea;
                                         ss_vmid := vmid; ss_spill := spill; ss_v1 := v1 |} :: o_trace s |}
              end
          end
      end
    else inr (ODone s).

  (** *** fuel: computed from deltaT and the MIN_TIMESTEP constants.
      Inner loop: every retry at least halves the sub-step down to the floor 6,
      so [log2_up (trunc deltaT + 1) + 1] trials suffice.  Outer loop: every
      accepted sub-step but the last is at least 6 s long, so
      [trunc deltaT / 6 + 2] passes suffice. *)
  Definition inner_fuel (deltaT : T) : nat := S (S (Z.to_nat (Z.log2_up (truncZ deltaT + 1)))).
  Definition outer_fuel (deltaT : T) : positive := Z.to_pos (truncZ deltaT / 6 + 2).

  (** what one time step writes: volumeTS, outflowTS, rainfallVolume, evaporationVolume
      (+ ghost list of accepted sub-steps in execution order) *)
  Record tsout := {
    r_volume : T; r_outflow : T; r_rainfallVolume : T; r_evaporationVolume : T;
    r_substeps : list substep
  }.

  Definition ts_context (cv : curves) (deltaT : T) (x : tsin) : tsctx :=
    let rainfallPerSecond := i_rainfall x / deltaT in
    let petPerSecond := i_pet x / deltaT in
    {| c_inflow := i_inflow x; c_origDemand := i_demand x;
       c_targetMaxVol := volCurveMax cv - i_targetMinimumCapacity x;
       c_rainfallPerSecond := rainfallPerSecond; c_petPerSecond := petPerSecond;
       c_net := (rainfallPerSecond - petPerSecond) * MILLIMETRES_TO_METRES |}.

  Definition ts_initial (deltaT volume : T) : ostate :=
    {| o_volume := volume; o_timeRemaining := deltaT; o_subtimestep := deltaT;
       o_outflowVolume := zero; o_rainfallVol := zero; o_evaporationVol := zero; o_trace := [] |}.

  Definition ts_loop (cv : curves) (deltaT : T) (c : tsctx) (volume : T) : oresult :=
    match iter_pos (outer_step (inner_fuel deltaT) cv c) (outer_fuel deltaT) (ts_initial deltaT volume) with
    | inl _ => OFuel
    | inr r => r
    end.

  (** state of the time-stepping machine: the volume, or a sticky failure *)
  Inductive sstate :=
  | SOk (volume : T)
  | SPanic
  | SFuel.

  Definition storage_step (cv : curves) (deltaT : T) (s : sstate) (x : tsin) : sstate * option tsout :=
    match s with
    | SOk volume =>
        match ts_loop cv deltaT (ts_context cv deltaT x) volume with
        | ODone f =>
            (SOk (o_volume f),
             Some {| r_volume := o_volume f;
                     r_outflow := o_outflowVolume f / deltaT;
                     r_rainfallVolume := o_rainfallVol f / deltaT;
                     r_evaporationVolume := o_evaporationVol f / deltaT;
                     r_substeps := rev (o_trace f) |})
        | OPanic => (SPanic, None)
        | OFuel => (SFuel, None)
        end
    | SPanic => (SPanic, None)
    | SFuel => (SFuel, None)
    end.

  (** *** whole run of storageWaterBalance for one cell *)
  Inductive storage_result :=
  | RConfigError (n : nat)                       (* early return: outputs untouched, (0,0,0) returned *)
  | ROk (outs : list tsout) (volume level area : T)
  | RPanic
  | RFuel.

  Definition make_curves (tbl : tables) : option curves :=
    match nth_error (t_volumes tbl) 0, nth_error (t_volumes tbl) (nlva tbl - 1),
          nth_error (t_minRelease tbl) (nlva tbl - 1) with
    | Some v0, Some vN, Some ms =>
        (* idxCurveN = nLVA-1 is -1 for nLVA = 0: Go panics *)
        if Nat.eqb (nlva tbl) 0 then None
        else Some {| tb := tbl; volCurveMin := v0; volCurveMax := vN; maxSpill := ms |}
    | _, _, _ => None
    end.

  Fixpoint all_some {X : Type} (l : list (option X)) : option (list X) :=
    match l with
    | [] => Some []
    | Some x :: r => match all_some r with Some xs => Some (x :: xs) | None => None end
    | None :: _ => None
    end.

  Definition storage_water_balance (tbl : tables) (deltaT initialVolume : T) (xs : list tsin) : storage_result :=
    match make_curves tbl with
    | None => RPanic
    | Some cv =>
        match storage_configuration_error (nlva tbl) (t_volumes tbl) with
        | None => RPanic
        | Some true => RConfigError (length xs)
        | Some false =>
            match run (storage_step cv deltaT) (SOk initialVolume) xs with
            | (SOk volume, outs) =>
                match all_some outs, capped_piecewise cv volume (t_levels tbl),
                      capped_piecewise cv volume (t_areas tbl) with
                | Some os, Some level, Some area => ROk os volume level area
                | _, _, _ => RPanic
                end
            | (SPanic, _) => RPanic
            | (SFuel, _) => RFuel
            end
        end
    end.

  (** *** the parameter column of one cell as the generated wrapper lays it out
      for a single-cell run: DeltaT, nLVA, then five tables of max-nLVA (= nLVA) rows *)
  Definition parse_params (params : list T) : option (T * tables) :=
    match params with
    | deltaT :: nl :: rest =>
        let n := Z.to_nat (truncZ nl) in
        if (truncZ nl <? 0)%Z then None
        else if Nat.eqb (length rest) (5 * n) then
          Some (deltaT,
                {| nlva := n;
                   t_levels := firstn n rest;
                   t_volumes := firstn n (skipn n rest);
                   t_areas := firstn n (skipn (2 * n) rest);
                   t_minRelease := firstn n (skipn (3 * n) rest);
                   t_maxRelease := firstn n (skipn (4 * n) rest) |})
        else None
    | _ => None
    end.

  Fixpoint zip_inputs (r p i d tv tc : list T) : list tsin :=
    match r, p, i, d, tv, tc with
    | r0 :: r', p0 :: p', i0 :: i', d0 :: d', tv0 :: tv', tc0 :: tc' =>
        {| i_rainfall := r0; i_pet := p0; i_inflow := i0; i_demand := d0;
           i_targetMinimumVolume := tv0; i_targetMinimumCapacity := tc0 |} :: zip_inputs r' p' i' d' tv' tc'
    | _, _, _, _, _, _ => []
    end.

  Definition storage_run (params states : list T) (inputs : list (list T)) : storage_result :=
    match parse_params params, states, inputs with
    | Some (deltaT, tbl), [v0; _; _], [r; p; i; d; tv; tc] =>
        storage_water_balance tbl deltaT v0 (zip_inputs r p i d tv tc)
    | _, _, _ => RPanic
    end.

  (** driver-facing kernel: outputs volume, outflow, rainfallVolume, evaporationVolume;
      states currentVolume, level, area.  Fuel exhaustion is also [None] here (it can
      then never agree with a normal Go result); [storage_trace] distinguishes it. *)
  Definition storage_kernel (params states : list T) (inputs : list (list T))
    : option (list (list T) * list T) :=
    match storage_run params states inputs with
    | ROk os v l a =>
        Some ([ map r_volume os; map r_outflow os; map r_rainfallVolume os; map r_evaporationVolume os ],
              [v; l; a])
    | RConfigError n =>
        let z := repeat zero n in Some ([z; z; z; z], [zero; zero; zero])
    | RPanic => None
    | RFuel => None
    end.

  (** the kernel result together with the number of accepted sub-steps of every time step
      (one evaluation of [storage_run]; for long runs whose full trace is too large to print) *)
  Definition storage_kernel_counts (params states : list T) (inputs : list (list T))
    : option (list (list T) * list T) * list nat :=
    match storage_run params states inputs with
    | ROk os v l a =>
        (Some ([ map r_volume os; map r_outflow os; map r_rainfallVolume os; map r_evaporationVolume os ],
               [v; l; a]),
         map (fun o => length (r_substeps o)) os)
    | RConfigError n =>
        let z := repeat zero n in (Some ([z; z; z; z], [zero; zero; zero]), [])
    | RPanic => (None, [])
    | RFuel => (None, [])
    end.

  (** ghost view for the check script: outcome and, per time step, the accepted
      sub-steps flattened to [h; avgOutflow; avgArea; spill; v0; vp; v1] *)
  Inductive trace_code := TCOk | TCConfigError | TCPanic | TCFuel.
  Definition storage_trace (params states : list T) (inputs : list (list T))
    : trace_code * list (list T) :=
    match storage_run params states inputs with
    | ROk os _ _ _ =>
        (TCOk, map (fun o => concat (map (fun s => [ss_h s; ss_out s; ss_area s; ss_spill s;
                                                   ss_v0 s; ss_vp s; ss_v1 s]) (r_substeps o))) os)
    | RConfigError _ => (TCConfigError, [])
    | RPanic => (TCPanic, [])
    | RFuel => (TCFuel, [])
    end.
End K.
