(** Model of models/routing/storage_routing.go (C11), written once over [Arith].
    Definitions only; proofs are in KernelProofs/StorageRouting.v.

    Structure kept from the Go code:
      storageRouting   -> [sr_setup] (the bias / power special-casing before the loop)
                          + [sr_step] (one loop iteration) run as a Mealy machine
      calcOutflow      -> [calc_outflow], every exit kept, returning ALSO the exit-path id
      runRouting       -> [run_routing]   ([None] = its panic("outflow is nan"))
      slopeOfMassBalance -> [slope_of_mass_balance]
      fn.FindRoot      -> Kernels/StorageRoutingRoot.v

    Exit paths of [calc_outflow] (ids used by the theorems and by tools/c11.py):
      1  delta(minQI) >= massBalanceLimit : "too little water for any outflow";
         outflow 0, storage = mass-balance storage
      2  |delta(minQI)| < massBalanceLimit : zero index flow is the solution
      3  maxQI <= minQI : "fluxes exceed inflow and storage"; outflow 0
      4  delta(maxQI) < massBalanceLimit : maximum possible index flow; outflow = all water available
      5  the carried index flow (or the mid point) already balances : |delta| < massBalanceLimit
      6  FindRoot, and the re-evaluated |delta| < massBalanceLimit  (converged)
      7  FindRoot, and the re-evaluated |delta| >= massBalanceLimit (returned on the
         iteration limit or on the convergenceLimit test without balancing)
    [None] = one of the Go panics ("NAN!", "outflow is nan", "delta is NaN", "Invalid range").

    Order of the parameters (generated wrapper): InflowBias, RoutingConstant, RoutingPower,
    area, deadStorage, DeltaT.  States: S, prevInflow, prevOutflow.  Inputs:
    inflow, lateral, rainfall, evap.  Outputs: outflow, storage. *)
From Coq Require Import ZArith List Bool.
From OW Require Import Base.Arith Base.Mealy Kernels.StorageRoutingRoot.
Import ListNotations.

Section K.
  Context {T : Type} {A : Arith T}.
  Local Open Scope ar_scope.

  Definition massBalanceLimit : T := of_q 1 1000.           (* 1e-3 *)
  Definition negMassBalanceLimit : T := of_q (-1) 1000.     (* -massBalanceLimit *)
  Definition convergenceLimit : T := of_q 1 100000000.      (* 1e-8 *)
  Definition maxIterations : nat := 20.
  (** the Go constant 1e37 = 8470329472543003 * 2^70 as a binary64 *)
  Definition c1e37 : T := of_Z 8470329472543003 * of_Z 34359738368 * of_Z 34359738368.

  (** the quantities fixed before the time loop *)
  Record sr_params := mkP {
    p_bias : T; p_k : T (* RoutingConstant *); p_x : T (* RoutingPower *);
    p_area : T; p_dead : T; p_dt : T;
    p_Qlimit : T; p_Klimit : T; p_Koffset : T }.

  Definition sr_setup (bias k x area dead dt : T) : sr_params :=
    if aabs bias <? of_q 1 1000 then
      mkP zero k x area dead dt (if x >? one then c1e37 else zero) k zero
    else if aabs (x - one) <? of_q 1 1000 then
      mkP bias k one area dead dt zero k zero
    else
      let Klimit := dt / bias in
      let Qlimit := apow (Klimit / (x * k)) (one / (x - one)) in
      let Koffset := if x <? one then Qlimit * Klimit * (one - x) / x else zero in
      mkP bias k x area dead dt Qlimit Klimit Koffset.

  (** which branch of the storage-discharge relation applies at index flow q:
      (routingPower <= 1.0 && q < Qlimit) || (routingPower > 1.0 && q > Qlimit) *)
  Definition linear_branch (p : sr_params) (q : T) : bool :=
    ((p_x p <=? one) && (q <? p_Qlimit p)) || ((p_x p >? one) && (q >? p_Qlimit p)).

  (** SIndex of runRouting *)
  Definition s_index (p : sr_params) (q : T) : T :=
    if q <=? zero then p_dead p
    else if linear_branch p q then p_Klimit p * q + p_dead p
    else p_k p * apow q (p_x p) - p_Koffset p + p_dead p.

  (** net evaporation flux as the code defines it: min(initialFluxMax, area*netEvapRate) *)
  Definition net_evap_flux (p : sr_params) (ifm rate : T) : T := amin ifm (p_area p * rate).

  (** newStorage of runRouting *)
  Definition new_storage (p : sr_params) (inflow lateral ifm storage rate : T) : T :=
    amax (storage + (inflow + lateral - net_evap_flux p ifm rate) * p_dt p) zero.

  (** runRouting: (massBalance, outflow, SIndex); [None] = panic("outflow is nan") *)
  Definition run_routing (p : sr_params) (inflow lateral ifm storage rate : T) (q : T)
    : option (T * T * T) :=
    let SIndex := s_index p q in
    let newStorage := new_storage p inflow lateral ifm storage rate in
    let massBalance :=
      if p_bias p <? of_q 999 1000
      then (q - p_bias p * (inflow + lateral)) * p_dt p / (one - p_bias p) + SIndex - newStorage
      else zero in
    let outflow := amax zero (newStorage - SIndex) / p_dt p in
    if is_nan outflow then None else Some (massBalance, outflow, SIndex).

  Definition slope_of_mass_balance (p : sr_params) (q : T) : T :=
    let d := p_dt p / (one - p_bias p) in
    if linear_branch p q then d + p_Klimit p
    else if q >? zero then d + p_k p * p_x p * apow q (p_x p - one)
    else d.

  (** result of calcOutflow: (qi, outflow, storage) and the exit path *)
  Definition co_result := (T * T * T * nat)%type.

  Definition calc_outflow (p : sr_params) (inflow lateral prevQi prevStorage rate : T)
    : option co_result :=
    let ifm := amax zero prevStorage / p_dt p + inflow in             (* initialFluxMax *)
    let eval := run_routing p inflow lateral ifm prevStorage rate in   (* evaluateRouting *)
    if is_nan (p_bias p) || is_nan inflow || is_nan lateral then None  (* panic("NAN!") *)
    else
    let minQI := p_bias p * (inflow + lateral) in
    match eval minQI with
    | None => None
    | Some (delta, _, storage0) =>
    if delta >=? massBalanceLimit then
      Some (minQI, zero,
            amax (prevStorage + (inflow + lateral - amin ifm (p_area p * rate)) * p_dt p) zero, 1%nat)
    else if delta >=? negMassBalanceLimit then
      match eval minQI with
      | None => None
      | Some (_, outflow, storage) => Some (minQI, outflow, storage, 2%nat)
      end
    else
    let nef := amin ifm (p_area p * rate) in                           (* netEvaporationFlux *)
    let fluxmax := ifm - nef in
    let maxQI := minQI + (one - p_bias p) * amax zero (fluxmax + lateral) in
    if maxQI <=? minQI then Some (minQI, zero, storage0, 3%nat)
    else
    match eval maxQI with
    | None => None
    | Some (delta, _, _) =>
    if delta <? massBalanceLimit then
      let outflow := amax zero (ifm - nef) in
      Some (maxQI, outflow,
            amax (prevStorage + (inflow + lateral - nef - outflow) * p_dt p) zero, 4%nat)
    else
    let qi := if (prevQi <=? minQI) || (prevQi >=? maxQI) then (minQI + maxQI) * of_q 1 2 else prevQi in
    match eval qi with
    | None => None
    | Some (delta, outflow, storage) =>
    if aabs delta <? massBalanceLimit then Some (qi, outflow, storage, 5%nat)
    else
    match sr_find_root (fun q => match eval q with Some (d, _, _) => Some d | None => None end)
                       (Some (slope_of_mass_balance p))
                       massBalanceLimit convergenceLimit minQI minQI maxQI maxIterations with
    | None => None
    | Some (qi, delta) =>
    if is_nan delta then None                                          (* panic("delta is NaN") *)
    else
    match eval qi with
    | None => None
    | Some (delta, outflow, storage) =>
        Some (qi, outflow, storage, if aabs delta <? massBalanceLimit then 6%nat else 7%nat)
    end end end end end.

  (** loop state of storageRouting: qi, outflow, storage, inflow (the last read) *)
  Record sr_state := mkS { st_qi : T; st_outflow : T; st_storage : T; st_inflow : T }.

  (** one input record: inflow, lateral, rainfall, evap *)
  Definition sr_input := (T * T * T * T)%type.
  (** one output record: outflow, storage, exit path *)
  Definition sr_output := (T * T * nat)%type.

  Definition evap_rate (p : sr_params) (rainfall evap : T) : T := (evap - rainfall) / p_dt p.

  (** one iteration of the time loop; [None] = panic *)
  Definition sr_step (p : sr_params) (s : sr_state) (i : sr_input) : option (sr_state * sr_output) :=
    let '(inflow, lateral, rainfall, evap) := i in
    match calc_outflow p inflow lateral (st_qi s) (st_storage s) (evap_rate p rainfall evap) with
    | None => None
    | Some (qi, outflow, storage, path) => Some (mkS qi outflow storage inflow, (outflow, storage, path))
    end.

  (** the loop as a Mealy machine over [option] states (a panic is absorbing) *)
  Definition sr_mstep (p : sr_params) (s : option sr_state) (i : sr_input)
    : option sr_state * option sr_output :=
    match s with
    | None => (None, None)
    | Some s => match sr_step p s i with
                | Some (s', o) => (Some s', Some o)
                | None => (None, None)
                end
    end.

  Definition sr_run (p : sr_params) (s : sr_state) (xs : list sr_input)
    : option sr_state * list (option sr_output) := run (sr_mstep p) (Some s) xs.

  Fixpoint all_some {X : Type} (l : list (option X)) : option (list X) :=
    match l with
    | [] => Some []
    | Some x :: r => match all_some r with Some r' => Some (x :: r') | None => None end
    | None :: _ => None
    end.

  Fixpoint zip4 (a b c d : list T) : list sr_input :=
    match a, b, c, d with
    | x :: a', y :: b', z :: c', w :: d' => (x, y, z, w) :: zip4 a' b' c' d'
    | _, _, _, _ => []
    end.

  (** initial loop state from the supplied states: qi := 0, outflow := prevOutflow,
      storage := s, inflow := prevInflow *)
  Definition sr_init (s prevInflow prevOutflow : T) : sr_state := mkS zero prevOutflow s prevInflow.

  Definition storage_routing_run (params states : list T) (inputs : list (list T))
    : option (list sr_output * list T) :=
    match params, states, inputs with
    | bias :: k :: x :: area :: dead :: dt :: _, s :: prev_in :: prev_out :: rest,
      inflows :: laterals :: rain :: evap :: _ =>
        let p := sr_setup bias k x area dead dt in
        match sr_run p (sr_init s prev_in prev_out) (zip4 inflows laterals rain evap) with
        | (Some sT, outs) =>
            match all_some outs with
            | Some os => Some (os, st_storage sT :: st_inflow sT :: st_outflow sT :: rest)
            | None => None
            end
        | (None, _) => None
        end
    | _, _, _ => None
    end.

  (** the kernel as the generated wrapper sees it *)
  Definition storage_routing_kernel (params states : list T) (inputs : list (list T))
    : option (list (list T) * list T) :=
    match storage_routing_run params states inputs with
    | Some (os, sts) =>
        Some ([map (fun o => let '(q, _, _) := o in q) os; map (fun o => let '(_, s, _) := o in s) os], sts)
    | None => None
    end.

  (** same run, with the exit-path ids as a third series (model only; used by
      the check for branch coverage) *)
  Definition storage_routing_paths_kernel (params states : list T) (inputs : list (list T))
    : option (list (list T) * list T) :=
    match storage_routing_run params states inputs with
    | Some (os, sts) =>
        Some ([map (fun o => let '(q, _, _) := o in q) os; map (fun o => let '(_, s, _) := o in s) os;
               map (fun o => let '(_, _, n) := o in of_Z (Z.of_nat n)) os], sts)
    | None => None
    end.
End K.
