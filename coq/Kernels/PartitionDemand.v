(** models/functions/partition_demand.go *)
From Coq Require Import ZArith List.
From OW Require Import Base.Arith Base.Mealy Kernels.C16Common.
Import ListNotations.

Section K.
  Context {T : Type} {A : Arith T}.
  Local Open Scope ar_scope.

  (** returns (outflow, extraction) *)
  Definition partition_demand_row (x : T * T) : T * T :=
    let '(inp, dmd) := x in
    let ext := amin dmd inp in
    let out := amax (inp - ext) zero in
    (out, ext).
  Definition partition_demand_step := loop_step partition_demand_row.

  Definition partition_demand_kernel (params states : list T) (inputs : list (list T))
    : option (list (list T) * list T) :=
    match params, inputs with
    | [], [input; demand] =>
        let os := snd (run partition_demand_step tt (combine input demand)) in
        Some ([map fst os; map snd os], states)
    | _, _ => None
    end.
End K.
