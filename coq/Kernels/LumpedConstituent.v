(** models/routing/lumpedconstituent.go : LumpedConstituentTransport, shared by
    LumpedConstituentRouting, InstreamFineSediment (bankFullFlow <= 1e-8),
    InstreamDissolvedNutrientDecay (doDecay < 0.5) and StorageDissolvedDecay
    (doStorageDecay < 0.5).  Definitions only.

    One time step is a Mealy step on the state [storedMass].  The flush of the
    whole working mass when the working volume is below MINIMUM_VOLUME is made
    visible as the ghost output component [lo_flushed] (kg per step), which is
    not among the Go outputs. *)
From Coq Require Import ZArith List.
From OW Require Import Base.Arith Base.Mealy Kernels.C12Common.
Import ListNotations.

Section K.
  Context {T : Type} {A : Arith T}.
  Local Open Scope ar_scope.

  (** const MINIMUM_VOLUME = 1e-2 *)
  Definition MINIMUM_VOLUME : T := of_q 1 100.

  Record lumped_in := mk_lumped_in {
    li_inflowLoad : T;   (* kg/s *)
    li_lateralLoad : T;  (* kg/s *)
    li_outflow : T;      (* m3/s *)
    li_storage : T       (* m3 at the end of the step *)
  }.
  Record lumped_out := mk_lumped_out {
    lo_outflowLoad : T;      (* kg/s *)
    lo_pointSourceLoad : T;  (* kg/s *)
    lo_flushed : T           (* ghost: kg discarded this step *)
  }.

  Definition lumped_working_vol (deltaT : T) (x : lumped_in) : T :=
    li_outflow x * deltaT + li_storage x.

  Definition lumped_step (pointInput deltaT : T) (storedMass : T) (x : lumped_in) : T * lumped_out :=
    let totalLoadIn := (li_inflowLoad x + li_lateralLoad x + pointInput) * deltaT in
    let outflowR := li_outflow x in
    let outflowV := outflowR * deltaT in
    let storedV := li_storage x in
    let workingMass := storedMass + totalLoadIn in
    let workingVol := outflowV + storedV in
    if workingVol <? MINIMUM_VOLUME then
      (zero, {| lo_outflowLoad := zero; lo_pointSourceLoad := zero; lo_flushed := workingMass |})
    else
      let concentration := workingMass / workingVol in
      (concentration * storedV,
       {| lo_outflowLoad := concentration * outflowR; lo_pointSourceLoad := pointInput; lo_flushed := zero |}).

  (** rows of the time loop.  [lateral = None] is the nil series passed by
      storageDissolvedDecay: the (fixed) code uses 0.0 for every step. *)
  Definition lumped_rows (inflowLoads : list T) (lateralLoads : option (list T)) (outflows storage : list T)
    : list lumped_in :=
    let lat := match lateralLoads with Some l => l | None => zeros inflowLoads end in
    map (fun r => let '(a, b, c, d) := r in mk_lumped_in a b c d) (zip4 inflowLoads lat outflows storage).

  Definition lumped_transport (inflowLoads : list T) (lateralLoads : option (list T)) (outflows storage : list T)
      (initialStoredMass pointInput deltaT : T) : T * list lumped_out :=
    run (lumped_step pointInput deltaT) initialStoredMass
        (lumped_rows inflowLoads lateralLoads outflows storage).

  (** LumpedConstituentRouting: params X pointInput DeltaT; state storedMass;
      inputs inflowLoad lateralLoad outflow storage; outputs outflowLoad pointSourceLoad *)
  Definition lumped_constituent_routing_kernel (params states : list T) (inputs : list (list T))
    : option (list (list T) * list T) :=
    match params, states, inputs with
    | [x; pointInput; deltaT], [storedMass], [inflowLoad; lateralLoad; outflow; storage] =>
        let (s', os) := lumped_transport inflowLoad (Some lateralLoad) outflow storage storedMass pointInput deltaT in
        Some ([map lo_outflowLoad os; map lo_pointSourceLoad os], [s'])
    | _, _, _ => None
    end.
End K.
