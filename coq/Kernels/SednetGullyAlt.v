(** models/generation/sednet_gully_alt.go : gullyLoadDerm through the shared
    loop of sednet_gully.go (catalogue model DynamicSednetGullyAlt). *)
From Coq Require Import ZArith List.
From OW Require Import Base.Arith Base.Mealy Kernels.C16Common Kernels.UnitConsts Kernels.SednetGully.
Import ListNotations.

Section K.
  Context {T : Type} {A : Arith T}.
  Local Open Scope ar_scope.

  Definition gully_load_derm : gully_export_fn :=
    fun runoffRate annualRunoff area propFine activityFactor managementPracticeFactor annualLoad annualSupply
        longTermRunoffFactor dailyRunoffPowerfactor =>
    let dailyRunoffDepth := (runoffRate / area) * u_METRES_TO_MILLIMETRES * u_SECONDS_PER_DAY in
    let annualSupplyAfterManagement := managementPracticeFactor * annualLoad in
    ((dailyRunoffDepth / annualRunoff) * propFine * activityFactor * annualSupplyAfterManagement,
     (dailyRunoffDepth / annualRunoff) * (one - propFine) * annualSupplyAfterManagement).

  Definition dynamic_sednet_gully_alt_kernel := sednet_gully_generic gully_load_derm.
End K.
